import sys, random
sys.path.insert(0,'/verif'); sys.path.insert(0,'/repo')
import numpy as np
from harness.props import C16 as H
import magpylib._src.fields.field_BH_triangularmesh as tm
rng = random.Random(3)
for it in range(200):
    base = H.gen_base(rng)
    if base['selfint'] or not base['closed']: continue
    V = base['verts']; F = base['faces']
    for s in [1,10]:
        r32 = tm.get_intersecting_triangles(V*s, F)
        # float64 variant
        orig = np.ndarray.astype
        class V64(np.ndarray):
            def astype(self, *a, **k): return np.asarray(self)
        r64 = tm.get_intersecting_triangles((V*s).view(V64), F)
        if len(r32) or len(r64):
            print(base['construction'], 'scale', s, 'f32:', len(r32), 'f64:', len(r64), 'maxcoord', np.abs(V*s).max())
