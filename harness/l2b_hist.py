"""C05 -- histories on collection trees: field call -> edit of the tree at any depth (add / remove /
parent= / children=) or of a source (excitation, geometry, pose) -> field call ..., comparing every
field call with the explicit sum of single-source calls over the CURRENT tree (walked through
`.children` by the harness itself, not through the library's flattening).

Objects are harness stub sources (integer-polynomial fields, exact) and a few real classes; they are
named by creation index so that a history is plain JSON and can be replayed and shrunk."""
import numpy as np

import magpylib as magpy
from magpylib._src.exceptions import MagpylibBadUserInput

from harness import octa, level2, l2b


# ------------------------------------------------------------------ specs
def g_leafspec(rng, uid):
    uid[0] += 1
    x = rng.random()
    pos = [rng.randint(-3, 3) for _ in range(3)]
    if x < 0.7:
        return {"kind": "stub", "key": rng.randrange(3), "tag": [uid[0]] + [rng.randint(-2, 2) for _ in range(rng.randint(0, 2))],
                "pos": pos, "ori": rng.randrange(24)}
    if x < 0.85:
        return {"kind": "cuboid", "pol": [rng.randint(-3, 3) / 4 for _ in range(3)], "dim": [rng.choice([0.5, 1.0, 1.5]) for _ in range(3)],
                "pos": [p + 0.3 for p in pos], "ori": rng.randrange(24)}
    return {"kind": "circle", "cur": rng.randint(-4, 4) / 2, "dia": rng.choice([0.5, 1.0, 2.0]),
            "pos": [p + 0.3 for p in pos], "ori": rng.randrange(24)}


def g_treespec(rng, depth, uid):
    kids = []
    for _ in range(rng.randint(1, 3)):
        x = rng.random()
        if x < 0.45 and depth > 0:
            kids.append(g_treespec(rng, depth - 1, uid))
        elif x < 0.55:
            kids.append({"kind": "sensor"})
        else:
            kids.append(g_leafspec(rng, uid))
    return {"kind": "coll", "children": kids}


def build_leaf(sp):
    if sp["kind"] == "sensor":
        return magpy.Sensor()
    rot = octa.rot(sp["ori"])
    if sp["kind"] == "stub":
        return level2.STUBS[sp["key"]](sp["tag"], position=sp["pos"], orientation=rot)
    if sp["kind"] == "cuboid":
        return magpy.magnet.Cuboid(polarization=sp["pol"], dimension=sp["dim"], position=sp["pos"], orientation=rot)
    if sp["kind"] == "circle":
        return magpy.current.Circle(current=sp["cur"], diameter=sp["dia"], position=sp["pos"], orientation=rot)
    if sp["kind"] == "sensor":
        return magpy.Sensor()
    raise ValueError(sp["kind"])


def build_tree(sp, objs):
    """creation order = DFS pre-order; objs collects every object"""
    if sp["kind"] != "coll":
        o = build_leaf(sp)
        objs.append(o)
        return o
    col = magpy.Collection()
    objs.append(col)
    for c in sp["children"]:
        col.add(build_tree(c, objs))
    return col


# ------------------------------------------------------------------ history generation (on live objects, recorded as JSON)
def is_src(o):
    return not isinstance(o, (magpy.Collection, magpy.Sensor))


def descendants(col):
    out = []
    for c in col.children:
        out.append(c)
        if isinstance(c, magpy.Collection):
            out += descendants(c)
    return out


def g_history(rng, nops=8):
    uid = [0]
    roots = [g_treespec(rng, 2, uid)]
    if rng.random() < 0.5:
        roots.append(g_leafspec(rng, uid) if rng.random() < 0.6 else g_treespec(rng, 1, uid))
    objs = []
    tops = [build_tree(r, objs) for r in roots]
    ops = [{"op": "field", "sumup": rng.random() < 0.3}]
    for _ in range(nops):
        cols = [i for i, o in enumerate(objs) if isinstance(o, magpy.Collection)]
        srcs = [i for i, o in enumerate(objs) if is_src(o)]
        x = rng.random()
        if not srcs and x >= 0.48:
            x = 0.4                      # nothing to remove / move / change yet: add a source
        if x < 0.3:
            op = {"op": "field", "sumup": rng.random() < 0.3}
        elif x < 0.48:
            op = {"op": "add", "col": rng.choice(cols), "new": g_leafspec(rng, uid)}
        elif x < 0.6:
            cand = [i for i in srcs if objs[i].parent is not None]
            op = {"op": "remove", "obj": rng.choice(cand)} if cand else {"op": "field", "sumup": False}
        elif x < 0.72:
            op = {"op": "parent", "obj": rng.choice(srcs), "col": rng.choice(cols)}
        elif x < 0.8:
            c = rng.choice(cols)
            kids = [objs.index(k) for k in objs[c].children]
            keep = [k for k in kids if rng.random() < 0.6]
            op = {"op": "children", "col": c, "keep": keep, "new": g_leafspec(rng, uid) if rng.random() < 0.5 else None}
        elif x < 0.86:
            op = {"op": "excite", "obj": rng.choice(srcs), "val": rng.randint(-3, 3)}
        elif x < 0.9:
            # pose of a (nested) collection through move / rotate / the position attribute: children follow
            op = {"op": "colpose", "col": rng.choice(cols), "how": rng.choice(["move", "rotate", "position", "reset"]),
                  "vec": [rng.randint(-2, 2) for _ in range(3)], "ori": rng.randrange(24)}
        elif x < 0.93:
            op = {"op": "read", "col": rng.choice(cols)}
        elif x < 0.95:
            op = {"op": "reject", "col": rng.choice(cols)}
        else:
            op = {"op": "pose", "obj": rng.choice(srcs), "pos": [rng.randint(-3, 3) for _ in range(3)], "ori": rng.randrange(24)}
        apply_op(op, objs)
        ops.append(op)
    ops.append({"op": "field", "sumup": rng.random() < 0.3})
    return {"roots": roots, "ops": ops, "field": rng.choice(["B", "H"])}


def apply_op(op, objs):
    """edits; ops that refer to objects a shrunk history no longer creates are skipped (returns False)"""
    k = op["op"]

    def get(i):
        return objs[i] if i is not None and i < len(objs) else None
    if k == "add":
        col = get(op["col"])
        new = build_leaf(op["new"])
        objs.append(new)                      # the index is taken also when the collection is gone
        if col is None:
            return False
        col.add(new)
    elif k == "remove":
        o = get(op["obj"])
        if o is None or o.parent is None:
            return False
        o.parent.remove(o)
    elif k == "parent":
        o, col = get(op["obj"]), get(op["col"])
        if o is None or col is None:
            return False
        o.parent = col
    elif k == "children":
        col = get(op["col"])
        new = build_leaf(op["new"]) if op.get("new") else None
        if new is not None:
            objs.append(new)
        if col is None:
            return False
        keep = [objs[i] for i in op["keep"] if i < len(objs) and objs[i] in col.children]
        col.children = keep + ([new] if new is not None else [])
    elif k == "excite":
        o = get(op["obj"])
        if o is None:
            return False
        if hasattr(o, "tag"):
            o.tag = np.array([float(op["val"])] + list(o.tag[1:]))
        elif isinstance(o, magpy.magnet.Cuboid):
            o.polarization = (op["val"] / 4, 0.25, -0.5)
        else:
            o.current = op["val"] / 2
    elif k == "colpose":
        col = get(op["col"])
        if col is None:
            return False
        if op["how"] == "move":
            col.move(op["vec"])
        elif op["how"] == "rotate":
            col.rotate(octa.rot(op["ori"]))
        elif op["how"] == "position":
            col.position = op["vec"]
        else:
            col.reset_path()
            col.reset_path()              # two resets in a row
    elif k == "read":
        col = get(op["col"])
        if col is None:
            return False
        _ = (col.sources_all, col.sensors_all, col.collections_all, col.children_all, len(col), repr(col))
    elif k == "reject":
        col = get(op["col"])
        if col is None:
            return False
        for bad in (lambda: col.add(col), lambda: col.add("not an object"), lambda: col.remove(magpy.Sensor())):
            try:
                bad()
            except Exception:   # pylint: disable=broad-except
                pass
    elif k == "pose":
        o = get(op["obj"])
        if o is None:
            return False
        off = 0.0 if hasattr(o, "tag") else 0.3
        o.position = [p + off for p in op["pos"]]
        o.orientation = octa.rot(op["ori"])
    return True


# ------------------------------------------------------------------ the oracle
SENSOR = {"position": (1, -2, 3), "pixel": [(0, 0, 0), (1, 2, -1)]}


def current_leaves(o):
    """sources of the tree as it is NOW, by walking .children"""
    if isinstance(o, magpy.Collection):
        return [x for c in o.children for x in current_leaves(c)]
    return [o] if is_src(o) else []


def check_field(tops, field, sumup):
    """None or (clause, detail): the list call against sums of single-source calls on the current tree"""
    f = l2b.field_fn(field)
    sens = magpy.Sensor(position=SENSOR["position"], pixel=SENSOR["pixel"])
    valid = [t for t in tops if current_leaves(t)]
    if not valid:
        return None
    try:
        got = f(valid, sens, squeeze=False, sumup=sumup)
    except MagpylibBadUserInput as e:
        return ("raises", f"source list with a source in every entry rejected: {e}"[:200])
    except Exception as e:   # pylint: disable=broad-except
        return ("raises", f"raised {type(e).__name__}: {e}"[:200])
    exp = np.array([sum(f(l, sens, squeeze=False)[0] for l in current_leaves(t)) for t in valid])
    if sumup:
        exp = exp.sum(axis=0, keepdims=True)
    if got.shape != exp.shape:
        return ("one-entry", f"output shape {got.shape}, expected {exp.shape}")
    scale = max(float(np.abs(exp).max()), 1e-300)
    if float(np.abs(got - exp).max()) > 1e-9 * scale:
        return ("sumup" if sumup else "collection-sum",
                "field of the list differs from the sum of single-source fields over the CURRENT tree")
    return None


def run_history(h):
    """None or (index of the failing field op, clause, detail)"""
    objs = []
    tops = [build_tree(r, objs) for r in h["roots"]]
    for i, op in enumerate(h["ops"]):
        if op["op"] == "field":
            res = check_field(tops, h["field"], op["sumup"])
            if res is not None:
                return i, res[0], res[1]
        else:
            try:
                apply_op(op, objs)
            except MagpylibBadUserInput:
                pass                      # a rejected edit (e.g. re-parenting into itself) changes nothing
    return None


def trigger(h, idx):
    """which edit precedes the failing call, and whether it touched the entry itself or a nested collection"""
    objs = []
    tops = [build_tree(r, objs) for r in h["roots"]]
    last, depth = "none", ""
    seen_field = False
    for op in h["ops"][:idx]:
        if op["op"] == "field":
            seen_field = True
            continue
        col = None
        if op["op"] in ("add", "children", "parent"):
            col = objs[op["col"]] if op["col"] < len(objs) else None
        elif op["op"] == "remove" and op["obj"] < len(objs):
            col = objs[op["obj"]].parent
        try:
            ok = apply_op(op, objs)
        except MagpylibBadUserInput:
            ok = False
        if ok:
            last = op["op"]
            depth = "" if col is None else (":entry" if col in tops else ":nested")
    return ("after-" if seen_field else "fresh-") + last + depth
