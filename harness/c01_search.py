"""C01 -- search on the implementation: the property's own oracle.

For every source class a case = (class, parameters, pose, observer in the local frame, tag).
`evaluate(case)` builds the magpylib object, calls getB/getH through the public API at the
GLOBAL observer and compares with the first-principles reference of c01_quad.py, relative to
the local field scale.  Cases are plain JSON so they can be replayed.
"""
import math

import numpy as np

from harness import c01_quad as Q

CLASSES = ["Cuboid", "Cylinder", "CylinderSegment", "Sphere", "Tetrahedron", "TriangularMesh",
           "Triangle", "Circle", "Polyline", "Dipole"]
CLAUSE = {"Circle": "biot-savart", "Polyline": "biot-savart", "Dipole": "point-dipole"}


# --------------------------------------------------------------------------- small geometry
def rotmat(rotvec):
    v = np.asarray(rotvec, float)
    th = np.linalg.norm(v)
    if th == 0:
        return np.eye(3)
    k = v / th
    K = np.array([[0, -k[2], k[1]], [k[2], 0, -k[0]], [-k[1], k[0], 0]])
    return np.eye(3) + math.sin(th) * K + (1 - math.cos(th)) * (K @ K)


def closest_on_segment(o, p, q):
    d = q - p
    dd = d @ d
    t = 0.0 if dd == 0 else min(1.0, max(0.0, ((o - p) @ d) / dd))
    return p + t * d


def dist_point_triangle(o, A, B, C):
    n = np.cross(B - A, C - A)
    nn = np.linalg.norm(n)
    n = n / nn
    h = (o - A) @ n
    P = o - h * n
    # inside test by barycentric signs
    s0 = np.cross(B - A, P - A) @ n
    s1 = np.cross(C - B, P - B) @ n
    s2 = np.cross(A - C, P - C) @ n
    if s0 >= 0 and s1 >= 0 and s2 >= 0:
        return abs(h)
    return min(np.linalg.norm(o - closest_on_segment(o, X, Y)) for X, Y in ((A, B), (B, C), (C, A)))


def solid_angle_sum(o, tris):
    """winding number of a closed triangle surface around o (van Oosterom-Strackee)"""
    tot = 0.0
    for A, B, C in tris:
        a, b, c = A - o, B - o, C - o
        la, lb, lc = np.linalg.norm(a), np.linalg.norm(b), np.linalg.norm(c)
        num = a @ np.cross(b, c)
        den = la * lb * lc + (a @ b) * lc + (a @ c) * lb + (b @ c) * la
        tot += 2 * math.atan2(num, den)
    return tot / (4 * math.pi)


def ang_in(phi, p1, p2):
    """is the angle phi (any branch) inside [p1,p2] (p2-p1 <= 2pi)?"""
    x = (phi - p1) % (2 * math.pi)
    return x <= (p2 - p1)


# --------------------------------------------------------------------------- bodies
def tetra_tris(V):
    """outward oriented faces of a tetrahedron (own computation, by the centroid)"""
    V = np.asarray(V, float)
    cen = V.mean(axis=0)
    out = []
    for idx in ((0, 1, 2), (0, 1, 3), (1, 2, 3), (0, 2, 3)):
        A, B, C = V[list(idx)]
        if np.cross(B - A, C - A) @ (A - cen) < 0:
            B, C = C, B
        out.append([A, B, C])
    return np.array(out)


_RAYS = [np.array([0.5257311121191336, 0.3141592653589793, 0.7905694150420949]),
         np.array([-0.2718281828459045, 0.8414709848078965, 0.4673027349021854]),
         np.array([0.6180339887498949, -0.7071067811865476, 0.3437746770784939])]


def ray_parity(o, T, d):
    """number of triangles of T crossed by the ray o + t d, t > 0 (Moeller-Trumbore), and the
    smallest margin to a triangle rim in barycentric units (to detect grazing hits)"""
    A, B, C = T[:, 0], T[:, 1], T[:, 2]
    e1, e2 = B - A, C - A
    h = np.cross(d, e2)
    a = np.einsum("ij,ij->i", e1, h)
    ok = np.abs(a) > 1e-300
    a = np.where(ok, a, 1.0)
    s = o - A
    u = np.einsum("ij,ij->i", s, h) / a
    q = np.cross(s, e1)
    v = (q @ d) / a
    t = np.einsum("ij,ij->i", e2, q) / a
    hit = ok & (u > 0) & (v > 0) & (u + v < 1) & (t > 0)
    margin = np.min(np.abs(np.stack([u, v, 1 - u - v]))[:, ok & (t > 0)]) if np.any(ok & (t > 0)) else 1.0
    return int(hit.sum()), float(margin)


def point_in_mesh(o, T):
    """inside test that does not depend on the winding of the faces: parity of ray crossings,
    majority over rays that do not graze an edge"""
    votes = []
    for d in _RAYS:
        d = d / np.linalg.norm(d)
        n, m = ray_parity(o, T, d)
        if m > 1e-9:
            votes.append(n % 2)
    if not votes:
        votes = [ray_parity(o, T, _RAYS[0] / np.linalg.norm(_RAYS[0]))[0] % 2]
    return sum(votes) * 2 > len(votes)


def mesh_tris(verts, faces):
    """outward oriented triangles of a closed mesh whose faces may be wound arbitrarily:
    orientation is decided per face by a winding-independent inside test of a point just off
    the face (own computation, independent of magpylib's reorientation)"""
    V = np.asarray(verts, float)
    T = np.array([[V[i] for i in f] for f in faces])
    size = np.ptp(V, axis=0).max()
    out = []
    for A, B, C in T:
        n = np.cross(B - A, C - A)
        n /= np.linalg.norm(n)
        c = (A + B + C) / 3 + 1e-6 * size * n
        if point_in_mesh(c, T):     # n points inwards
            out.append([A, C, B])
        else:
            out.append([A, B, C])
    return np.array(out)


_TRI_CACHE = {}


def body_tris(case):
    p = case["params"]
    if case["cls"] == "TriangularMesh":
        key = (id(p), len(p["faces"]), float(p["vertices"][0][0]), float(p["vertices"][-1][2]))
        if key not in _TRI_CACHE:
            if len(_TRI_CACHE) > 64:
                _TRI_CACHE.clear()
            _TRI_CACHE[key] = (p, mesh_tris(p["vertices"], p["faces"]))     # p kept alive: id stays unique
        return _TRI_CACHE[key][1]
    if case["cls"] == "Tetrahedron":
        return tetra_tris(p["vertices"])
    if case["cls"] == "TriangularMesh":
        return mesh_tris(p["vertices"], p["faces"])
    if case["cls"] == "Triangle":
        return np.array([p["vertices"]], float)
    return None


def size_of(case):
    p, c = case["params"], case["cls"]
    if c == "Cuboid":
        return float(max(np.abs(p["dimension"])))
    if c == "Cylinder":
        return float(max(np.abs(p["dimension"])))
    if c == "CylinderSegment":
        return float(max(2 * p["dimension"][1], p["dimension"][2]))
    if c == "Sphere":
        return abs(p["diameter"])
    if c in ("Tetrahedron", "TriangularMesh", "Triangle", "Polyline"):
        V = np.asarray(p["vertices"], float)
        return float(np.ptp(V, axis=0).max())
    if c == "Circle":
        return abs(p["diameter"])
    return 1.0


def centre_of(case):
    p, c = case["params"], case["cls"]
    if c in ("Tetrahedron", "TriangularMesh", "Triangle", "Polyline"):
        return np.asarray(p["vertices"], float).mean(axis=0)
    if c == "CylinderSegment":
        r1, r2, h, a1, a2 = p["dimension"]
        am = math.radians(0.5 * (a1 + a2))
        rm = 0.5 * (r1 + r2)
        return np.array([rm * math.cos(am), rm * math.sin(am), 0.0])
    return np.zeros(3)


def inside_and_dist(case, o):
    """(inside?, distance of o from the surface / wire) by this module's own geometry"""
    p, c = case["params"], case["cls"]
    o = np.asarray(o, float)
    if c == "Cuboid":
        half = np.abs(p["dimension"]) / 2.0
        q = np.abs(o) - half
        if np.all(q < 0):
            return True, float(-q.max())
        return False, float(np.linalg.norm(np.maximum(q, 0)))
    if c == "Sphere":
        R = abs(p["diameter"]) / 2
        r = np.linalg.norm(o)
        return r < R, abs(r - R)
    if c == "Cylinder":
        R, hh = p["dimension"][0] / 2, p["dimension"][1] / 2
        dr, dz = math.hypot(o[0], o[1]) - R, abs(o[2]) - hh
        if dr < 0 and dz < 0:
            return True, -max(dr, dz)
        return False, math.hypot(max(dr, 0), max(dz, 0))
    if c == "CylinderSegment":
        r1, r2, h, a1, a2 = p["dimension"]
        p1, p2 = math.radians(a1), math.radians(a2)
        full = (a2 - a1) >= 360
        r, phi, z = math.hypot(o[0], o[1]), math.atan2(o[1], o[0]), o[2]
        inphi = full or ang_in(phi, p1, p2)
        inside = (r1 < r or r1 == 0) and r < r2 and (inphi or r == 0) and abs(z) < h / 2
        cands = []
        zc = min(h / 2, max(-h / 2, z))
        rc = min(r2, max(r1, r))
        if inphi:
            for zz in (-h / 2, h / 2):                     # top / bottom sector
                cands.append(np.array([rc * math.cos(phi), rc * math.sin(phi), zz]))
            for R in ((r1, r2) if r1 > 0 else (r2,)):      # walls
                cands.append(np.array([R * math.cos(phi), R * math.sin(phi), zc]))
        if not full:
            for pe in (p1, p2):                            # side rectangles (also cover all edges)
                er = np.array([math.cos(pe), math.sin(pe), 0.0])
                rho = min(r2, max(r1, o @ er))
                cands.append(rho * er + np.array([0, 0, zc]))
                for zz in (-h / 2, h / 2):
                    cands.append(rho * er + np.array([0, 0, zz]))
                for R in (r1, r2):
                    cands.append(R * er + np.array([0, 0, zc]))
        elif not inphi:
            pass
        if r1 == 0 and inphi:
            pass
        d = min(np.linalg.norm(o - q) for q in cands)
        return inside, float(d)
    if c in ("Tetrahedron", "TriangularMesh"):
        T = body_tris(case)
        d = min(dist_point_triangle(o, A, B, C) for A, B, C in T)
        return point_in_mesh(o, T), float(d)
    if c == "Triangle":
        A, B, C = np.asarray(p["vertices"], float)
        return False, float(dist_point_triangle(o, A, B, C))
    if c == "Circle":
        r0 = abs(p["diameter"]) / 2
        return False, math.hypot(math.hypot(o[0], o[1]) - r0, o[2])
    if c == "Polyline":
        V = np.asarray(p["vertices"], float)
        return False, float(min(np.linalg.norm(o - closest_on_segment(o, a, b)) for a, b in zip(V[:-1], V[1:])))
    return False, float(np.linalg.norm(o))


# --------------------------------------------------------------------------- reference + scale
def reference(case, o, rel=1e-10):
    """(H_ref, B_ref, scale_H, ok, evals) in the local frame"""
    p, c = case["params"], case["cls"]
    o = np.asarray(o, float)
    D = max(np.linalg.norm(o - centre_of(case)), 1e-300)
    s = size_of(case)
    inside, dist = inside_and_dist(case, o)
    if c == "Dipole":
        m = np.asarray(p["moment"], float)
        H = Q.dipole_H(m, o)
        return H, Q.MU0 * H, np.linalg.norm(m) / (4 * math.pi * D ** 3), True, 1
    if c == "Circle":
        r0, cur = abs(p["diameter"]) / 2, p["current"]
        S = abs(cur) / (2 * r0) * min(1.0, r0 / D) ** 3
        H, err, ok, ev = Q.circle_H(p["diameter"], cur, o, rel * S)
        return H, Q.MU0 * H, S, ok, ev
    if c == "Polyline":
        V, cur = np.asarray(p["vertices"], float), p["current"]
        S = 0.0
        for a, b in zip(V[:-1], V[1:]):
            L = np.linalg.norm(b - a)
            if L > 0:
                di = np.linalg.norm(o - closest_on_segment(o, a, b))
                S += abs(cur) / (4 * math.pi) * L / (di * (di + L))
        # vertices given far from the local origin: o - l is only known to ~eps*|coordinates|
        rel_eff = max(rel, 1e-14 * float(np.abs(V).max()) / max(s, 1e-300))
        H, err, ok, ev = Q.polyline_H(V, cur, o, rel_eff * S)
        return H, Q.MU0 * H, S, ok, ev
    J = np.asarray(p["polarization"], float)
    Jn = np.linalg.norm(J)
    if c == "Triangle":
        A, B, C = np.asarray(p["vertices"], float)
        sig = float(Q.tri_normal(A, B, C) @ J)
        S_G = abs(sig) * min(1.0, s / D) ** 2 + 1e-300
        patches = [Q.tri_patch(A, B, C, sig)] if sig != 0 else []
    else:
        S_G = Jn * min(1.0, s / D) ** 3
        if c == "Cuboid":
            patches = Q.cuboid_patches(p["dimension"], J)
        elif c == "Cylinder":
            patches = Q.cylseg_patches(0.0, p["dimension"][0] / 2, p["dimension"][1], 0.0, 2 * math.pi, J, full=True)
        elif c == "CylinderSegment":
            r1, r2, h, a1, a2 = p["dimension"]
            patches = Q.cylseg_patches(r1, r2, h, math.radians(a1), math.radians(a2), J, full=(a2 - a1) >= 360)
        elif c == "Sphere":
            patches = Q.sphere_patches(p["diameter"], J)
        else:
            patches = Q.mesh_patches(body_tris(case), J)
    G, err, ok, ev = Q.surface_integral(patches, o, rel * S_G)
    B = G + (J if inside else 0.0)
    return G / Q.MU0, B, S_G / Q.MU0, ok, ev


# --------------------------------------------------------------------------- implementation
def build(case):
    import magpylib as magpy
    from scipy.spatial.transform import Rotation as R
    p, c = case["params"], case["cls"]
    kw = dict(position=case["pos"], orientation=R.from_rotvec(case["rotvec"]))
    if c == "Cuboid":
        return magpy.magnet.Cuboid(polarization=p["polarization"], dimension=p["dimension"], **kw)
    if c == "Cylinder":
        return magpy.magnet.Cylinder(polarization=p["polarization"], dimension=p["dimension"], **kw)
    if c == "CylinderSegment":
        return magpy.magnet.CylinderSegment(polarization=p["polarization"], dimension=p["dimension"], **kw)
    if c == "Sphere":
        return magpy.magnet.Sphere(polarization=p["polarization"], diameter=p["diameter"], **kw)
    if c == "Tetrahedron":
        return magpy.magnet.Tetrahedron(polarization=p["polarization"], vertices=p["vertices"], **kw)
    if c == "TriangularMesh":
        return magpy.magnet.TriangularMesh(polarization=p["polarization"], vertices=p["vertices"],
                                           faces=p["faces"], **kw)
    if c == "Triangle":
        return magpy.misc.Triangle(polarization=p["polarization"], vertices=p["vertices"], **kw)
    if c == "Circle":
        return magpy.current.Circle(current=p["current"], diameter=p["diameter"], **kw)
    if c == "Polyline":
        return magpy.current.Polyline(current=p["current"], vertices=p["vertices"], **kw)
    if c == "Dipole":
        return magpy.misc.Dipole(moment=p["moment"], **kw)
    raise ValueError(c)


def global_obs(case):
    return rotmat(case["rotvec"]) @ np.asarray(case["obs_local"], float) + np.asarray(case["pos"], float)


FLOOR = 1e-2     # the local field scale is max(|F_ref|, FLOOR * class scale estimate)


_CS_SEEN = []
_CS_PATCHED = [False]


def _instrument():
    """record the special-case ids that magnet_cylinder_segment_Hfield dispatches on (harness side:
    the module attribute determine_cases is wrapped in THIS process; /repo is not touched)"""
    if _CS_PATCHED[0]:
        return
    import magpylib._src.fields.field_BH_cylinder_segment as m
    orig = m.determine_cases

    def wrapped(*a, **k):
        res = orig(*a, **k)
        _CS_SEEN.extend(int(v) for v in np.unique(res))
        return res
    m.determine_cases = wrapped
    _CS_PATCHED[0] = True


CS_CASES = [112, 113, 115, 122, 123, 124, 125, 132, 133, 134, 135,
            211, 212, 213, 214, 215, 221, 222, 223, 224, 225, 231, 232, 233, 234, 235]


def polyline_masks(case, o):
    """which exit of current_polyline_Hfield each segment takes (own replica of the mask logic)"""
    V = np.asarray(case["params"]["vertices"], float)
    out = set()
    for a, b in zip(V[:-1], V[1:]):
        if np.all(a == b):
            out.add("zero-length")
            continue
        L = np.linalg.norm(a - b)
        q1, q2, qo = a / L, b / L, o / L
        t = (qo - q1) @ (q1 - q2)
        q4 = q1 + t * (q1 - q2)
        if np.linalg.norm(qo - q4) < 1e-15:
            out.add("on-line")
            continue
        n41, n42 = np.linalg.norm(q4 - q1), np.linalg.norm(q4 - q2)
        out.add("mask2" if (n41 > 1 and n41 > n42) else "mask3" if (n42 > 1 and n42 > n41) else "mask4")
    return out


def branches(case, ol, inside, seen_cs):
    """names of the formula branches this evaluation went through (for the coverage accounting)"""
    c, p = case["cls"], case["params"]
    side = "inside" if inside else "outside"
    out = [f"{c}:{side}"]
    if c == "Cuboid":
        out.append(f"Cuboid:octant:{'-' if ol[0] < 0 else '+'}{'+' if ol[1] > 0 else '-'}{'+' if ol[2] > 0 else '-'}:{side}")
    if c in ("Cylinder", "CylinderSegment"):
        pol = p["polarization"]
        out.append(f"{c}:pol:{'tv' if (pol[0] != 0 or pol[1] != 0) else ''}{'ax' if pol[2] != 0 else ''}")
    if c == "Cylinder":
        r = math.hypot(ol[0], ol[1]) / (p["dimension"][0] / 2)
        out.append(f"Cylinder:{'small_r' if r < 0.05 else 'general_r'}:{side}")
    if c == "CylinderSegment":
        if p["dimension"][4] - p["dimension"][3] >= 360:
            out.append("CylinderSegment:full360:" + ("solid" if p["dimension"][0] == 0 else "ring"))
        else:
            out += [f"CylinderSegment:case{k}" for k in sorted(set(seen_cs))]
            if p["dimension"][3] < -180:
                out.append("CylinderSegment:phi1<-180:" + side)
    if c == "Circle":
        out.append("Circle:" + ("on-axis" if ol[0] == 0 and ol[1] == 0 else "general"))
    if c == "Polyline":
        out += ["Polyline:" + m for m in sorted(polyline_masks(case, ol))]
    if c in ("Triangle", "Tetrahedron", "TriangularMesh"):
        T = body_tris(case)
        s = size_of(case)
        for A, B, C in T:
            n = np.cross(B - A, C - A)
            if abs((ol - A) @ n) / np.linalg.norm(n) < 1e-9 * s:
                out.append(f"{c}:in-face-plane")
                break
    return out


def evaluate(case, BH=None):
    """returns dict(status = ok | skipped | fail | error, rel errors, ...).
    BH = (B, H) of this row taken from a batched getB/getH call; None: call getB/getH for this observer alone"""
    import warnings
    warnings.simplefilter("ignore")
    try:
        M = rotmat(case["rotvec"])
        og = global_obs(case)
        ol = M.T @ (og - np.asarray(case["pos"], float))      # the reference's own frame change
        inside, dist = inside_and_dist(case, ol)
        s = size_of(case)
        if dist < 0.99e-3 * s:
            return {"status": "skipped", "why": "closer than 1e-3 of the source size"}
        if dist > 1.01e3 * s:
            return {"status": "skipped", "why": "farther than 1e3 source sizes"}
        if case["cls"] in ("Triangle", "Tetrahedron", "TriangularMesh") and edge_angle(case, ol) < TRI_EDGE_CONE:
            # the integral is not judged here (documented precision loss), the interior term still is:
            # B - mu0 H must be J inside and 0 outside whatever the rounding of the surface integral
            if BH is None:
                src = build(case)
                B = np.asarray(src.getB(og), float)
                H = np.asarray(src.getH(og), float)
            else:
                B, H = (np.asarray(v, float) for v in BH)
            out = {"status": "skipped", "why": "documented precision loss on a triangle edge extension",
                   "inside": bool(inside), "dist_rel": dist / s}
            Jg = M @ np.asarray(case["params"]["polarization"], float)
            jn = np.linalg.norm(Jg)
            if jn > 0 and np.all(np.isfinite(B)) and np.all(np.isfinite(H)):
                dJ = B - Q.MU0 * H
                flag = (True if np.linalg.norm(dJ - Jg) < 1e-6 * jn else False if np.linalg.norm(dJ) < 1e-6 * jn else None)
                if flag is not None and flag != bool(inside):
                    out.update(status="ok", rel=0.0, rel_H=0.0, rel_B=0.0, which="B", b_minus_mu0h_is_j=flag,
                               got=[float(v) for v in B], expected=[float(v) for v in (Q.MU0 * H + (Jg if inside else 0.0))])
            return out
        Href, Bref, S, ok, ev = reference(case, ol)
        if not ok:
            return {"status": "skipped", "why": "reference quadrature not converged", "evals": ev}
        Href, Bref = M @ Href, M @ Bref
        if BH is None:
            src = build(case)
            _instrument()
            del _CS_SEEN[:]
            B = np.asarray(src.getB(og), float)
            H = np.asarray(src.getH(og), float)
            seen_cs = list(_CS_SEEN)
        else:
            B, H = (np.asarray(v, float) for v in BH)
            seen_cs = []
    except Exception as e:   # pylint: disable=broad-except
        import traceback
        return {"status": "error", "why": f"{type(e).__name__}: {e}", "trace": traceback.format_exc()[-1500:]}
    out = {"status": "ok", "inside": bool(inside), "dist_rel": dist / s, "evals": ev}
    try:
        out["branches"] = branches(case, ol, inside, seen_cs)
    except Exception as e:   # pylint: disable=broad-except
        out["branches"] = [f"{case['cls']}:branch-accounting-failed:{type(e).__name__}"]
    if "polarization" in case["params"] and np.all(np.isfinite(B)) and np.all(np.isfinite(H)):
        Jg = M @ np.asarray(case["params"]["polarization"], float)
        dJ = B - Q.MU0 * H
        jn = np.linalg.norm(Jg)
        if jn > 0:
            out["b_minus_mu0h_is_j"] = (True if np.linalg.norm(dJ - Jg) < 1e-6 * jn else
                                        False if np.linalg.norm(dJ) < 1e-6 * jn else None)
    worst = 0.0
    for nm, F, Fr, sc in (("H", H, Href, S), ("B", B, Bref, S * Q.MU0)):
        if F.shape != (3,) or not np.all(np.isfinite(F)):
            out.update(status="fail", which=nm, rel=float("inf"), got=[float(x) for x in np.ravel(F)],
                       expected=[float(x) for x in Fr])
            return out
        scale = max(np.linalg.norm(Fr), FLOOR * sc, 1e-300)
        rel = float(np.linalg.norm(F - Fr) / scale)
        out["rel_" + nm] = rel
        if rel > worst:
            worst = rel
            out.update(which=nm, got=[float(x) for x in F], expected=[float(x) for x in Fr])
    out["rel"] = worst
    return out


# =========================================================================== generators
# Every case is plain JSON: {cls, params, pos, rotvec, obs_local, kind}.  `kind` only records
# how the observer was placed (it is not trusted: the region is recomputed from geometry).
def _r3(rng, lo=-1.0, hi=1.0):
    return [rng.uniform(lo, hi) for _ in range(3)]


def _unit(rng):
    while True:
        v = np.array(_r3(rng))
        n = np.linalg.norm(v)
        if 0.1 < n <= 1:
            return v / n


def _logu(rng, lo, hi):
    return 10 ** rng.uniform(math.log10(lo), math.log10(hi))


def _pol(rng):
    """polarization / moment: generic, or with zero components (axial / transversal only)"""
    k = rng.random()
    v = _r3(rng)
    if k < 0.12:
        v = [0.0, 0.0, v[2]]
    elif k < 0.24:
        v = [v[0], v[1], 0.0]
    elif k < 0.32:
        v = [v[0], 0.0, 0.0]
    elif k < 0.40:
        v = [0.0, v[1], 0.0]
    elif k < 0.46:                         # exactly +-1 along one axis
        v = [0.0, 0.0, 0.0]
        v[rng.randrange(3)] = rng.choice([-1.0, 1.0])
    elif k < 0.48:                         # no excitation at all: the field must vanish
        return [0.0, 0.0, 0.0]
    s = _logu(rng, 0.01, 2.0)
    return [s * x for x in v]


_CUBE_V = [[-1, -1, -1], [1, -1, -1], [1, 1, -1], [-1, 1, -1], [-1, -1, 1], [1, -1, 1], [1, 1, 1], [-1, 1, 1]]
_CUBE_F = [[0, 2, 1], [0, 3, 2], [4, 5, 6], [4, 6, 7], [0, 1, 5], [0, 5, 4], [2, 3, 7], [2, 7, 6],
           [1, 2, 6], [1, 6, 5], [0, 4, 7], [0, 7, 3]]
# L-shaped prism (non-convex), 12 vertices
_L_XY = [[0, 0], [2, 0], [2, 1], [1, 1], [1, 2], [0, 2]]


def _l_prism():
    V = [[x, y, 0.0] for x, y in _L_XY] + [[x, y, 1.0] for x, y in _L_XY]
    F = []
    # bottom (z=0) and top (z=1), fan triangulation valid for this L (from vertex 3 = reflex corner)
    fan = [[3, 4, 5], [3, 5, 0], [3, 0, 1], [3, 1, 2]]
    for a, b, c in fan:
        F.append([a, c, b])
        F.append([a + 6, b + 6, c + 6])
    for i in range(6):
        j = (i + 1) % 6
        F.append([i, j, j + 6])
        F.append([i, j + 6, i + 6])
    return V, F


def gen_params(rng, cls):
    # overall length scale of the source: mostly 0.05..20, one case in five small in absolute terms
    # (1e-9..1e-2: micro / nano structures given in SI metres; every formula is scale invariant)
    ks = rng.random()
    sc = _logu(rng, 0.05, 20.0) if ks < 0.7 else _logu(rng, 1e-9, 1e-2) if ks < 0.9 else _logu(rng, 1e2, 1e4)
    if cls == "Cuboid":
        dim = [sc * _logu(rng, 0.3, 3.0) for _ in range(3)]
        ka = rng.random()
        if ka < 0.15:                      # rod: one long axis (each axis in turn)
            dim[rng.randrange(3)] *= _logu(rng, 5, 50)
        elif ka < 0.3:                     # plate: one short axis
            dim[rng.randrange(3)] /= _logu(rng, 5, 50)
        return {"polarization": _pol(rng), "dimension": dim}
    if cls == "Cylinder":
        dim = [sc * _logu(rng, 0.3, 3.0), sc * _logu(rng, 0.3, 3.0)]
        ka = rng.random()
        if ka < 0.15:
            dim[1] *= _logu(rng, 5, 50)    # needle
        elif ka < 0.3:
            dim[1] /= _logu(rng, 5, 50)    # disc
        return {"polarization": _pol(rng), "dimension": dim}
    if cls == "CylinderSegment":
        r2 = sc * _logu(rng, 0.5, 2.0)
        kr = rng.random()
        r1 = 0.0 if kr < 0.25 else r2 * rng.uniform(0.1, 0.85) if kr < 0.85 else r2 * rng.uniform(0.95, 0.995)   # thin shell
        # section angles anywhere in the documented range [-360, 360], in particular phi1 < -180
        # (the body then covers positive atan2 azimuths through the phi - 360 alias)
        a1 = rng.choice([0.0, -90.0, 30.0, -270.0, -200.0, rng.uniform(-180, 180), rng.uniform(-360, -180)])
        span = rng.choice([360.0, 180.0, 90.0, rng.uniform(20, 340), rng.uniform(350.0, 359.9), rng.uniform(1.0, 10.0)])
        a2 = a1 + span
        if a2 > 360.0:
            a1, a2 = a1 - (a2 - 360.0), 360.0
        if a2 - a1 > 360.0 or a1 < -360.0:
            a1, a2 = 0.0, 360.0
        return {"polarization": _pol(rng), "dimension": [r1, r2, sc * _logu(rng, 0.3, 3.0), a1, a2]}
    if cls == "Sphere":
        return {"polarization": _pol(rng), "diameter": sc}
    if cls == "Tetrahedron":
        while True:
            V = np.array([_r3(rng) for _ in range(4)]) * sc
            vol = abs(np.linalg.det(V[1:] - V[0])) / 6
            if vol > 0.02 * sc ** 3:
                if rng.random() < 0.3:
                    V = V + np.array(_r3(rng)) * sc * _logu(rng, 1, 30)     # body off its local origin
                return {"polarization": _pol(rng), "vertices": V.tolist()}
    if cls == "TriangularMesh":
        k = rng.random()
        if k < 0.3:
            V = (np.array(_CUBE_V, float) * np.array([_logu(rng, 0.3, 3) for _ in range(3)]) * sc / 2)
            F = [list(f) for f in _CUBE_F]
        elif k < 0.5:
            V0, F = _l_prism()
            V = np.array(V0) * sc / 2
        else:
            from scipy.spatial import ConvexHull
            while True:
                P = np.array([_r3(rng) for _ in range(rng.randint(5, 8))]) * sc
                h = ConvexHull(P)
                if len(h.vertices) == len(P) and h.volume > 0.05 * sc ** 3:
                    break
            V, F = P, h.simplices.tolist()
        # random (inconsistent) winding: the class reorients faces itself
        F = [f if rng.random() < 0.5 else [f[0], f[2], f[1]] for f in F]
        if rng.random() < 0.3:
            V = np.asarray(V, float) + np.array(_r3(rng)) * sc * _logu(rng, 1, 30)   # mesh off its local origin
        return {"polarization": _pol(rng), "vertices": np.asarray(V, float).tolist(), "faces": F}
    if cls == "Triangle":
        while True:
            V = np.array([_r3(rng) for _ in range(3)]) * sc
            if np.linalg.norm(np.cross(V[1] - V[0], V[2] - V[0])) > 0.1 * sc ** 2:
                if rng.random() < 0.3:
                    V = V + np.array(_r3(rng)) * sc * _logu(rng, 1, 30)
                return {"polarization": _pol(rng), "vertices": V.tolist()}
    if cls == "Circle":
        return {"current": 0.0 if rng.random() < 0.03 else rng.choice([1.0, -1.0]) * _logu(rng, 0.01, 100.0), "diameter": sc}
    if cls == "Polyline":
        n = rng.randint(2, 5)
        V = [np.array(_r3(rng)) * sc]
        while len(V) < n:
            k = rng.random()
            if k < 0.12 and len(V) >= 2:
                V.append(V[-1] + (V[-1] - V[-2]) * rng.uniform(0.3, 2.0))      # collinear continuation
            elif k < 0.2:
                V.append(V[-1].copy())                                          # zero-length segment
            else:
                V.append(V[-1] + _unit(rng) * sc * _logu(rng, 0.2, 2.0))
        if all(np.all(V[i] == V[i + 1]) for i in range(len(V) - 1)):
            V[-1] = V[-1] + _unit(rng) * sc
        if rng.random() < 0.15:
            # a small structure described far from the local origin (segments tiny relative to the
            # magnitude of their coordinates, exactly representable offset)
            off = np.round(_unit(rng) * sc * _logu(rng, 1e3, 3e6), 0 if sc > 1e-3 else 12)
            if np.all(np.isfinite(off)):
                V = [v + off for v in V]
        return {"current": 0.0 if rng.random() < 0.03 else rng.choice([1.0, -1.0]) * _logu(rng, 0.01, 100.0),
                "vertices": [v.tolist() for v in V]}
    if cls == "Dipole":
        return {"moment": _pol(rng)}
    raise ValueError(cls)


def _surface_point(rng, case):
    """a point on the surface / wire and a direction to leave it (body: roughly outward)"""
    p, c = case["params"], case["cls"]
    if c == "Dipole":
        return np.zeros(3), _unit(rng)
    if c == "Circle":
        r0, ph = abs(p["diameter"]) / 2, rng.uniform(0, 2 * math.pi)
        return np.array([r0 * math.cos(ph), r0 * math.sin(ph), 0.0]), _unit(rng)
    if c == "Polyline":
        V = np.asarray(p["vertices"], float)
        i = rng.randrange(len(V) - 1)
        return V[i] + rng.random() * (V[i + 1] - V[i]), _unit(rng)
    if c == "Triangle":
        A, B, C = np.asarray(p["vertices"], float)
        u, v = rng.random(), rng.random()
        if u + v > 1:
            u, v = 1 - u, 1 - v
        return A + u * (B - A) + v * (C - A), _unit(rng)
    # bodies: shoot a ray from an interior point and bisect on this module's own inside test
    cen = centre_of(case)
    if c == "TriangularMesh":        # centre of a non-convex mesh may lie outside: use a face-near interior point
        T = body_tris(case)
        A, B, C = T[rng.randrange(len(T))]
        n = np.cross(B - A, C - A)
        cen = (A + B + C) / 3 - 1e-3 * size_of(case) * n / np.linalg.norm(n)
    d = _unit(rng)
    lo, hi = 0.0, 4.0 * size_of(case)
    T = body_tris(case) if c in ("Tetrahedron", "TriangularMesh") else None
    for _ in range(60):
        mid = 0.5 * (lo + hi)
        if (point_in_mesh(cen + mid * d, T) if T is not None else inside_and_dist(case, cen + mid * d)[0]):
            lo = mid
        else:
            hi = mid
    return cen + 0.5 * (lo + hi) * d, d


KINDS = {
    "Cuboid": ["near", "near", "mid", "far", "inside", "edge-ext", "plane"],
    "Cylinder": ["near", "near", "mid", "far", "inside", "axis", "axis", "plane"],
    "CylinderSegment": ["near", "near", "mid", "far", "inside", "axis", "plane", "aligned", "aligned"],
    "Sphere": ["near", "mid", "far", "inside"],
    "Tetrahedron": ["near", "near", "mid", "far", "inside", "edge-ext", "plane"],
    "TriangularMesh": ["near", "near", "mid", "far", "inside", "edge-ext", "plane"],
    "Triangle": ["near", "near", "mid", "far", "edge-ext", "plane"],
    "Circle": ["near", "near", "mid", "far", "axis", "axis", "plane"],
    "Polyline": ["near", "near", "mid", "far", "edge-ext", "edge-ext", "edge-ext-exact"],
    "Dipole": ["near", "mid", "far"],
}


def _edges(case):
    p, c = case["params"], case["cls"]
    if c == "Cuboid":
        h = np.abs(np.asarray(p["dimension"], float)) / 2
        out = []
        for ax in range(3):
            for s1 in (-1, 1):
                for s2 in (-1, 1):
                    a = np.zeros(3)
                    b = np.zeros(3)
                    o1, o2 = [(1, 2), (0, 2), (0, 1)][ax]
                    a[o1] = b[o1] = s1 * h[o1]
                    a[o2] = b[o2] = s2 * h[o2]
                    a[ax], b[ax] = -h[ax], h[ax]
                    out.append((a, b))
        return out
    if c == "Polyline":
        V = np.asarray(p["vertices"], float)
        return [(a, b) for a, b in zip(V[:-1], V[1:]) if not np.all(a == b)]
    T = body_tris(case)
    return [(X, Y) for A, B, C in T for X, Y in ((A, B), (B, C), (C, A))]


def gen_observer(rng, case, kind):
    c, s = case["cls"], size_of(case)
    p = case["params"]
    if kind in ("near", "mid", "far"):
        lo, hi = {"near": (1e-3, 0.3), "mid": (0.3, 10.0), "far": (10.0, 1e3)}[kind]
        q, d = _surface_point(rng, case)
        return q + d * s * _logu(rng, lo * 1.05, hi)
    if kind == "inside":
        q, d = _surface_point(rng, case)
        cen = centre_of(case)
        if rng.random() < 0.5:
            return q - d * s * _logu(rng, 1.05e-3, 0.05)           # just below the surface
        t = rng.uniform(0.05, 0.95)
        return cen + t * (q - cen) if c != "TriangularMesh" else q - d * s * _logu(rng, 1.05e-3, 0.05)
    if kind == "axis":          # near the symmetry axis, both sides of the small-r switches
        if c == "Circle":
            R = abs(p["diameter"]) / 2
            H = R
        else:
            R = p["dimension"][0] / 2 if c == "Cylinder" else p["dimension"][1]
            H = p["dimension"][1] if c == "Cylinder" else p["dimension"][2]
        k = rng.random()
        r = 0.0 if k < 0.2 else R * (_logu(rng, 1e-9, 0.2) if k < 0.6 else rng.uniform(0.03, 0.07))
        ph = rng.uniform(0, 2 * math.pi)
        z = rng.choice([-1, 1]) * H * (_logu(rng, 1e-3, 30.0))
        return np.array([r * math.cos(ph), r * math.sin(ph), z])
    if kind in ("edge-ext", "edge-ext-exact"):
        E = _edges(case)
        a, b = E[rng.randrange(len(E))]
        t = rng.choice([-1, 1]) * _logu(rng, 2e-3, 300.0)
        q = (b + t * (b - a)) if t > 0 else (a + t * (b - a))
        if kind == "edge-ext-exact" or rng.random() < 0.5:
            return q                                                # (rounded) on the extension line
        return q + _unit(rng) * np.linalg.norm(q - b) * _logu(rng, 1e-12, 1e-2)
    if kind == "aligned":       # CylinderSegment: on the planes / cylinders / axis that carry its faces (special cases 1xx, x1x, x2x, xx1..xx4)
        r1, r2, h, a1, a2 = p["dimension"]
        zc = rng.choice(["base", "base", "free"])
        pc = rng.choice(["side", "side", "opp", "free"])
        rc = rng.choice(["axis", "r1", "r2", "free", "free"])
        if rc == "axis" and a2 - a1 < 360 and rng.random() < 0.7:
            # on the axis numpy's arctan2(0, 0) = 0 is the observer azimuth: the cases x1y / x2y (y = 1, 2) need a
            # side plane at azimuth 0 or 180 deg and an exactly vanishing radius (no pose rounding)
            span = a2 - a1
            a1 = rng.choice([0.0, -180.0, 180.0 - span, -span])
            a2 = a1 + span
            if -360.0 <= a1 and a2 <= 360.0 and a2 - a1 < 360.0:
                if rng.random() < 0.5:
                    r1 = 0.0               # y = 1: r = r_i = 0
                p["dimension"] = [r1, r2, h, a1, a2]
                case["pos"], case["rotvec"] = [0.0, 0.0, 0.0], [0.0, 0.0, 0.0]
            else:
                a1, a2 = p["dimension"][3], p["dimension"][4]
        z = rng.choice([-1, 1]) * h / 2 if zc == "base" else rng.choice([-1, 1]) * h * _logu(rng, 0.01, 5.0)
        ph = math.radians(rng.choice([a1, a2])) + (math.pi if pc == "opp" else 0.0) if pc != "free" else rng.uniform(-math.pi, math.pi)
        r = 0.0 if rc == "axis" else r1 if rc == "r1" else r2 if rc == "r2" else r2 * _logu(rng, 0.05, 5.0)
        return np.array([r * math.cos(ph), r * math.sin(ph), z])
    if kind == "plane":         # in the plane of a face, beyond its rim
        if c == "Cuboid":
            h = np.abs(np.asarray(p["dimension"], float)) / 2
            ax = rng.randrange(3)
            o = np.array([rng.choice([-1, 1]) * h[i] * (1 + _logu(rng, 2e-3, 30.0)) for i in range(3)])
            o[ax] = rng.choice([-1, 1]) * h[ax]
            return o
        if c in ("Cylinder", "CylinderSegment"):
            R = p["dimension"][0] / 2 if c == "Cylinder" else p["dimension"][1]
            H = p["dimension"][1] if c == "Cylinder" else p["dimension"][2]
            ph = rng.uniform(0, 2 * math.pi)
            if rng.random() < 0.5:      # plane of a base, outside the hull radius
                r = R * (1 + _logu(rng, 2e-3, 30.0))
                return np.array([r * math.cos(ph), r * math.sin(ph), rng.choice([-1, 1]) * H / 2])
            z = rng.choice([-1, 1]) * H / 2 * (1 + _logu(rng, 4e-3, 30.0))   # on the hull cylinder, beyond a base
            return np.array([R * math.cos(ph), R * math.sin(ph), z])
        if c == "Circle":
            R = abs(p["diameter"]) / 2
            ph = rng.uniform(0, 2 * math.pi)
            r = R * (1 + rng.choice([-1, 1]) * _logu(rng, 2e-3, 0.9)) if rng.random() < 0.5 else R * _logu(rng, 1.1, 100)
            return np.array([r * math.cos(ph), r * math.sin(ph), 0.0])
        T = body_tris(case)
        A, B, C = T[rng.randrange(len(T))]
        u, v = rng.uniform(-3, 3), rng.uniform(-3, 3)
        return A + u * (B - A) + v * (C - A)
    raise ValueError(kind)


def gen_pose(rng, case):
    """identity (25 %), exact half / quarter turns about a coordinate axis (15 %), generic"""
    k = rng.random()
    if k < 0.25:
        return [0.0, 0.0, 0.0], [0.0, 0.0, 0.0]
    pos = [x * size_of(case) * 3 for x in _r3(rng)]
    if k < 0.40:
        rv = [0.0, 0.0, 0.0]
        rv[rng.randrange(3)] = rng.choice([math.pi, -math.pi, math.pi / 2, -math.pi / 2])
        return pos, rv
    return pos, (_unit(rng) * rng.uniform(0.1, 3.1)).tolist()


def gen_case(rng, cls, kind=None):
    for _ in range(50):
        case = {"cls": cls, "params": gen_params(rng, cls)}
        k = kind or rng.choice(KINDS[cls])
        case["pos"], case["rotvec"] = gen_pose(rng, case)
        try:
            o = np.asarray(gen_observer(rng, case, k), float)
        except Exception:   # pylint: disable=broad-except
            continue
        if not np.all(np.isfinite(o)):
            continue
        _, dist = inside_and_dist(case, o)
        s = size_of(case)
        if 1.0e-3 * s <= dist <= 1.0e3 * s:
            case["obs_local"] = o.tolist()
            case["kind"] = k
            return case
    raise RuntimeError("no admissible observer generated for " + cls)


# =========================================================================== verdict per case
def edge_angle(case, o):
    """smallest angle (rad, small-angle) between the observer and the extension line of an edge /
    segment, seen from the nearer end point; inf when there are no edges"""
    best = float("inf")
    if case["cls"] not in ("Polyline", "Cuboid", "Triangle", "Tetrahedron", "TriangularMesh"):
        return best
    for a, b in _edges(case):
        L = np.linalg.norm(b - a)
        e = (b - a) / L
        w = o - a
        t = w @ e
        if 0 <= t <= L:
            continue
        perp = np.linalg.norm(w - t * e)
        ax = -t if t < 0 else t - L
        best = min(best, perp / max(ax, 1e-300))
    return best


def local_obs(case):
    """the observer in the source frame as the implementation receives it: through the pose and back
    (an observer placed exactly on the axis is, after a generic pose, only on it up to rounding)"""
    M = rotmat(case["rotvec"])
    return M.T @ (global_obs(case) - np.asarray(case["pos"], float))


def region(case):
    """coarse, geometry-derived description of where the observer is (used in signatures):
    inside|outside, then the special zone(s) it lies in (on-axis, tiny-r [CylinderSegment, r/r2 < 1e-2], small-r, edge-extension, small-scale =
    source smaller than 1e-3 in absolute numbers) or, when in none, the distance class near (<0.1 size)
    | mid | far (>10 size)"""
    c, p = case["cls"], case["params"]
    o = local_obs(case)
    inside, dist = inside_and_dist(case, o)
    s = size_of(case)
    tags = ["inside" if inside else "outside"]
    if c in ("Cylinder", "CylinderSegment", "Circle"):
        R = abs(p["diameter"]) / 2 if c == "Circle" else (p["dimension"][0] / 2 if c == "Cylinder" else p["dimension"][1])
        r = math.hypot(o[0], o[1])
        if r == 0:
            tags.append("on-axis")
        elif c == "CylinderSegment" and r < 1e-2 * R:
            tags.append("tiny-r")       # r/r2 < 1e-2: the zone of the recorded near-axis instability, kept apart from
        elif r < 0.05 * R:              # the rest of the small-r zone so that the open finding cannot absorb other defects
            tags.append("small-r")
    if edge_angle(case, o) < 1e-3:
        tags.append("edge-extension")
    if s < 1e-3:
        tags.append("small-scale")      # source smaller than 1e-3 in absolute numbers (SI: < 1 mm)
    if len(tags) == 1:
        rel = dist / s
        tags.append("near" if rel < 0.1 else "mid" if rel < 10 else "far")
    return ":".join(tags)


EPS = 2.0 ** -52
# triangle_Bfield documents: "Loss of precision when approaching a triangle as (x-edge)**2" (all
# precision is lost ON the straight line through an edge).  Observers inside this cone (angle to
# the edge line, seen from its nearer end) are not judged for the three triangle-based classes.
TRI_EDGE_CONE = 1e-4


def tolerance(case):
    """relative (to the local field scale) deviation from the first-principles integral that the
    property text allows (`within the numerical accuracy the library documents`).

    The library documents exact closed forms evaluated in binary64 and warns, without numbers,
    that accuracy `can be a problem very close to objects, close the z-axis in cylindrical
    symmetries, at edge extensions, and at large distances`; triangle_Bfield documents its loss of
    precision quantitatively: `as (x-edge)**2` when approaching an edge (extension) and `as
    distance**3` with distance.  Policy: 1e-4 of the local field scale everywhere (a wrong sign,
    branch, term or factor is an error of 1e-2..1), 1e-3 in the far field (> 10 sizes) and for
    CylinderSegment, plus the two documented power laws for the triangle-based classes.  The
    worst deviations measured on the unchanged tree outside the recorded findings stay a decade
    below these bounds (see C01.meta.json)."""
    c = case["cls"]
    o = local_obs(case)
    _, dist = inside_and_dist(case, o)
    s = size_of(case)
    x = max(np.linalg.norm(o - centre_of(case)), s) / s          # distance in source sizes
    tol = 1e-3 if dist > 10 * s else 1e-4
    # `at large distances`: the closed forms are sums of O(J) terms cancelling to O(J (s/D)^3);
    # measured growth on the unchanged tree (worst of 3600 far points per class, per half decade):
    # Cuboid/Cylinder 1e-9 @10 .. 4e-5 @1e3, Tetrahedron/TriangularMesh 3e-7 @30 .. 7e-4 @1e3,
    # CylinderSegment 1e-4 @10 .. 1.2e-1 @1e3 sizes
    if c == "CylinderSegment":
        tol = 1e-3 + 3e-4 * x
        # `close the z-axis`: outside the tiny-r zone of the recorded finding the loss still grows towards the axis
        # (measured 5.5e-3 at r/r2 = 0.04, z = 28 r2 for a thin shell): allow 0.1/(r/r2) times more below r/r2 = 0.1
        rr2 = math.hypot(o[0], o[1]) / case["params"]["dimension"][1]
        tol *= max(1.0, 0.1 / max(rr2, 1e-2))
    elif c in ("Cuboid", "Cylinder"):
        tol += 1e4 * EPS * x ** 3
        if c == "Cylinder":
            # `close the z-axis in cylindrical symmetries` AND `at large distances`: the general (r >= 0.05 R) formulas
            # lose digits like (D/R)^5 / (r/R)^2 (measured on the unchanged tree, thin cylinder d=0.12 h=0.54:
            # 2e-6 at D/R = 87, 3e-3 at 260, 1.6 at 870 for r/R = 0.05; 1e-3 at 870 for r/R = 1.5)
            R = case["params"]["dimension"][0] / 2
            rr = max(math.hypot(o[0], o[1]) / R, 0.05)
            tol += 0.3 * EPS * (np.linalg.norm(o) / R) ** 5 / rr ** 2
    if c in ("Triangle", "Tetrahedron", "TriangularMesh"):
        th = edge_angle(case, o)
        # both documented losses multiply for an observer far away AND close to an edge extension
        tol += 1e3 * EPS / max(th, 1e-150) ** 2 * max(1.0, x) ** 3 + 3e3 * EPS * x ** 4
    return tol


def judge(case, res):
    """(failed?, signature, text) for an evaluate() result"""
    if res["status"] == "error":
        return True, f"raises/{case['cls']}", f"valid input raised: {res['why']}"
    if res["status"] not in ("fail", "ok"):
        return False, None, None
    reg = region(case)
    clause = CLAUSE.get(case["cls"], "coulomb")
    if res["status"] == "fail":
        return True, f"finite/{case['cls']}:{reg}", f"get{res['which']} is not a finite 3-vector: {res['got']}"
    tol = tolerance(case)
    # H right but B off by the polarization: the interior term J[inside] is wrong, not the integral
    if "polarization" in case["params"] and res.get("rel_H", 1.0) <= tol and res.get("b_minus_mu0h_is_j") is not None \
            and res["b_minus_mu0h_is_j"] != res["inside"]:
        return True, f"interior-term/{case['cls']}:{reg}", (
            f"{case['cls']} getB - mu0*getH {'equals the polarization J' if res['b_minus_mu0h_is_j'] else 'is 0'} at an observer "
            f"{'inside' if res['inside'] else 'outside'} the body (getH itself is not in question): "
            f"got B = {res['got']}, expected {res['expected']}")
    if res["rel"] > tol:
        return True, f"{clause}/{case['cls']}:{reg}", (
            f"{case['cls']} get{res['which']} differs from the first-principles integral by "
            f"{res['rel']:.2e} of the local field scale (allowed {tol:.1e}): got {res['got']}, expected {res['expected']}")
    return False, None, None


def shrink_case(case, fails):
    """simplify a failing case while it keeps failing with the same signature (pose first)"""
    cur = dict(case)

    def attempt(mod):
        cand = json_copy(cur)
        mod(cand)
        try:
            if fails(cand):
                cur.clear()
                cur.update(cand)
        except Exception:   # pylint: disable=broad-except
            pass

    attempt(lambda c: c.update(pos=[0.0, 0.0, 0.0], rotvec=[0.0, 0.0, 0.0]))
    attempt(lambda c: c.update(pos=[0.0, 0.0, 0.0]))
    attempt(lambda c: c.update(rotvec=[0.0, 0.0, 0.0]))
    if cur["cls"] == "Polyline":
        V = cur["params"]["vertices"]
        for i in range(len(V) - 1):
            a, b = V[i], V[i + 1]
            attempt(lambda c, a=a, b=b: c["params"].update(vertices=[a, b]))
    for key in ("polarization", "moment"):
        if key in cur["params"]:
            for i in range(3):
                def z(c, i=i, key=key):
                    v = list(c["params"][key])
                    v[i] = 0.0
                    if any(v):
                        c["params"][key] = v
                attempt(z)
    if "current" in cur["params"]:
        attempt(lambda c: c["params"].update(current=1.0))
    return cur


def json_copy(x):
    import json
    return json.loads(json.dumps(x))


# =========================================================================== mixed batches
# One source, >= 16 observers of DIFFERENT kinds (next to the surface / wire, near the axis, far field, inside, ...)
# in ONE getB and ONE getH call; every row is judged against its own first-principles value.  Vectorised
# iterations and masks that behave differently when dissimilar rows share a call are only visible this way.
def gen_batch(rng, cls, nrows=24):
    for _ in range(20):
        case = {"cls": cls, "params": gen_params(rng, cls)}
        case["pos"], case["rotvec"] = gen_pose(rng, case)
        kinds = [k for k in dict.fromkeys(KINDS[cls]) if k != "aligned"]     # 'aligned' may rewrite the source
        rows, rk = [], []
        s = size_of(case)
        tries = 0
        while len(rows) < nrows and tries < 20 * nrows:
            tries += 1
            k = kinds[len(rows) % len(kinds)]
            try:
                o = np.asarray(gen_observer(rng, case, k), float)
            except Exception:   # pylint: disable=broad-except
                continue
            if not np.all(np.isfinite(o)):
                continue
            _, dist = inside_and_dist(case, o)
            if 1.0e-3 * s <= dist <= 1.0e3 * s:
                rows.append(o.tolist())
                rk.append(k)
        if len(rows) == nrows:
            case["obs_rows"], case["kinds"] = rows, rk
            return case
    raise RuntimeError("no admissible batch generated for " + cls)


def row_case(bcase, i):
    c = {k: bcase[k] for k in ("cls", "params", "pos", "rotvec")}
    c["obs_local"] = bcase["obs_rows"][i]
    c["kind"] = bcase["kinds"][i] if "kinds" in bcase else "batch-row"
    return c


def evaluate_batch(bcase, rows=None):
    """one getB and one getH call for all rows (or the given subset); list of (row index, row case, result)"""
    import warnings
    warnings.simplefilter("ignore")
    idx = list(range(len(bcase["obs_rows"]))) if rows is None else list(rows)
    M = rotmat(bcase["rotvec"])
    og = np.array([M @ np.asarray(bcase["obs_rows"][i], float) + np.asarray(bcase["pos"], float) for i in idx])
    try:
        src = build(bcase)
        B = np.asarray(src.getB(og), float).reshape(len(idx), 3)
        H = np.asarray(src.getH(og), float).reshape(len(idx), 3)
    except Exception as e:   # pylint: disable=broad-except
        return [(idx[0], row_case(bcase, idx[0]), {"status": "error", "why": f"batched call: {type(e).__name__}: {e}"})]
    return [(i, row_case(bcase, i), evaluate(row_case(bcase, i), BH=(B[k], H[k]))) for k, i in enumerate(idx)]


def judge_batch(bcase, results):
    """failures of a batch: (signature, text, replay).  A row that also fails when evaluated alone is the
    single-observer defect (plain signature); one that fails only in company gets `:mixed-batch` and the batch,
    shrunk to the failing row plus one partner when a pair suffices, as replay"""
    out = []
    for i, rc, r in results:
        failed, sig, what = judge(rc, r)
        if not failed:
            continue
        alone = evaluate(rc)
        f1, sig1, what1 = judge(rc, alone)
        if f1 and sig1 == sig:
            out.append((sig, what1, {"kind": "field-case", "case": rc}))
            continue
        small = None
        for j in range(len(bcase["obs_rows"])):
            if j == i:
                continue
            sub = evaluate_batch(bcase, rows=[i, j])
            fj = [judge(c2, r2) for _, c2, r2 in sub if _ == i]
            if fj and fj[0][0] and fj[0][1] == sig:
                small = [i, j]
                break
        keep = small if small is not None else list(range(len(bcase["obs_rows"])))
        b2 = {k: bcase[k] for k in ("cls", "params", "pos", "rotvec")}
        b2["obs_rows"] = [bcase["obs_rows"][k] for k in keep]
        b2["kinds"] = [bcase["kinds"][k] for k in keep]
        out.append((sig + ":mixed-batch",
                    f"in one call with {len(keep) - 1} other observer(s) (row {keep.index(i)} of the replay batch; alone the same "
                    f"observer is {'fine' if not f1 else 'failing differently: ' + str(sig1)}): " + what,
                    {"kind": "field-batch", "batch": b2, "row": keep.index(i)}))
    return out


# =========================================================================== other entry points
# The property is observed at magpylib.getB / getH and at magpylib.core.*: the same (source, observer) through the
# functional interface, a Sensor, a Collection, the top-level function and - where a core function takes the same
# quantities - magpylib.core, each judged against the same first-principles value.
def entry_values(case):
    """{entry name: (B, H)} in the GLOBAL frame for one case"""
    import magpylib as magpy
    from scipy.spatial.transform import Rotation as R
    p, c = case["params"], case["cls"]
    og = global_obs(case)
    src = build(case)
    M = rotmat(case["rotvec"])
    ol = M.T @ (og - np.asarray(case["pos"], float))
    out = {}
    kw = dict(position=np.array(case["pos"], float), orientation=R.from_rotvec(case["rotvec"]))
    if c == "TriangularMesh":
        par = {"mesh": src.mesh, "polarization": np.array(p["polarization"], float)}
    else:
        par = {k: np.array(v, float) if isinstance(v, list) else v for k, v in p.items()}     # ndarray instead of list inputs
    out["functional"] = (magpy.getB(c, og, **par, **kw), magpy.getH(c, og, **par, **kw))
    sens = magpy.Sensor(position=og)
    out["sensor"] = (sens.getB(src), sens.getH(src))
    coll = magpy.Collection(src)
    out["collection"] = (coll.getB(og), coll.getH(og))
    out["toplevel"] = (magpy.getB(src, [og]), magpy.getH([src], og))       # list-wrapped observer / source
    Boo, Hoo = np.asarray(src.getB(og), float), np.asarray(src.getH(og), float)
    o1 = ol[None, :]
    core = magpy.core
    if c == "Cuboid":
        Bc = core.magnet_cuboid_Bfield(o1, np.array([p["dimension"]], float), np.array([p["polarization"]], float))[0]
        out["core"] = (M @ Bc, Hoo)
    elif c == "Sphere":
        Bc = core.magnet_sphere_Bfield(o1, np.array([p["diameter"]], float), np.array([p["polarization"]], float))[0]
        out["core"] = (M @ Bc, Hoo)
    elif c == "Dipole":
        Hc = core.dipole_Hfield(o1, np.array([p["moment"]], float))[0]
        out["core"] = (Boo, M @ Hc)
    elif c == "Triangle":
        Bc = core.triangle_Bfield(o1, np.array([p["vertices"]], float), np.array([p["polarization"]], float))[0]
        out["core"] = (M @ Bc, Hoo)
    elif c == "Polyline":
        V = np.asarray(p["vertices"], float)
        keep = [i for i in range(len(V) - 1) if not np.all(V[i] == V[i + 1])]
        if keep:
            Hc = core.current_polyline_Hfield(np.repeat(o1, len(keep), axis=0), V[keep], V[[i + 1 for i in keep]],
                                              np.full(len(keep), float(p["current"]))).sum(axis=0)
            out["core"] = (Boo, M @ Hc)
    elif c == "Circle" and (ol[0] != 0 or ol[1] != 0) and p["diameter"] != 0:
        r, ph = math.hypot(ol[0], ol[1]), math.atan2(ol[1], ol[0])
        Hr, _, Hz = core.current_circle_Hfield(np.array([abs(p["diameter"]) / 2]), np.array([r]), np.array([ol[2]]),
                                               np.array([float(p["current"])]))[:, 0]
        out["core"] = (Boo, M @ np.array([Hr * math.cos(ph), Hr * math.sin(ph), Hz]))
    return {k: (np.asarray(b, float).reshape(-1)[:3] if np.size(b) == 3 else np.asarray(b, float),
                np.asarray(h, float).reshape(-1)[:3] if np.size(h) == 3 else np.asarray(h, float)) for k, (b, h) in out.items()}


def judge_entries(case):
    """failures [(signature, text, replay)] of the other entry points on a case whose plain src.getB/getH is fine"""
    import warnings
    warnings.simplefilter("ignore")
    base = evaluate(case)
    if base["status"] != "ok" or judge(case, base)[0]:
        return []                       # not judged, or already reported through the object-oriented path
    out = []
    try:
        vals = entry_values(case)
    except Exception as e:   # pylint: disable=broad-except
        return [(f"raises/{case['cls']}:via-entry", f"valid input raised through another entry point: {type(e).__name__}: {e}",
                 {"kind": "field-entry", "case": case})]
    for name, (B, H) in vals.items():
        if np.shape(B) != (3,) or np.shape(H) != (3,):
            out.append((f"shape/{case['cls']}:via-{name}", f"entry {name} returned shapes {np.shape(B)}/{np.shape(H)} for one source and one observer",
                        {"kind": "field-entry", "case": case, "entry": name}))
            continue
        r = evaluate(case, BH=(B, H))
        f, sig, what = judge(case, r)
        if f:
            out.append((f"{sig}:via-{name}", f"through the {name} entry point (src.getB/getH on the same input is fine): " + what,
                        {"kind": "field-entry", "case": case, "entry": name}))
    return out


# =========================================================================== several sources in one call
def gen_multi(rng):
    """6 sources in ONE getB(sources, observers, sumup=False) call: class A, class B, a TWIN of the first (same geometry
    and pose, excitation scaled by 1e6..1e12 or its inverse), an exact DUPLICATE of the first, class C, class A with another
    geometry - so the per-class grouping is a non-trivial permutation - and 6 observers placed relative to different sources"""
    A, B, C = rng.sample(CLASSES, 3)
    def mk(cls):
        c = {"cls": cls, "params": gen_params(rng, cls)}
        c["pos"], c["rotvec"] = gen_pose(rng, c)
        return c
    s0 = mk(A)
    base = size_of(s0)
    def near(c):            # keep the sources within a few sizes of the first so that observers are admissible for several
        c["pos"] = [p0 + x * base * 4 for p0, x in zip(s0["pos"], _r3(rng))]
        return c
    twin = json_copy(s0)
    f = 10 ** rng.uniform(6, 12)
    if rng.random() < 0.5:
        f = 1 / f
    for key in ("polarization", "moment"):
        if key in twin["params"]:
            twin["params"][key] = [v * f for v in twin["params"][key]]
    if "current" in twin["params"]:
        twin["params"]["current"] *= f
    srcs = [s0, near(mk(B)), twin, json_copy(s0), near(mk(C)), near(mk(A))]
    obs = []
    for k in (0, 0, 1, 4, 5, 5):
        c = srcs[k]
        for _ in range(30):
            kind = rng.choice([x for x in KINDS[c["cls"]] if x not in ("aligned", "far")])
            try:
                o = np.asarray(gen_observer(rng, c, kind), float)
            except Exception:   # pylint: disable=broad-except
                continue
            _, dist = inside_and_dist(c, o)
            if np.all(np.isfinite(o)) and 1e-3 * size_of(c) <= dist <= 1e3 * size_of(c):
                obs.append((rotmat(c["rotvec"]) @ o + np.asarray(c["pos"], float)).tolist())
                break
    return {"sources": srcs, "observers": obs}


def evaluate_multi(mc, src_idx=None, obs_idx=None):
    import warnings
    import magpylib as magpy
    warnings.simplefilter("ignore")
    si = list(range(len(mc["sources"]))) if src_idx is None else list(src_idx)
    oi = list(range(len(mc["observers"]))) if obs_idx is None else list(obs_idx)
    srcs = [build(mc["sources"][i]) for i in si]
    og = np.array([mc["observers"][j] for j in oi], float)
    B = np.asarray(magpy.getB(srcs, og, sumup=False, squeeze=False), float).reshape(len(si), len(oi), 3)
    H = np.asarray(magpy.getH(srcs, og, sumup=False, squeeze=False), float).reshape(len(si), len(oi), 3)
    res = []
    for a, i in enumerate(si):
        c0 = mc["sources"][i]
        M = rotmat(c0["rotvec"])
        for b, j in enumerate(oi):
            rc = dict(c0)
            rc["obs_local"] = (M.T @ (og[b] - np.asarray(c0["pos"], float))).tolist()
            rc["kind"] = "multi"
            res.append((i, j, rc, evaluate(rc, BH=(B[a, b], H[a, b]))))
    return res


def judge_multi(mc, results):
    out = []
    for i, j, rc, r in results:
        failed, sig, what = judge(rc, r)
        if not failed:
            continue
        alone = evaluate(rc)
        f1, sig1, what1 = judge(rc, alone)
        if f1 and sig1 == sig:
            out.append((sig, what1, {"kind": "field-case", "case": rc}))
            continue
        keep = None
        for k in range(len(mc["sources"])):
            if k == i:
                continue
            sub = evaluate_multi(mc, src_idx=sorted([i, k]), obs_idx=[j])
            if any(ii == i and judge(c2, r2)[0] and judge(c2, r2)[1] == sig for ii, _, c2, r2 in sub):
                keep = sorted([i, k])
                break
        keep = keep if keep is not None else list(range(len(mc["sources"])))
        m2 = {"sources": [mc["sources"][k] for k in keep], "observers": [mc["observers"][j]] if keep != list(range(len(mc["sources"]))) else mc["observers"]}
        out.append((sig + ":multi-source",
                    f"source {keep.index(i)} of {len(keep)} evaluated in one getB/getH(sources, observers, sumup=False) call "
                    f"(alone the same source and observer are {'fine' if not f1 else 'failing differently: ' + str(sig1)}): " + what,
                    {"kind": "field-multi", "multi": m2}))
    return out


# =========================================================================== CylinderSegment azimuth grid
# Section angles given in whole degrees and an observer whose azimuth is EXACTLY a side-face angle plus 0, +-180 or
# +-360 degrees (computed in degrees and then converted, as a user would), off the surface: the dispatcher
# determine_cases and the periodic continuation of the incomplete elliptic integrals decide these inputs by comparing
# phi - phi_j with multiples of pi up to rounding, one ulp on either side.
def azimuth_case(rng, phij, k, which):
    """unposed CylinderSegment with side face `which` (0: phi1, 1: phi2) at the integer angle phij; observer azimuth phij + k"""
    for _ in range(40):
        span = rng.randint(5, 355)
        a1, a2 = (phij, phij + span) if which == 0 else (phij - span, phij)
        if a1 < -360 or a2 > 360:
            continue
        r2 = rng.choice([1.0, 2.0, _logu(rng, 0.05, 20.0)])
        r1 = rng.choice([0.0, 0.5 * r2, r2 * rng.uniform(0.1, 0.9)])
        h = rng.choice([1.0, r2 * _logu(rng, 0.3, 3.0)])
        case = {"cls": "CylinderSegment", "pos": [0.0, 0.0, 0.0], "rotvec": [0.0, 0.0, 0.0], "kind": "azimuth-grid",
                "params": {"polarization": _pol(rng), "dimension": [r1, r2, h, float(a1), float(a2)]}}
        if not any(case["params"]["polarization"]):
            case["params"]["polarization"] = [0.3, -0.2, 0.5]
        az = np.deg2rad(float(phij + k))
        kr = rng.random()
        r = r2 * rng.uniform(1.05, 3.0) if kr < 0.5 or r1 == 0 else r1 * rng.uniform(0.2, 0.9) if kr < 0.75 else rng.uniform(r1, r2)
        z = rng.uniform(-0.45, 0.45) * h if not (r1 <= r <= r2) else rng.choice([-1, 1]) * h * rng.uniform(0.6, 2.0)
        o = np.array([r * np.cos(az), r * np.sin(az), z])
        _, dist = inside_and_dist(case, o)
        if dist >= 2e-3 * size_of(case):
            case["obs_local"] = o.tolist()
            return case
    return None
