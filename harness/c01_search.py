"""C01 -- search on the implementation: the property's own oracle.

For every source class a case = (class, parameters, pose, observer in the local frame, tag).
`evaluate(case)` builds the magpylib object, calls getB/getH through the public API at the
GLOBAL observer and compares with the first-principles reference of c01_quad.py, relative to
the local field scale.  Cases are plain JSON so they can be replayed.
"""
import math

import numpy as np

from harness import c01_quad as Q

CLASSES = ["Cuboid", "Cylinder", "CylinderSegment", "Sphere", "Tetrahedron", "TriangularMesh",
           "Triangle", "Circle", "Polyline", "Dipole"]
CLAUSE = {"Circle": "biot-savart", "Polyline": "biot-savart", "Dipole": "point-dipole"}


# --------------------------------------------------------------------------- small geometry
def rotmat(rotvec):
    v = np.asarray(rotvec, float)
    th = np.linalg.norm(v)
    if th == 0:
        return np.eye(3)
    k = v / th
    K = np.array([[0, -k[2], k[1]], [k[2], 0, -k[0]], [-k[1], k[0], 0]])
    return np.eye(3) + math.sin(th) * K + (1 - math.cos(th)) * (K @ K)


def closest_on_segment(o, p, q):
    d = q - p
    dd = d @ d
    t = 0.0 if dd == 0 else min(1.0, max(0.0, ((o - p) @ d) / dd))
    return p + t * d


def dist_point_triangle(o, A, B, C):
    n = np.cross(B - A, C - A)
    nn = np.linalg.norm(n)
    n = n / nn
    h = (o - A) @ n
    P = o - h * n
    # inside test by barycentric signs
    s0 = np.cross(B - A, P - A) @ n
    s1 = np.cross(C - B, P - B) @ n
    s2 = np.cross(A - C, P - C) @ n
    if s0 >= 0 and s1 >= 0 and s2 >= 0:
        return abs(h)
    return min(np.linalg.norm(o - closest_on_segment(o, X, Y)) for X, Y in ((A, B), (B, C), (C, A)))


def solid_angle_sum(o, tris):
    """winding number of a closed triangle surface around o (van Oosterom-Strackee)"""
    tot = 0.0
    for A, B, C in tris:
        a, b, c = A - o, B - o, C - o
        la, lb, lc = np.linalg.norm(a), np.linalg.norm(b), np.linalg.norm(c)
        num = a @ np.cross(b, c)
        den = la * lb * lc + (a @ b) * lc + (a @ c) * lb + (b @ c) * la
        tot += 2 * math.atan2(num, den)
    return tot / (4 * math.pi)


def ang_in(phi, p1, p2):
    """is the angle phi (any branch) inside [p1,p2] (p2-p1 <= 2pi)?"""
    x = (phi - p1) % (2 * math.pi)
    return x <= (p2 - p1)


# --------------------------------------------------------------------------- bodies
def tetra_tris(V):
    """outward oriented faces of a tetrahedron (own computation, by the centroid)"""
    V = np.asarray(V, float)
    cen = V.mean(axis=0)
    out = []
    for idx in ((0, 1, 2), (0, 1, 3), (1, 2, 3), (0, 2, 3)):
        A, B, C = V[list(idx)]
        if np.cross(B - A, C - A) @ (A - cen) < 0:
            B, C = C, B
        out.append([A, B, C])
    return np.array(out)


def mesh_tris(verts, faces):
    """outward oriented triangles of a closed, consistently windable mesh: orientation is
    decided per face by the winding number of a point just off the face (own computation)"""
    V = np.asarray(verts, float)
    T = np.array([[V[i] for i in f] for f in faces])
    size = np.ptp(V, axis=0).max()
    out = []
    for A, B, C in T:
        n = np.cross(B - A, C - A)
        n /= np.linalg.norm(n)
        c = (A + B + C) / 3 + 1e-4 * size * n
        w = solid_angle_sum(c, T)
        # the winding number is +-1 inside and 0 outside whatever the global orientation is
        if abs(w) > 0.5:        # c is inside: n points inwards
            out.append([A, C, B])
        else:
            out.append([A, B, C])
    return np.array(out)


def body_tris(case):
    p = case["params"]
    if case["cls"] == "Tetrahedron":
        return tetra_tris(p["vertices"])
    if case["cls"] == "TriangularMesh":
        return mesh_tris(p["vertices"], p["faces"])
    if case["cls"] == "Triangle":
        return np.array([p["vertices"]], float)
    return None


def size_of(case):
    p, c = case["params"], case["cls"]
    if c == "Cuboid":
        return float(max(np.abs(p["dimension"])))
    if c == "Cylinder":
        return float(max(np.abs(p["dimension"])))
    if c == "CylinderSegment":
        return float(max(2 * p["dimension"][1], p["dimension"][2]))
    if c == "Sphere":
        return abs(p["diameter"])
    if c in ("Tetrahedron", "TriangularMesh", "Triangle", "Polyline"):
        V = np.asarray(p["vertices"], float)
        return float(np.ptp(V, axis=0).max())
    if c == "Circle":
        return abs(p["diameter"])
    return 1.0


def centre_of(case):
    p, c = case["params"], case["cls"]
    if c in ("Tetrahedron", "TriangularMesh", "Triangle", "Polyline"):
        return np.asarray(p["vertices"], float).mean(axis=0)
    if c == "CylinderSegment":
        r1, r2, h, a1, a2 = p["dimension"]
        am = math.radians(0.5 * (a1 + a2))
        rm = 0.5 * (r1 + r2) if a2 - a1 < 360 else 0.0
        return np.array([rm * math.cos(am), rm * math.sin(am), 0.0])
    return np.zeros(3)


def inside_and_dist(case, o):
    """(inside?, distance of o from the surface / wire) by this module's own geometry"""
    p, c = case["params"], case["cls"]
    o = np.asarray(o, float)
    if c == "Cuboid":
        half = np.abs(p["dimension"]) / 2.0
        q = np.abs(o) - half
        if np.all(q < 0):
            return True, float(-q.max())
        return False, float(np.linalg.norm(np.maximum(q, 0)))
    if c == "Sphere":
        R = abs(p["diameter"]) / 2
        r = np.linalg.norm(o)
        return r < R, abs(r - R)
    if c == "Cylinder":
        R, hh = p["dimension"][0] / 2, p["dimension"][1] / 2
        dr, dz = math.hypot(o[0], o[1]) - R, abs(o[2]) - hh
        if dr < 0 and dz < 0:
            return True, -max(dr, dz)
        return False, math.hypot(max(dr, 0), max(dz, 0))
    if c == "CylinderSegment":
        r1, r2, h, a1, a2 = p["dimension"]
        p1, p2 = math.radians(a1), math.radians(a2)
        full = (a2 - a1) >= 360
        r, phi, z = math.hypot(o[0], o[1]), math.atan2(o[1], o[0]), o[2]
        inphi = full or ang_in(phi, p1, p2)
        inside = (r1 < r < r2) and inphi and abs(z) < h / 2
        cands = []
        zc = min(h / 2, max(-h / 2, z))
        rc = min(r2, max(r1, r))
        if inphi:
            for zz in (-h / 2, h / 2):                     # top / bottom sector
                cands.append(np.array([rc * math.cos(phi), rc * math.sin(phi), zz]))
            for R in ((r1, r2) if r1 > 0 else (r2,)):      # walls
                cands.append(np.array([R * math.cos(phi), R * math.sin(phi), zc]))
        if not full:
            for pe in (p1, p2):                            # side rectangles (also cover all edges)
                er = np.array([math.cos(pe), math.sin(pe), 0.0])
                rho = min(r2, max(r1, o @ er))
                cands.append(rho * er + np.array([0, 0, zc]))
                for zz in (-h / 2, h / 2):
                    cands.append(rho * er + np.array([0, 0, zz]))
                for R in (r1, r2):
                    cands.append(R * er + np.array([0, 0, zc]))
        elif not inphi:
            pass
        if r1 == 0 and inphi:
            pass
        d = min(np.linalg.norm(o - q) for q in cands)
        return inside, float(d)
    if c in ("Tetrahedron", "TriangularMesh"):
        T = body_tris(case)
        d = min(dist_point_triangle(o, A, B, C) for A, B, C in T)
        return abs(solid_angle_sum(o, T)) > 0.5, float(d)
    if c == "Triangle":
        A, B, C = np.asarray(p["vertices"], float)
        return False, float(dist_point_triangle(o, A, B, C))
    if c == "Circle":
        r0 = abs(p["diameter"]) / 2
        return False, math.hypot(math.hypot(o[0], o[1]) - r0, o[2])
    if c == "Polyline":
        V = np.asarray(p["vertices"], float)
        return False, float(min(np.linalg.norm(o - closest_on_segment(o, a, b)) for a, b in zip(V[:-1], V[1:])))
    return False, float(np.linalg.norm(o))


# --------------------------------------------------------------------------- reference + scale
def reference(case, o, rel=1e-10):
    """(H_ref, B_ref, scale_H, ok, evals) in the local frame"""
    p, c = case["params"], case["cls"]
    o = np.asarray(o, float)
    D = max(np.linalg.norm(o - centre_of(case)), 1e-300)
    s = size_of(case)
    inside, dist = inside_and_dist(case, o)
    if c == "Dipole":
        m = np.asarray(p["moment"], float)
        H = Q.dipole_H(m, o)
        return H, Q.MU0 * H, np.linalg.norm(m) / (4 * math.pi * D ** 3), True, 1
    if c == "Circle":
        r0, cur = abs(p["diameter"]) / 2, p["current"]
        S = abs(cur) / (2 * r0) * min(1.0, (r0 / D) ** 3)
        H, err, ok, ev = Q.circle_H(p["diameter"], cur, o, rel * S)
        return H, Q.MU0 * H, S, ok, ev
    if c == "Polyline":
        V, cur = np.asarray(p["vertices"], float), p["current"]
        S = 0.0
        for a, b in zip(V[:-1], V[1:]):
            L = np.linalg.norm(b - a)
            if L > 0:
                di = np.linalg.norm(o - closest_on_segment(o, a, b))
                S += abs(cur) / (4 * math.pi) * L / (di * (di + L))
        H, err, ok, ev = Q.polyline_H(V, cur, o, rel * S)
        return H, Q.MU0 * H, S, ok, ev
    J = np.asarray(p["polarization"], float)
    Jn = np.linalg.norm(J)
    if c == "Triangle":
        A, B, C = np.asarray(p["vertices"], float)
        sig = float(Q.tri_normal(A, B, C) @ J)
        S_G = abs(sig) * min(1.0, (s / D) ** 2) + 1e-300
        patches = [Q.tri_patch(A, B, C, sig)] if sig != 0 else []
    else:
        S_G = Jn * min(1.0, (s / D) ** 3)
        if c == "Cuboid":
            patches = Q.cuboid_patches(p["dimension"], J)
        elif c == "Cylinder":
            patches = Q.cylseg_patches(0.0, p["dimension"][0] / 2, p["dimension"][1], 0.0, 2 * math.pi, J, full=True)
        elif c == "CylinderSegment":
            r1, r2, h, a1, a2 = p["dimension"]
            patches = Q.cylseg_patches(r1, r2, h, math.radians(a1), math.radians(a2), J, full=(a2 - a1) >= 360)
        elif c == "Sphere":
            patches = Q.sphere_patches(p["diameter"], J)
        else:
            patches = Q.mesh_patches(body_tris(case), J)
    G, err, ok, ev = Q.surface_integral(patches, o, rel * S_G)
    B = G + (J if inside else 0.0)
    return G / Q.MU0, B, S_G / Q.MU0, ok, ev


# --------------------------------------------------------------------------- implementation
def build(case):
    import magpylib as magpy
    from scipy.spatial.transform import Rotation as R
    p, c = case["params"], case["cls"]
    kw = dict(position=case["pos"], orientation=R.from_rotvec(case["rotvec"]))
    if c == "Cuboid":
        return magpy.magnet.Cuboid(polarization=p["polarization"], dimension=p["dimension"], **kw)
    if c == "Cylinder":
        return magpy.magnet.Cylinder(polarization=p["polarization"], dimension=p["dimension"], **kw)
    if c == "CylinderSegment":
        return magpy.magnet.CylinderSegment(polarization=p["polarization"], dimension=p["dimension"], **kw)
    if c == "Sphere":
        return magpy.magnet.Sphere(polarization=p["polarization"], diameter=p["diameter"], **kw)
    if c == "Tetrahedron":
        return magpy.magnet.Tetrahedron(polarization=p["polarization"], vertices=p["vertices"], **kw)
    if c == "TriangularMesh":
        return magpy.magnet.TriangularMesh(polarization=p["polarization"], vertices=p["vertices"],
                                           faces=p["faces"], **kw)
    if c == "Triangle":
        return magpy.misc.Triangle(polarization=p["polarization"], vertices=p["vertices"], **kw)
    if c == "Circle":
        return magpy.current.Circle(current=p["current"], diameter=p["diameter"], **kw)
    if c == "Polyline":
        return magpy.current.Polyline(current=p["current"], vertices=p["vertices"], **kw)
    if c == "Dipole":
        return magpy.misc.Dipole(moment=p["moment"], **kw)
    raise ValueError(c)


def global_obs(case):
    return rotmat(case["rotvec"]) @ np.asarray(case["obs_local"], float) + np.asarray(case["pos"], float)


FLOOR = 1e-2     # the local field scale is max(|F_ref|, FLOOR * class scale estimate)


def evaluate(case):
    """returns dict(status = ok | skipped | fail | error, rel errors, ...)"""
    import warnings
    warnings.simplefilter("ignore")
    try:
        M = rotmat(case["rotvec"])
        og = global_obs(case)
        ol = M.T @ (og - np.asarray(case["pos"], float))      # the reference's own frame change
        inside, dist = inside_and_dist(case, ol)
        s = size_of(case)
        if dist < 0.99e-3 * s:
            return {"status": "skipped", "why": "closer than 1e-3 of the source size"}
        Href, Bref, S, ok, ev = reference(case, ol)
        if not ok:
            return {"status": "skipped", "why": "reference quadrature not converged", "evals": ev}
        Href, Bref = M @ Href, M @ Bref
        src = build(case)
        B = np.asarray(src.getB(og), float)
        H = np.asarray(src.getH(og), float)
    except Exception as e:   # pylint: disable=broad-except
        return {"status": "error", "why": f"{type(e).__name__}: {e}"}
    out = {"status": "ok", "inside": bool(inside), "dist_rel": dist / s, "evals": ev}
    worst = 0.0
    for nm, F, Fr, sc in (("H", H, Href, S), ("B", B, Bref, S * Q.MU0)):
        if F.shape != (3,) or not np.all(np.isfinite(F)):
            out.update(status="fail", which=nm, rel=float("inf"), got=[float(x) for x in np.ravel(F)],
                       expected=[float(x) for x in Fr])
            return out
        scale = max(np.linalg.norm(Fr), FLOOR * sc, 1e-300)
        rel = float(np.linalg.norm(F - Fr) / scale)
        out["rel_" + nm] = rel
        if rel > worst:
            worst = rel
            out.update(which=nm, got=[float(x) for x in F], expected=[float(x) for x in Fr])
    out["rel"] = worst
    return out
