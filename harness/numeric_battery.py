"""C06: dedicated batched-vs-single batteries for the code paths whose batch-level constructs are NOT
modelled in Coq (verdict NumericOnly in Proofs/BatchInventory.v): special_el3 (el3 size switch at 10 rows,
el3v and el3_angle mask cascades), magnet_cylinder_diametral_Hfield (small-r / general split with rebinding)
and lines_end_in_trimesh (coincidence guard).  The functions are called directly: one call on n rows
covering every mask category vs n calls on one row each."""
import numpy as np

from magpylib._src.fields import special_el3 as m_el3
from magpylib._src.fields.field_BH_cylinder import magnet_cylinder_diametral_Hfield
from magpylib._src.fields.field_BH_triangularmesh import lines_end_in_trimesh

RTOL = 1e-10


def _close(a, b, scale):
    a, b = np.asarray(a, dtype=float), np.asarray(b, dtype=float)
    if a.shape != b.shape:
        return False
    nan = np.isnan(a) | np.isnan(b)
    if not np.array_equal(np.isnan(a), np.isnan(b)):
        return False
    inf = (np.isinf(a) | np.isinf(b)) & ~nan
    if np.any(inf) and not np.array_equal(a[inf], b[inf]):
        return False
    fin = ~nan & ~inf
    return bool(np.all(np.abs(a[fin] - b[fin]) <= RTOL * np.maximum(scale, np.maximum(np.abs(a[fin]), np.abs(b[fin])))))


def _rows_ok(fn, cols):
    """indices of rows on which the single-row call works and is finite (inside the routine's domain)"""
    keep, vals = [], []
    for i in range(len(cols[0])):
        try:
            v = np.asarray(fn(*[c[i:i + 1].copy() for c in cols]), dtype=float)
        except Exception:   # pylint: disable=broad-except
            continue
        if np.all(np.isfinite(v)):
            keep.append(i)
            vals.append(v)
    return keep, vals


def _compare(ctx, name, fn, cols, stack_axis=0):
    keep, vals = _rows_ok(fn, cols)
    if len(keep) < 2:
        return
    sub = [c[keep] for c in cols]
    ctx.bump("battery:" + name)
    ctx.count("battery_rows", len(keep))
    for size, idx in (("all", list(range(len(keep)))), ("first9", list(range(min(9, len(keep)))))):
        part = [c[idx] for c in sub]
        try:
            batch = np.asarray(fn(*[c.copy() for c in part]), dtype=float)
        except Exception as e:   # pylint: disable=broad-except
            ctx.impl_fail(f"row-independent/core:{name}:raises", f"{name} raises {type(e).__name__} on a batch of rows that "
                          f"each work alone: {e}", {"kind": "battery", "fn": name, "cols": [c.tolist() for c in part]})
            return
        single = np.concatenate([vals[i] for i in idx], axis=stack_axis) if stack_axis is not None else np.array([vals[i] for i in idx])
        single = single.reshape(batch.shape) if single.size == batch.size else single
        scale = 0.0
        if not _close(batch, single, scale):
            d = np.abs(np.asarray(batch, float) - np.asarray(single, float))
            j = int(np.nanargmax(d.reshape(len(idx), -1).max(axis=1))) if d.shape and d.shape[0] == len(idx) else 0
            ctx.impl_fail(f"row-independent/core:{name}:n={'>=10' if len(idx) >= 10 else '<10'}",
                          f"{name}: row {j} of a batch of {len(idx)} = {np.asarray(batch)[j].tolist() if np.ndim(batch) else batch}, "
                          f"alone = {np.asarray(single)[j].tolist() if np.ndim(single) else single}",
                          {"kind": "battery", "fn": name, "cols": [c.tolist() for c in part], "row": j})
            return


def g_el3(rng, n):
    x = np.array([rng.choice([0.0, rng.uniform(0, 5), rng.uniform(0, 0.2), rng.uniform(0, 50)]) for _ in range(n)])
    kc = np.array([rng.choice([rng.uniform(0.05, 0.9), rng.uniform(0.9, 3), 1.0]) for _ in range(n)])
    p = np.array([rng.choice([rng.uniform(0.05, 3), rng.uniform(-3, -0.05), 1.0, rng.uniform(0.01, 0.09),
                              rng.uniform(-0.09, -0.01)]) for _ in range(n)])
    return [x, kc, p]


def g_el3_angle(rng, n):
    phi = np.array([rng.choice([rng.uniform(-6.5, 6.5), 0.0, np.pi, rng.uniform(-0.1, 0.1), rng.uniform(1.4, 1.7),
                                rng.uniform(-1.7, -1.4)]) for _ in range(n)])
    nn = np.array([rng.choice([rng.uniform(-5, 0.95), rng.uniform(0.05, 0.95), 0.0]) for _ in range(n)])
    m = np.array([rng.choice([rng.uniform(-20, 0), rng.uniform(0, 0.95), 0.0]) for _ in range(n)])
    return [phi, nn, m]


def g_diametral(rng, n):
    z0 = np.array([rng.choice([0.25, 0.5, 1.0, 2.0]) for _ in range(n)])
    r = np.array([rng.choice([rng.uniform(0.0, 0.049), 0.0, rng.uniform(0.051, 0.9), rng.uniform(1.1, 4)]) for _ in range(n)])
    z = np.array([rng.uniform(-3, 3) for _ in range(n)])
    phi = np.array([rng.uniform(-3.1, 3.1) for _ in range(n)])
    return [z0, r, z, phi]


def diametral(z0, r, z, phi):
    return np.asarray(magnet_cylinder_diametral_Hfield(z0=z0, r=r, z=z, phi=phi), dtype=float).T    # (n, 3)


TETRA = np.array([[[0, 0, 0], [1, 0, 0], [0, 1, 0]], [[0, 0, 0], [0, 1, 0], [0, 0, 1]],
                  [[0, 0, 0], [0, 0, 1], [1, 0, 0]], [[1, 0, 0], [0, 0, 1], [0, 1, 0]]], dtype=float)


def g_lines(rng, n):
    """end points: generic inside / outside, and exactly on vertices of the mesh (the coincidence guard)"""
    start = np.array([-12.0012345, -5.9923456, -6.9932109])
    ends = []
    for _ in range(n):
        k = rng.random()
        if k < 0.3:
            ends.append(TETRA.reshape(-1, 3)[rng.randrange(12)].tolist())
        elif k < 0.65:
            ends.append([rng.uniform(0.05, 0.3) for _ in range(3)])
        else:
            ends.append([rng.uniform(-1, 2) for _ in range(3)])
    lines = np.tile(start, (n, 2, 1))
    lines[:, 1] = np.array(ends)
    return [lines]


def lines_fn(lines):
    return lines_end_in_trimesh(lines, TETRA).astype(float)


def run(ctx, n):
    for _ in range(n):
        size = ctx.rng.choice([12, 20, 30])
        _compare(ctx, "el3", m_el3.el3, g_el3(ctx.rng, size))
        _compare(ctx, "el3_angle", m_el3.el3_angle, g_el3_angle(ctx.rng, size))
        _compare(ctx, "magnet_cylinder_diametral_Hfield", diametral, g_diametral(ctx.rng, size))
        _compare(ctx, "lines_end_in_trimesh", lines_fn, g_lines(ctx.rng, size))


def replay(rp):
    fn = {"el3": m_el3.el3, "el3_angle": m_el3.el3_angle, "magnet_cylinder_diametral_Hfield": diametral,
          "lines_end_in_trimesh": lines_fn}[rp["fn"]]
    cols = [np.array(c, dtype=float) for c in rp["cols"]]
    batch = np.asarray(fn(*[c.copy() for c in cols]), dtype=float)
    single = np.concatenate([np.asarray(fn(*[c[i:i + 1].copy() for c in cols]), dtype=float) for i in range(len(cols[0]))])
    return _close(batch, single.reshape(batch.shape), 0.0), batch, single
