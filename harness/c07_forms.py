"""C07 -- implementation-level oracle: every interface to one physical configuration returns the same numbers.

Everything here talks to the real magpylib only.  A *case* is a JSON-able dict (so that it can be written into a replay
file and re-run); every check function takes a case and returns None (property holds) or a dict
{"clause", "trigger", "what"}.

  object forms   getX(srcs, sens) / src.getX(sens) / src.getX(*sens) / sens.getX(*srcs) / Collection forms / sumup
  functional     getX('Class', obs, position=, orientation=, **params) with every parameter either a single set or an
                 (n, ...) per-instance array (ragged lists for Polyline.vertices / TriangularMesh.mesh)
  core           magpylib.core.* against getB/getH of the object at the origin
  dataframe      output='dataframe' rows against the (l, m, k, pixel) array in product(source, path, sensor, pixel) order
"""
import itertools
import warnings

import numpy as np
from scipy.spatial.transform import Rotation as R

import magpylib as magpy

MU0 = magpy.mu_0
FIELDS = "BHJM"

# single-instance rank of every functional-interface parameter, from the class docstrings (python twin of
# coq/Model/DictIface.v `spec_table`; the Coq side is the one theorems speak about)
SPEC_RANK = {
    "Circle": {"current": 0, "diameter": 0},
    "Loop": {"current": 0, "diameter": 0},
    "Polyline": {"current": 0, "vertices": 2, "segment_start": 1, "segment_end": 1},
    "Line": {"current": 0, "vertices": 2, "segment_start": 1, "segment_end": 1},
    "Cuboid": {"polarization": 1, "dimension": 1},
    "Cylinder": {"polarization": 1, "dimension": 1},
    "CylinderSegment": {"polarization": 1, "dimension": 1},
    "Sphere": {"polarization": 1, "diameter": 0},
    "Tetrahedron": {"polarization": 1, "vertices": 2},
    "TriangularMesh": {"polarization": 1, "mesh": 3},
    "CustomSource": {},
    "Dipole": {"moment": 1},
    "Triangle": {"polarization": 1, "vertices": 2},
}
BASE_RANK = {"position": 1, "orientation": 1, "observers": 1}
RAGGED_OK = {("Polyline", "vertices"), ("Line", "vertices"), ("TriangularMesh", "mesh")}


# ------------------------------------------------------------------ random valid parameter sets
def rf(rng, a, b):
    return round(rng.uniform(a, b), 3)


def rvec(rng, a=-1.0, b=1.0):
    return [rf(rng, a, b) for _ in range(3)]


def nz_vec(rng):
    while True:
        v = rvec(rng)
        if max(abs(x) for x in v) > 0.2:
            return v


def exc_vec(rng):
    """an excitation vector: generic, or (1 in 4) exactly along +-x, +-y, +-z, or (1 in 25) exactly zero"""
    x = rng.random()
    if x < 0.04:
        return [0.0, 0.0, 0.0]
    if x < 0.29:
        v = [0.0, 0.0, 0.0]
        v[rng.randrange(3)] = rng.choice([-1, 1]) * rf(rng, 0.2, 1.0)
        return v
    return nz_vec(rng)


def exc_current(rng):
    """positive, negative and (1 in 20) exactly zero"""
    return 0.0 if rng.random() < 0.05 else (rf(rng, -3, 3) or 1.5)


def sc3(v, scale):
    return [float(x) * scale for x in v]


SPECIAL_ROTVECS = [[np.pi, 0, 0], [0, np.pi, 0], [0, 0, np.pi], [np.pi / 2, 0, 0], [0, -np.pi / 2, 0],
                   [0, 0, np.pi / 2], [0, 0, -np.pi / 2], [0, 0, 0]]


def gen_rotvec(rng):
    """generic rotation vector, or (1 in 4) a 180-degree flip / quarter turn about an axis / the identity"""
    if rng.random() < 0.25:
        return [float(x) for x in rng.choice(SPECIAL_ROTVECS)]
    return rvec(rng, -2, 2)


EXCITATION = {"Circle": "current", "Loop": "current", "Polyline": "current", "Line": "current", "PolylineSeg": "current",
              "Dipole": "moment", "CustomSource": "cs_coef"}


def reexcite(cls, params, rng):
    """same geometry, different excitation"""
    p = dict(params)
    key = EXCITATION.get(cls, "polarization")
    if key == "current":
        p[key] = rf(rng, -3, 3) or 1.5
    elif key == "cs_coef":
        p[key] = [rf(rng, -2, 2) for _ in range(4)]
    else:
        p[key] = nz_vec(rng)
    return p


def boost(cls, params, factor):
    """the same source with its excitation multiplied (field ratios of 1e6..1e12 between sources of one call)"""
    p = dict(params)
    key = EXCITATION.get(cls, "polarization")
    if key == "current":
        p[key] = p[key] * factor
    else:
        p[key] = [x * factor for x in p[key]]
    return p


def inner_point(cls, params, rng, scale=1.0):
    """a point of the local frame well inside the body (magnets); near the origin for everything else"""
    u = lambda a, b: rng.uniform(a, b)   # noqa: E731
    if cls == "Cuboid":
        return [d * u(-0.3, 0.3) for d in params["dimension"]]
    if cls == "Cylinder":
        d, h = params["dimension"]
        r, a = 0.5 * d * u(0.1, 0.6), u(0, 6.28)
        return [r * np.cos(a), r * np.sin(a), h * u(-0.3, 0.3)]
    if cls == "CylinderSegment":
        r1, r2, h, p1, p2 = params["dimension"]
        r, a = r1 + (r2 - r1) * u(0.3, 0.7), np.deg2rad(p1 + (p2 - p1) * u(0.3, 0.7))
        return [r * np.cos(a), r * np.sin(a), h * u(-0.3, 0.3)]
    if cls == "Sphere":
        v = np.array([u(-1, 1), u(-1, 1), u(-1, 1)])
        return (0.5 * params["diameter"] * 0.5 * v / max(np.linalg.norm(v), 1.0)).tolist()
    if cls == "Tetrahedron":
        w = np.array([u(0.15, 0.35) for _ in range(4)])
        return (np.array(params["vertices"]).T @ (w / w.sum())).tolist()
    if cls == "TriangularMesh":
        v = np.array(params["tm_vertices"])
        cen, ext = v.mean(axis=0), 0.5 * (v.max(axis=0) - v.min(axis=0))
        fr = 0.1 if len(v) == 4 else 0.6    # tetrahedron hull: stay close to the centroid
        return [float(c + e * u(-fr, fr)) for c, e in zip(cen, ext)]
    return [scale * u(-0.05, 0.05) for _ in range(3)]


def to_global(src, local):
    pos, rv = src["position"], src["rotvec"]
    if isinstance(pos[0], list):
        pos = pos[0]
    if rv is not None and isinstance(rv[0], list):
        rv = rv[0]
    loc = np.array(local, dtype=float)
    if rv is not None:
        loc = rot_of(rv).apply(loc)
    return [float(x) for x in (np.array(pos, dtype=float) + loc)]


CUBE_V = [[x, y, z] for x in (-1, 1) for y in (-1, 1) for z in (-1, 1)]
CUBE_F = [[0, 1, 3], [0, 3, 2], [4, 6, 7], [4, 7, 5], [0, 4, 5], [0, 5, 1],
          [2, 3, 7], [2, 7, 6], [0, 2, 6], [0, 6, 4], [1, 5, 7], [1, 7, 3]]
TETRA_V = [[1, 1, 1], [1, -1, -1], [-1, 1, -1], [-1, -1, 1]]
TETRA_F = [[0, 1, 2], [0, 3, 1], [0, 2, 3], [1, 3, 2]]


def aniso3(rng):
    """three edge lengths; in half of the cases one axis (each in turn) is 3..8 times longer than the others"""
    d = [rf(rng, 0.3, 1.5) for _ in range(3)]
    if rng.random() < 0.5:
        d[rng.randrange(3)] = round(d[0] * rng.uniform(3, 8), 3)
    return d


def gen_segment_dim(rng, region=None):
    """(r1, r2, h, phi1, phi2): solid / hollow / thin shell; phi1 down to -360 (so also < -180), spans small, generic,
    just below 360 and exactly 360; angles are multiples of 0.5 so that phi2 - phi1 <= 360 holds exactly"""
    region = region or rng.choice(["segment", "segment", "segment-r1=0", "full-ring", "full-solid", "near-full"])
    r1 = 0.0 if region in ("segment-r1=0", "full-solid") else rf(rng, 0.1, 0.6)
    thick = 0.02 if rng.random() < 0.15 else rf(rng, 0.2, 0.8)          # thin shell
    p1 = rng.randint(-720, 0) * 0.5
    if region.startswith("full"):
        span = 360.0
    elif region == "near-full":
        span = 359.5
    else:
        span = rng.choice([rng.randint(2, 20), rng.randint(40, 500)]) * 0.5
    return [r1, round(r1 + thick, 3), round(rf(rng, 0.3, 1.5) * rng.choice([1, 1, 5]), 3), p1, p1 + span], region


def gen_params(cls, rng, nverts=None, scale=1.0, region=None):
    """functional-interface named parameters of one instance (python lists / floats); every length is multiplied by
    `scale` (absolute length scales 1e-6 .. 1e3)"""
    L = scale
    if cls in ("Circle", "Loop"):
        return {"current": exc_current(rng), "diameter": rf(rng, 0.3, 1.5) * L}
    if cls in ("Polyline", "Line"):
        m = nverts or rng.randint(2, 4)
        return {"current": exc_current(rng), "vertices": [sc3(rvec(rng), L) for _ in range(m)]}
    if cls == "Cuboid":
        return {"polarization": exc_vec(rng), "dimension": sc3(aniso3(rng), L)}
    if cls == "Cylinder":
        d, h = rf(rng, 0.3, 1.5), rf(rng, 0.3, 1.5)
        x = rng.random()
        if x < 0.25:
            h = round(d * rng.uniform(3, 8), 3)      # rod
        elif x < 0.5:
            d = round(h * rng.uniform(3, 8), 3)      # disc
        return {"polarization": exc_vec(rng), "dimension": [d * L, h * L]}
    if cls == "CylinderSegment":
        dim, _ = gen_segment_dim(rng, region)
        return {"polarization": exc_vec(rng), "dimension": [dim[0] * L, dim[1] * L, dim[2] * L, dim[3], dim[4]]}
    if cls == "Sphere":
        return {"polarization": exc_vec(rng), "diameter": rf(rng, 0.3, 1.5) * L}
    if cls == "Tetrahedron":
        s_ = rf(rng, 0.3, 0.8)
        off = rvec(rng, -1, 1) if rng.random() < 0.5 else [0, 0, 0]        # body off its local origin
        verts = [[round(s_ * c + rf(rng, -0.1, 0.1) + o, 3) for c, o in zip(v, off)] for v in TETRA_V]
        rng.shuffle(verts)                                                   # every vertex order, both chiralities
        return {"polarization": exc_vec(rng), "vertices": [sc3(v, L) for v in verts]}
    if cls == "TriangularMesh":
        s_ = rf(rng, 0.3, 0.7)
        kind = nverts or rng.choice(["cube", "tetra"])
        V, F = (CUBE_V, CUBE_F) if kind == "cube" else (TETRA_V, TETRA_F)
        sc = [round(s_ * f, 3) for f in aniso3(rng)]
        off = rvec(rng, -1, 1) if rng.random() < 0.5 else [0, 0, 0]
        flip = rng.random() < 0.5                                            # faces given inside-out
        return {"polarization": exc_vec(rng),
                "tm_vertices": [[(sc[i] * v[i] + off[i]) * L for i in range(3)] for v in V],
                "tm_faces": [f[::-1] for f in F] if flip else F}
    if cls == "Dipole":
        return {"moment": [x * L ** 3 for x in exc_vec(rng)]}
    if cls == "Triangle":
        return {"polarization": exc_vec(rng), "vertices": [sc3(rvec(rng), L) for _ in range(3)]}
    if cls == "CustomSource":
        return {"cs_coef": [rf(rng, -2, 2) for _ in range(4)]}
    raise KeyError(cls)


def custom_field_func(coef):
    def ff(field, observers):
        c = coef["BHJM".index(field)]
        o = np.asarray(observers, dtype=float)
        r2 = (o[:, 0] * o[:, 0] + o[:, 1] * o[:, 1] + o[:, 2] * o[:, 2])[:, None]     # row by row, no reduction
        return c * o + np.array([0.25, -0.5, 1.0]) * r2
    return ff


def rot_of(rv):
    """rotation vector (3,) or list of them -> scipy Rotation"""
    return R.from_rotvec(np.array(rv, dtype=float))


def make_obj(cls, params, position=(0, 0, 0), rotvec=None):
    ori = None if rotvec is None else rot_of(rotvec)
    with warnings.catch_warnings():
        warnings.simplefilter("ignore")
        if cls == "TriangularMesh":
            return magpy.magnet.TriangularMesh(vertices=params["tm_vertices"], faces=params["tm_faces"],
                                               polarization=params["polarization"], position=position,
                                               orientation=ori)
        if cls == "CustomSource":
            return magpy.misc.CustomSource(field_func=custom_field_func(params["cs_coef"]), position=position,
                                           orientation=ori)
        if cls == "PolylineSeg":
            return magpy.current.Polyline(current=params["current"],
                                          vertices=[params["segment_start"], params["segment_end"]],
                                          position=position, orientation=ori)
        mod = {"Circle": magpy.current, "Loop": magpy.current, "Polyline": magpy.current, "Line": magpy.current,
               "Dipole": magpy.misc, "Triangle": magpy.misc}.get(cls, magpy.magnet)
        return getattr(mod, cls)(position=position, orientation=ori, **params)


def func_params(cls, params, obj):
    """the keyword parameters of the functional interface for one instance"""
    if cls == "TriangularMesh":
        return {"polarization": params["polarization"], "mesh": obj.mesh.tolist()}
    return dict(params)


def getX(field):
    return getattr(magpy, "get" + field)


def meth(obj, field):
    return getattr(obj, "get" + field)


def quiet(fn, *a, **k):
    with warnings.catch_warnings():
        warnings.simplefilter("ignore")
        return fn(*a, **k)


def scale_of(*arrs):
    """largest finite magnitude"""
    s = 0.0
    for a in arrs:
        a = np.asarray(a, dtype=float)
        a = a[np.isfinite(a)]
        if a.size:
            s = max(s, float(np.max(np.abs(a))))
    return s


def same(a, b, exact, scale, rtol=1e-12, rows=False, floors=None):
    """a == b.  exact: bit-equal.  Otherwise |a - b| <= rtol * scale, where with rows=True every index of axis 0 (one
    source) is measured on ITS OWN scale (a weak source next to a strong one is not allowed to be wrong by the strong
    one's rounding).  Non-finite entries (an observer exactly on a singular point) must sit at the same places with the
    same value; the finite rest is compared as usual."""
    a, b = np.asarray(a), np.asarray(b)
    if a.shape != b.shape:
        return False, f"shapes {a.shape} vs {b.shape}"
    if exact:
        if np.array_equal(a, b, equal_nan=True):
            return True, ""
        with np.errstate(all="ignore"):
            return False, f"not bit-equal (max abs diff {np.nanmax(np.abs(a - b)):.3e})"
    fa, fb = np.isfinite(a), np.isfinite(b)
    if not np.array_equal(fa, fb) or not np.array_equal(a[~fa], b[~fb], equal_nan=True):
        return False, "non-finite values differ"
    if rows and a.ndim >= 1 and a.shape[0] > 1:
        for l in range(a.shape[0]):
            sc_l = max(scale_of(b[l]) or scale_of(a[l]), floors[l] if floors is not None and l < len(floors) else 0.0)
            ok, w = same(a[l], b[l], False, sc_l, rtol)
            if not ok:
                return False, f"source row {l}: {w}"
        return True, ""
    d = float(np.max(np.abs(np.where(fa, a - b, 0.0)))) if a.size else 0.0
    if d <= rtol * scale:
        return True, ""
    return False, f"max abs diff {d:.3e} at field scale {scale:.3e}"


PIX_SHAPES = [None, [1], [2], [2, 2], [3, 1]]   # leading pixel dims; None = no pixel
SCALES = [1.0, 1.0, 1e-3, 1e-6, 1e3]
AGGS = ["mean", "max", "min", "std", "var", "ptp", "median", "sum"]


def gen_path(rng, m, gen):
    return [gen() for _ in range(m)] if m > 1 else gen()


def gen_obj_case(rng, classes, field=None, max_src=3, first_cls=None, battery=None):
    """1-5 sources (paths of length 1, M and in between, generic and special rotations), 1-3 sensors, one absolute
    length scale for the whole configuration (1e-6 .. 1e3).  With first_cls: source 0 is of that class and source 1 is,
    in a third of the cases each, its TWIN (same geometry, other excitation, other place) or a SIBLING (same class,
    other parameters: rows of different dispatch regions of one class in one vector call).  Sometimes one source is
    boosted by 1e6..1e12 (large field ratios, either order).  About half of the sensors sit INSIDE a source body, a few
    exactly AT a source position (axis / centre special cases)."""
    L = rng.choice(SCALES)
    M = rng.choice([1, 1, 2, 3, 4])
    nsrc = rng.randint(1, max_src)
    if battery == "many":           # >= 4 sources, several classes interleaved
        nsrc = rng.randint(4, 6)
    kin = rng.choice(["twin", "sibling", None]) if first_cls is not None else None
    if kin:
        nsrc = max(nsrc, 2)
    pool = rng.sample(classes, min(3, len(classes))) if battery == "many" else classes

    def lengths():
        return rng.choice([1, M, M] + ([rng.randint(2, M - 1)] if M > 2 else []))

    srcs = []
    for i in range(nsrc):
        cls = first_cls if (i == 0 and first_cls) else rng.choice(pool)
        m = lengths()
        if i == 1 and kin == "twin":
            cls, params, m = srcs[0]["cls"], reexcite(srcs[0]["cls"], srcs[0]["params"], rng), 1
        elif i == 1 and kin == "sibling":
            cls = srcs[0]["cls"]
            params = gen_params(cls, rng, scale=L)
        else:
            params = gen_params(cls, rng, scale=L)
        srcs.append({"cls": cls, "params": params,
                     "position": gen_path(rng, m, lambda: sc3(rvec(rng, -0.6, 0.6), L)),
                     "rotvec": None if rng.random() < 0.3 else gen_path(rng, m, lambda: gen_rotvec(rng))})
    if kin == "twin":   # keep the twin clear of the original
        srcs[1]["position"] = [x + 2.5 * L for x in srcs[1]["position"]]
    if kin and rng.random() < 0.5:      # either order in the source list
        srcs[0], srcs[1] = srcs[1], srcs[0]
    if nsrc >= 2 and rng.random() < 0.25:
        j = rng.randrange(nsrc)
        srcs[j]["params"] = boost(srcs[j]["cls"], srcs[j]["params"], rng.choice([1e6, 1e9, 1e12, 1e-6, 1e-9]))
    nsens = rng.randint(1, 3)
    pix_lead = rng.choice(PIX_SHAPES)
    sens = []
    for k in range(nsens):
        m = lengths()
        where = rng.choice(["inside", "inside", "outside", "outside", "at"])
        amp = (0.03 if where == "inside" else 0.3) * L
        if pix_lead is None:
            pixel = None
        else:
            cnt = int(np.prod(pix_lead))
            pixel = np.array([rvec(rng, -amp, amp) for _ in range(cnt)]).reshape(pix_lead + [3]).tolist()
        position = gen_path(rng, m, lambda: sc3(rvec(rng, -2, 2), L))
        if where != "outside":
            host = srcs[1] if (kin == "twin" and k == 0) else rng.choice(srcs)
            loc = inner_point(host["cls"], host["params"], rng, L) if where == "inside" else [0.0, 0.0, 0.0]
            anchor = to_global(host, loc)
            if m > 1:
                position[0] = anchor
            else:
                position = anchor
        sens.append({"position": position,
                     "rotvec": None if rng.random() < 0.4 else gen_path(rng, m, lambda: gen_rotvec(rng)),
                     "pixel": pixel, "handedness": "left" if rng.random() < 0.15 else "right"})
    shp = rng.choice([[], [1], [3], [2, 2]])
    cnt = int(np.prod(shp)) if shp else 1
    obs_positions = np.array([sc3(rvec(rng, -2, 2), L) for _ in range(cnt)]).reshape(shp + [3]).tolist()
    if rng.random() < 0.3 and shp:     # one of them inside the first source
        flat = np.array(obs_positions).reshape(-1, 3)
        flat[0] = to_global(srcs[0], inner_point(srcs[0]["cls"], srcs[0]["params"], rng, L))
        obs_positions = flat.reshape(shp + [3]).tolist()
    history = None
    if srcs[0]["cls"] != "CustomSource":
        pos0 = srcs[0]["position"]
        m0 = len(pos0) if isinstance(pos0[0], list) else 1
        history = {"params": reexcite(srcs[0]["cls"], srcs[0]["params"], rng),
                   "position": gen_path(rng, m0, lambda: sc3(rvec(rng, -0.6, 0.6), L))}
    return {"kind": "object-forms", "field": field or rng.choice(FIELDS), "scale": L, "sources": srcs, "sensors": sens,
            "obs_positions": obs_positions, "history": history,
            # two position arrays with the pixel shape of the sensors (so that they can share a list with them)
            "obs_like": [np.array([sc3(rvec(rng, -2, 2), L) for _ in range(int(np.prod(pix_lead or [1])))])
                         .reshape((pix_lead or []) + [3]).tolist() for _ in range(2)],
            "pixel_agg": None, "in_out_form": rng.choice(["inside", "inside", "outside"]),
            "agg_form": rng.choice(AGGS)}


def build_sources(case):
    return [make_obj(s["cls"], s["params"], s["position"], s["rotvec"]) for s in case["sources"]]


def build_sensors(case):
    out = []
    for s in case["sensors"]:
        out.append(magpy.Sensor(position=s["position"], pixel=s["pixel"], handedness=s.get("handedness", "right"),
                                orientation=None if s["rotvec"] is None else rot_of(s["rotvec"])))
    return out


def fail(clause, trigger, what):
    return {"clause": clause, "trigger": trigger, "what": what}


def check_object_forms(case):
    """all object-oriented call forms against magpy.getX(sources, sensors, squeeze=False).

    Every call gets freshly built objects: a call that tiles a static object's path hands the object back with a
    re-normalised quaternion (last-bit changes, the business of C08), which would make 'bit-equal' depend on call order."""
    f = case["field"]
    L, K = len(case["sources"]), len(case["sensors"])
    gx = getX(f)

    def call(fn):
        srcs, sens = build_sources(case), build_sensors(case)
        return quiet(fn, srcs, sens)

    # a source's own scale: the field it makes here, but not less than its natural scale (|J| resp. |J|/mu0 of a
    # magnet: near-cancellations inside the formulas round on that scale)
    floors = []
    for src in case["sources"]:
        pol = src["params"].get("polarization")
        floors.append(0.0 if pol is None else scale_of(pol) / (MU0 if f in "HM" else 1.0))
    ref = call(lambda s, q: gx(s, q, squeeze=False))              # (L, M, K, pix..., 3)
    each = [call(lambda s, q, l=l: gx(s[l], q, squeeze=False)) for l in range(L)]
    sc = scale_of(ref) or 1.0
    M = ref.shape[1]

    def bad(form, what, clause="form-differs"):
        cl = "+".join(sorted({s["cls"] for s in case["sources"]}))
        return fail(clause, f"{form}", f"{form} differs from get{f}(sources, sensors) [{cl}]: {what}")

    def pathfix(a, axis=1):
        """a sub-call with fewer moving objects has a shorter path axis: static beyond its end"""
        m = a.shape[axis]
        if m == M:
            return a
        idx = [min(i, m - 1) for i in range(M)]
        return np.take(a, idx, axis=axis)

    def pathfix2(a, m_full):
        idx = [min(i, a.shape[1] - 1) for i in range(m_full)]
        return np.take(a, idx, axis=1)

    tot = np.sum(ref, axis=0, keepdims=True)
    forms = [("top-level squeeze=True", lambda s, q: gx(s, q), np.squeeze(ref), True, sc),
             ("getX(sumup=True)", lambda s, q: gx(s, q, sumup=True, squeeze=False), tot, False, sc * L),
             ("getX(tuple(sources), tuple(sensors))", lambda s, q: gx(tuple(s), tuple(q), squeeze=False), ref, True, sc)]
    for l in range(L):
        forms += [
            ("getX(src_l, sensors) vs row l of getX(sources, sensors)", None, (pathfix(each[l]), ref[l:l + 1]), False,
             max(scale_of(ref[l]), floors[l])),
            ("src.getX([sensors])", lambda s, q, l=l: meth(s[l], f)(q, squeeze=False), each[l], True, sc),
            ("src.getX(*sensors)", lambda s, q, l=l: meth(s[l], f)(*q, squeeze=False), each[l], True, sc),
            ("src.getX(*sensors) squeezed", lambda s, q, l=l: meth(s[l], f)(*q), np.squeeze(each[l]), True, sc),
        ]
    for k in range(K):
        full_k = call(lambda s, q, k=k: gx(s, q[k], squeeze=False))
        forms += [
            ("getX(sources, sensor_k) vs column k", None, (pathfix(full_k), ref[:, :, k:k + 1]), False, sc, True),
            ("sens.getX(*sources)", lambda s, q, k=k: meth(q[k], f)(*s, squeeze=False), full_k, True, sc),
            ("sens.getX([sources])", lambda s, q, k=k: meth(q[k], f)(s, squeeze=False), full_k, True, sc),
            ("sens.getX(*sources, sumup=True)", lambda s, q, k=k: meth(q[k], f)(*s, sumup=True, squeeze=False),
             np.sum(full_k, axis=0, keepdims=True), False, sc * L),
        ]
    C = magpy.Collection
    forms += [
        ("Collection(sources).getX(*sensors)", lambda s, q: pathfix(meth(C(*s), f)(*q, squeeze=False)), tot, False, sc * L),
        ("Collection(sources).getX([sensors])", lambda s, q: pathfix(meth(C(*s), f)(q, squeeze=False)), tot, False, sc * L),
        ("getX(Collection(sources), sensors)", lambda s, q: pathfix(gx(C(*s), q, squeeze=False)), tot, False, sc * L),
        ("Collection(sources).getX(sensor_0)", lambda s, q: pathfix(meth(C(*s), f)(q[0], squeeze=False)),
         tot[:, :, 0:1], False, sc * L),
        ("Collection(sensors).getX(*sources)", lambda s, q: pathfix(meth(C(*q), f)(*s, squeeze=False)), ref, False, sc,
         True),
        ("getX(sources, Collection(sensors))", lambda s, q: pathfix(gx(s, C(*q), squeeze=False)), ref, False, sc, True),
        ("src.getX(Collection(sensors))", lambda s, q: pathfix(meth(s[0], f)(C(*q), squeeze=False)), ref[0:1], False,
         max(scale_of(ref[0]), floors[0])),
        # nesting depth 2
        ("getX(Collection(Collection(sources)), sensors)", lambda s, q: pathfix(gx(C(C(*s)), q, squeeze=False)),
         tot, False, sc * L),
        ("Collection(Collection(sources)).getX(*sensors)", lambda s, q: pathfix(meth(C(C(*s)), f)(*q, squeeze=False)),
         tot, False, sc * L),
        ("Collection(Collection(sensors)).getX(*sources)", lambda s, q: pathfix(meth(C(C(*q)), f)(*s, squeeze=False)),
         ref, False, sc, True),
        ("getX(sources, Collection(Collection(sensor_0), Collection(rest)))",
         lambda s, q: pathfix(gx(s, C(C(q[0]), C(*q[1:])) if len(q) > 1 else C(C(q[0])), squeeze=False)),
         ref, False, sc, True),
        ("Collection(Collection(sources), Collection(sensors)).getX()",
         lambda s, q: meth(C(C(*s), C(*q)), f)(squeeze=False), tot, False, sc * L),
        # keyword call
        ("getX(sources=, observers=)", lambda s, q: gx(sources=s, observers=q, squeeze=False), ref, True, sc),
        # positional flags in the documented order (sources, observers, sumup, squeeze, pixel_agg, output, in_out)
        ("getX(sources, sensors, True) positional sumup", lambda s, q: gx(s, q, True),
         call(lambda s, q: gx(s, q, sumup=True)), True, sc * L),
        ("getX(sources, sensors, False, False) positional sumup, squeeze", lambda s, q: gx(s, q, False, False), ref, True, sc),
        ("getX(sources, sensors, True, False, None, 'ndarray', 'auto') all positional",
         lambda s, q: gx(s, q, True, False, None, "ndarray", "auto"),
         call(lambda s, q: gx(s, q, sumup=True, squeeze=False)), True, sc * L),
        ("getX(sources, sensors, False, True, agg) positional pixel_agg",
         lambda s, q: gx(s, q, False, True, case.get("agg_form") or "mean"),
         call(lambda s, q: gx(s, q, pixel_agg=case.get("agg_form") or "mean")), True, sc),
        ("getX(Collection(sources), Collection(sensors))", lambda s, q: pathfix(gx(C(*s), C(*q), squeeze=False)),
         tot, False, sc * L),
        ("Collection(sources+sensors).getX()", lambda s, q: meth(C(*s, *q), f)(squeeze=False), tot, False, sc * L),
        ("Collection(sensors+sources).getX()", lambda s, q: meth(C(*q, *s), f)(squeeze=False), tot, False, sc * L),
    ]
    if K >= 2:
        # observer collections of depth 2 with the nested collection BEFORE / BETWEEN its siblings: the sensors are
        # taken depth first, i.e. in the order of coll.sensors_all = sensor list order here
        def nest_first(q):
            return C(C(q[0]), *q[1:])

        def nest_mid(q):
            return C(q[0], C(*q[1:-1], C(q[-1]))) if len(q) > 2 else C(C(C(q[0])), q[1])
        for nm, mk in (("Collection(Collection(sensor_0), rest...)", nest_first),
                       ("Collection(sensor_0, Collection(.., Collection(sensor_last)))", nest_mid)):
            forms += [
                (f"getX(sources, {nm})", lambda s, q, mk=mk: pathfix(gx(s, mk(q), squeeze=False)), ref, False, sc, True),
                (f"src.getX({nm})", lambda s, q, mk=mk: pathfix(meth(s[0], f)(mk(q), squeeze=False)), ref[0:1], False,
                 max(scale_of(ref[0]), floors[0])),
                (f"{nm}.getX(*sources)", lambda s, q, mk=mk: pathfix(meth(mk(q), f)(*s, squeeze=False)), ref, False, sc,
                 True),
                (f"getX(sources, {nm}.sensors_all)", lambda s, q, mk=mk: pathfix(gx(s, mk(q).sensors_all, squeeze=False)),
                 ref, False, sc, True),
            ]
    if L >= 2:
        # source side likewise: nested before sibling inside one collection is one summed source
        forms.append(("getX(Collection(Collection(src_0), rest...), sensors)",
                      lambda s, q: pathfix(gx(C(C(s[0]), *s[1:]), q, squeeze=False)), tot, False, sc * L))
        exp = np.concatenate([ref[0:1], np.sum(ref[1:], axis=0, keepdims=True)], axis=0)
        forms.append(("getX([src_0, Collection(rest)], sensors)",
                      lambda s, q: pathfix(gx([s[0], C(*s[1:])], q, squeeze=False)), exp, False, sc * L))
        forms.append(("getX([Collection(Collection(src_0)), Collection(rest)], sensors)",
                      lambda s, q: pathfix(gx([C(C(s[0])), C(*s[1:])], q, squeeze=False)), exp, False, sc * L))
    # keyword arguments are forwarded by every method form (pixel_agg; in_out where the form has it)
    agg = case.get("agg_form") or "mean"
    ref_agg = call(lambda s, q: gx(s, q, squeeze=False, pixel_agg=agg))
    forms += [
        ("src.getX(*sensors, pixel_agg)", lambda s, q: meth(s[0], f)(*q, squeeze=False, pixel_agg=agg),
         call(lambda s, q: gx(s[0], q, squeeze=False, pixel_agg=agg)), True, sc),
        ("sens.getX(*sources, pixel_agg)", lambda s, q: meth(q[0], f)(*s, squeeze=False, pixel_agg=agg),
         call(lambda s, q: gx(s, q[0], squeeze=False, pixel_agg=agg)), True, sc),
        # (pixel_agg acts on the SUM over the collection's sources: compare with the top-level call on a collection)
        ("Collection(sources).getX(*sensors, pixel_agg)",
         lambda s, q: meth(C(*s), f)(*q, squeeze=False, pixel_agg=agg),
         call(lambda s, q: gx(C(*s), q, squeeze=False, pixel_agg=agg)), True, sc * L),
        ("Collection(sensors).getX(*sources, pixel_agg)",
         lambda s, q: pathfix(meth(C(*q), f)(*s, squeeze=False, pixel_agg=agg)), ref_agg, False, sc),
        ("Collection(sources+sensors).getX(pixel_agg)",
         lambda s, q: meth(C(*s, *q), f)(squeeze=False, pixel_agg=agg),
         call(lambda s, q: gx(C(*s), C(*q), squeeze=False, pixel_agg=agg)), False, sc * L),
        ("getX(in_out='auto') explicit", lambda s, q: gx(s, q, squeeze=False, in_out="auto"), ref, True, sc),
    ]
    # in_out is honoured by Tetrahedron / TriangularMesh only (a warning, suppressed here, says so for the others)
    io = case.get("in_out_form") or "inside"
    for l in range(L):
        forms.append((f"src.getX(in_out='{io}')", lambda s, q, l=l: meth(s[l], f)(*q, squeeze=False, in_out=io),
                      call(lambda s, q, l=l: gx(s[l], q, squeeze=False, in_out=io)), True, sc))
    forms.append((f"sens.getX(in_out='{io}')", lambda s, q: meth(q[0], f)(*s, squeeze=False, in_out=io),
                  call(lambda s, q: gx(s, q[0], squeeze=False, in_out=io)), True, sc))
    # mixed SOURCE lists in every order: a collection holding all sources before / between / after bare sources; every
    # row against the same source (resp. the sum of the collection's sources) evaluated alone
    S2 = lambda: build_sources(case)   # noqa: E731  (fresh objects: an object has one parent)
    mixed_src = [
        ("getX([Collection(sources), *bare sources], sensors)", lambda s, q: gx([C(*s)] + S2(), q, squeeze=False),
         np.concatenate([tot, ref], axis=0)),
        ("getX([Collection(sources), src_0, Collection(sources)], sensors)",
         lambda s, q: gx([C(*s), S2()[0], C(*S2())], q, squeeze=False), np.concatenate([tot, ref[0:1], tot], axis=0)),
        ("getX([src_0, Collection(sources), src_last], sensors)",
         lambda s, q: gx([S2()[0], C(*s), S2()[-1]], q, squeeze=False),
         np.concatenate([ref[0:1], tot, ref[-1:]], axis=0)),
        ("sens.getX(Collection(sources), *bare sources)", lambda s, q: meth(q[0], f)(C(*s), *S2(), squeeze=False),
         np.concatenate([tot, ref], axis=0)[:, :, 0:1]),
    ]
    for nm, fn_, exp_ in mixed_src:
        # (rtol 1e-10 like the history form: the same source evaluated in a differently composed batch agrees to rounding of
        #  the vectorised core only, 1.6e-11 seen for CylinderSegment; a permuted or wrong row differs at order 1)
        forms.append((nm, (lambda s, q, fn_=fn_: pathfix(fn_(s, q))), exp_, False, sc * L, False, 1e-10))
    # mixed OBSERVER lists in every order: position arrays before / between / after sensors and sensor collections
    PL = case.get("obs_like")
    if PL:
        Q2 = lambda: build_sensors(case)   # noqa: E731
        rp = [pathfix2(call(lambda s, q, P_=P_: gx(s, P_, squeeze=False)), M) for P_ in PL]
        rp = [r.reshape(r.shape[:2] + (1,) + ref.shape[3:]) for r in rp]
        mixed_obs = [
            ("getX(sources, [positions, *sensors])", lambda s, q: gx(s, [PL[0]] + q, squeeze=False),
             np.concatenate([rp[0], ref], axis=2)),
            ("getX(sources, [sensor_0, positions, Collection(sensors), positions'])",
             lambda s, q: gx(s, [q[0], PL[0], C(*Q2()), PL[1]], squeeze=False),
             np.concatenate([ref[:, :, 0:1], rp[0], ref, rp[1]], axis=2)),
            ("getX(sources, [positions, Collection(sensors), sensor_last])",
             lambda s, q: gx(s, [PL[1], C(*q), Q2()[-1]], squeeze=False),
             np.concatenate([rp[1], ref, ref[:, :, -1:]], axis=2)),
            ("src.getX(positions, *sensors)", lambda s, q: meth(s[0], f)(PL[0], *q, squeeze=False),
             np.concatenate([rp[0], ref], axis=2)[0:1]),
            ("Collection(sources).getX(positions, *sensors)", lambda s, q: meth(C(*s), f)(PL[0], *q, squeeze=False),
             np.sum(np.concatenate([rp[0], ref], axis=2), axis=0, keepdims=True)),
        ]
        for nm, fn_, exp_ in mixed_obs:
            # the position arrays may lie inside a body while all sensors are outside (J/M: sensors see 0): the tolerance
            # is relative to the scale of the whole expected array, not only of the sensors' part
            forms.append((nm, (lambda s, q, fn_=fn_: pathfix(fn_(s, q))), exp_, False,
                          max(sc, scale_of(exp_) or 0.0) * L, False, 1e-10))
    # plain position arrays as observers: list / tuple / ndarray / a Sensor at the origin carrying them as pixels
    P = case.get("obs_positions")
    if P is not None:
        def tup(x):
            return tuple(tup(y) for y in x) if isinstance(x, list) else x
        refp = call(lambda s, q: gx(s, P, squeeze=False))
        scp = scale_of(refp) or 1.0
        forms += [
            ("getX(sources, ndarray positions)", lambda s, q: gx(s, np.array(P, dtype=float), squeeze=False), refp, True, scp),
            ("getX(sources, tuple positions)", lambda s, q: gx(s, tup(P), squeeze=False), refp, True, scp),
            ("getX(sources, Sensor(pixel=positions))", lambda s, q: gx(s, magpy.Sensor(pixel=P), squeeze=False),
             refp, True, scp),
            ("src.getX(positions)", lambda s, q: meth(s[0], f)(P, squeeze=False),
             call(lambda s, q: gx(s[0], P, squeeze=False)), True, scp),
            ("src.getX(ndarray positions) squeezed", lambda s, q: meth(s[0], f)(np.array(P, dtype=float)),
             np.squeeze(call(lambda s, q: gx(s[0], P, squeeze=False))), True, scp),
            ("getX(src_0, positions) vs row 0 of getX(sources, positions)",
             lambda s, q: pathfix2(gx(s[0], P, squeeze=False), refp.shape[1]), refp[0:1], False,
             max(scale_of(refp[0]), floors[0])),
            ("getX(sources, [Sensor(pixel=positions), positions])",
             lambda s, q: gx(s, [magpy.Sensor(pixel=P), P], squeeze=False),
             np.concatenate([refp, refp], axis=2), False, scp, True),
            ("Collection(sources).getX(positions)", lambda s, q: meth(C(*s), f)(P, squeeze=False),
             np.sum(refp, axis=0, keepdims=True), False, scp * L),
        ]
    # history: call, then public attribute assignments (excitation, position), call again == a fresh twin
    H = case.get("history")
    if H is not None:
        def hist(s, q):
            gx(s, q)
            key = EXCITATION.get(case["sources"][0]["cls"], "polarization")
            if key != "cs_coef":
                setattr(s[0], key, H["params"][key])
            s[0].position = H["position"]
            gx(s[0], q[0])
            return gx(s, q, squeeze=False)
        c2 = dict(case, sources=[dict(case["sources"][0], params=H["params"], position=H["position"])]
                  + case["sources"][1:])
        fresh = quiet(gx, build_sources(c2), build_sensors(c2), squeeze=False)
        forms.append(("getX after attribute assignments vs fresh objects", hist, fresh, False, scale_of(fresh) or 1.0,
                      True, 1e-10))
    for form in forms:
        name, fn, exp, exact, scl = form[:5]
        rows = len(form) > 5 and form[5]
        rtol = form[6] if len(form) > 6 else 1e-12
        if fn is None:
            got, exp = exp
        else:
            try:
                got = call(fn)
            except Exception as e:   # pylint: disable=broad-except
                if not from_magpylib(e):
                    raise
                return bad(name, f"raised {type(e).__name__}: {str(e)[:120]}", clause="form-raises")
        ok, w = same(got, exp, exact, scl, rtol=rtol, rows=rows, floors=floors)
        if not ok:
            return bad(name, w)
    return None


# ------------------------------------------------------------------ dataframe
def check_dataframe(case):
    f = case["field"]
    def fresh(every=False):
        srcs, sens = build_sources(case), build_sensors(case)
        for i, s in enumerate(srcs):
            if every or i % 2 == 0:
                s.style.label = f"src{i}"
        for i, s in enumerate(sens):
            if every or i % 2 == 1:
                s.style.label = f"sens{i}"
        return srcs, sens

    gx = getX(f)
    agg = case.get("pixel_agg")
    sumup = bool(case.get("sumup"))
    srcs, sens = fresh()
    ref = quiet(gx, srcs, sens, squeeze=False, pixel_agg=agg, sumup=sumup)
    srcs, sens = fresh()
    df = quiet(gx, srcs, sens, output="dataframe", pixel_agg=agg, sumup=sumup)
    L, M, K = ref.shape[:3]
    pix = ref.shape[3:-1]
    P = int(np.prod(pix)) if pix else 1
    if sumup and len(srcs) > 1:
        src_ids = [f"sumup ({len(srcs)})"]
    else:
        src_ids = [s.style.label if s.style.label else f"{s}" for s in srcs]
    sens_ids = [s.style.label if s.style.label else f"{s}" for s in sens]
    trig = "dataframe" + (":pixel_agg" if agg else "") + (":sumup" if sumup else "")
    cols = ["source", "path", "sensor", "pixel"] + [f + c for c in "xyz"]
    if list(df.columns) != cols:
        return fail("dataframe-order", trig + ":columns", f"columns {list(df.columns)}")
    if len(df) != L * M * K * P:
        return fail("dataframe-order", trig + ":rows", f"{len(df)} rows for (l,m,k,pix)=({L},{M},{K},{P})")
    vals = df[[f + c for c in "xyz"]].to_numpy()
    flat = ref.reshape(L, M, K, P, 3)
    row = 0
    for l, m, k, p in itertools.product(range(L), range(M), range(K), range(P)):
        r = df.iloc[row]
        lab = tuple(x.item() if hasattr(x, "item") else x for x in (r["source"], r["path"], r["sensor"], r["pixel"]))
        if lab != (src_ids[l], m, sens_ids[k], p):
            return fail("dataframe-order", trig + ":labels",
                        f"row {row} is labelled {(r['source'], r['path'], r['sensor'], r['pixel'])}, "
                        f"documented order gives {(src_ids[l], m, sens_ids[k], p)}")
        if not np.array_equal(vals[row], flat[l, m, k, p], equal_nan=True):
            return fail("dataframe-values", trig + ":values",
                        f"row {row} (source {l}, path {m}, sensor {k}, pixel {p}) holds {vals[row]}, "
                        f"the ndarray holds {flat[l, m, k, p]}")
        row += 1
    # the method forms give the same frame
    srcs, sens = fresh(True)
    d2 = quiet(meth(srcs[0], f), *sens, output="dataframe", pixel_agg=agg)
    srcs, sens = fresh(True)
    r2 = quiet(gx, srcs[0], sens, output="dataframe", pixel_agg=agg)
    if not d2.equals(r2):
        return fail("dataframe-values", trig + ":src-method", "src.getX(output='dataframe') differs from top level")
    # mixed lists: a collection before bare sources, a position array before the sensors -- the frame's values against
    # the rows / columns evaluated separately
    PL = case.get("obs_like")
    if PL and not sumup:
        srcs, sens = fresh(True)
        part_s = quiet(gx, srcs, sens, squeeze=False, pixel_agg=agg)
        srcs, sens = fresh(True)
        part_p = quiet(gx, srcs, PL[0], squeeze=False, pixel_agg=agg)
        if part_p.shape[1] != part_s.shape[1]:
            part_p = np.take(part_p, [min(i, part_p.shape[1] - 1) for i in range(part_s.shape[1])], axis=1)
        part_p = part_p.reshape(part_s.shape[:2] + (1,) + part_s.shape[3:])
        cols = np.concatenate([part_p, part_s], axis=2)                       # observers [positions, *sensors]
        srcs, sens = fresh(True)
        if agg is None:
            want = np.concatenate([np.sum(cols, axis=0, keepdims=True), cols], axis=0)   # sources [Collection, *bare]
            s2, _ = fresh(True)
            mixed_sources = [magpy.Collection(*srcs)] + s2
        else:       # (an aggregate of a collection's summed field is not the sum of the aggregates)
            want, mixed_sources = cols, srcs
        dm = quiet(gx, mixed_sources, [PL[0]] + sens, output="dataframe", pixel_agg=agg)
        vm = dm[[f + c for c in "xyz"]].to_numpy()
        ok, w = same(vm, want.reshape(-1, 3), False, (scale_of(want) or 1.0) * len(case["sources"]))
        if not ok:
            return fail("dataframe-order", "dataframe:mixed-lists",
                        "getX([Collection(sources), *sources], [positions, *sensors], output='dataframe') does not list "
                        f"the rows / columns evaluated separately in list order: {w}")
    if len(case["sensors"]) >= 2:
        srcs, sens = fresh(True)
        dn = quiet(gx, srcs, magpy.Collection(magpy.Collection(sens[0]), *sens[1:]), output="dataframe", pixel_agg=agg,
                   sumup=sumup)
        srcs, sens = fresh(True)
        dflat = quiet(gx, srcs, sens, output="dataframe", pixel_agg=agg, sumup=sumup)
        if not dn.equals(dflat):
            return fail("dataframe-order", "dataframe:nested-sensor-collection",
                        "getX(sources, Collection(Collection(sensor_0), rest...), output='dataframe') differs from the "
                        "frame of the flat sensor list (sensor column " + str(list(dict.fromkeys(dn["sensor"]))) + " vs "
                        + str(list(dict.fromkeys(dflat["sensor"]))) + ")")
    srcs, sens = fresh(True)
    d3 = quiet(meth(sens[0], f), *srcs, output="dataframe", pixel_agg=agg, sumup=sumup)
    srcs, sens = fresh(True)
    r3 = quiet(gx, srcs, sens[0], output="dataframe", pixel_agg=agg, sumup=sumup)
    if not d3.equals(r3):
        return fail("dataframe-values", trig + ":sens-method", "sens.getX(output='dataframe') differs from top level")
    return None


# ------------------------------------------------------------------ functional interface
def gen_func_case(rng, cls, field=None, n=None, modes=None):
    """n instances of one class; per parameter mode 'single' | 'batch' | 'ragged'"""
    n = n or rng.choice([1, 2, 2, 5, 17])
    L = rng.choice(SCALES)
    base = cls
    keys = list(SPEC_RANK["Polyline" if cls == "PolylineSeg" else cls])
    if cls in ("Polyline", "Line"):
        keys = ["current", "vertices"]
    if cls == "PolylineSeg":
        keys = ["current", "segment_start", "segment_end"]
    allk = keys + ["position", "orientation", "observers"]
    if modes is None:
        modes = {}
        for k in allk:
            modes[k] = "single" if rng.random() < 0.45 else "batch"
        for k in keys:
            if (cls, k) in RAGGED_OK and n >= 2 and rng.random() < 0.3:
                modes[k] = "ragged"
    insts = []
    shared = None
    ragged_sizes = None
    for i in range(n):
        if cls == "PolylineSeg":
            p = {"current": exc_current(rng), "segment_start": sc3(rvec(rng), L), "segment_end": sc3(rvec(rng), L)}
        else:
            nv = None
            if cls in ("Polyline", "Line"):
                if modes.get("vertices") == "ragged":
                    nv = 2 + (i % 2) + (i // 2) % 2
                else:
                    ragged_sizes = ragged_sizes or rng.randint(2, 4)
                    nv = ragged_sizes
            if cls == "TriangularMesh":
                if modes.get("mesh") == "ragged":
                    nv = "cube" if i % 2 else "tetra"
                else:
                    ragged_sizes = ragged_sizes or rng.choice(["cube", "tetra"])
                    nv = ragged_sizes
            p = gen_params(cls, rng, nv, scale=L)
        inst = {"params": p, "position": sc3(rvec(rng, -0.6, 0.6), L), "rotvec": gen_rotvec(rng),
                "observer": sc3(rvec(rng, -2, 2), L)}
        if shared is None:
            shared = inst
        else:
            # parameters given as a single set are shared by all instances
            fk = keys if cls != "TriangularMesh" else ["polarization", "mesh"]
            for k in fk:
                if modes[k] == "single":
                    if k == "mesh":
                        inst["params"]["tm_vertices"] = shared["params"]["tm_vertices"]
                        inst["params"]["tm_faces"] = shared["params"]["tm_faces"]
                    else:
                        inst["params"][k] = shared["params"][k]
            if modes["position"] == "single":
                inst["position"] = shared["position"]
            if modes["orientation"] == "single":
                inst["rotvec"] = shared["rotvec"]
            if modes["observers"] == "single":
                inst["observer"] = shared["observer"]
        # half of the observers sit inside the instance's own body (B, J, M are only non-trivial there)
        if rng.random() < 0.5 and (modes["observers"] != "single" or inst is shared):
            inst["observer"] = to_global(inst, inner_point(cls, inst["params"], rng, L))
        insts.append(inst)
    io = rng.choice(["auto", "auto", "inside", "outside"]) if cls in ("Tetrahedron", "TriangularMesh") else "auto"
    return {"kind": "functional", "cls": base, "field": field or rng.choice(FIELDS), "n": n, "modes": modes,
            "in_out": io, "scale": L, "as_array": rng.random() < 0.5, "instances": insts}


def functional_call(case, squeeze=True):
    """build the keyword arguments exactly as a user would write them and call the functional interface"""
    cls, f, modes, insts = case["cls"], case["field"], case["modes"], case["instances"]
    name = "Polyline" if cls == "PolylineSeg" else cls
    objs = [make_obj(cls, i["params"], i["position"], i["rotvec"]) for i in insts]
    fps = [func_params(cls, i["params"], o) for i, o in zip(insts, objs)]
    kw = {}
    for k in fps[0]:
        if modes[k] == "single":
            kw[k] = fps[0][k]
        else:
            kw[k] = [fp[k] for fp in fps]
    pos = insts[0]["position"] if modes["position"] == "single" else [i["position"] for i in insts]
    ori = rot_of(insts[0]["rotvec"]) if modes["orientation"] == "single" else rot_of([i["rotvec"] for i in insts])
    obs = insts[0]["observer"] if modes["observers"] == "single" else [i["observer"] for i in insts]
    io = {} if case.get("in_out", "auto") == "auto" else {"in_out": case["in_out"]}
    if case.get("as_array"):
        # float64 ndarrays instead of nested lists, and the keyword spelling of the first two arguments
        # (a single scalar becomes a numpy scalar: a 0-d ndarray is not a documented input)
        kw = {k: (v if modes[k] == "ragged" else (np.float64(v) if np.ndim(v) == 0 else np.array(v, dtype=float)))
              for k, v in kw.items()}
        pos, obs = np.array(pos, dtype=float), np.array(obs, dtype=float)
        got = quiet(getX(f), sources=name, observers=obs, position=pos, orientation=ori, squeeze=squeeze, **io, **kw)
    else:
        got = quiet(getX(f), name, obs, position=pos, orientation=ori, squeeze=squeeze, **io, **kw)
    return got, objs


def check_functional(case):
    cls, f, modes, insts = case["cls"], case["field"], case["modes"], case["instances"]
    n = len(insts)
    objs = [make_obj(cls, i["params"], i["position"], i["rotvec"]) for i in insts]
    io = {} if case.get("in_out", "auto") == "auto" else {"in_out": case["in_out"]}
    exp = np.array([quiet(getX(f), o, i["observer"], **io) for o, i in zip(objs, insts)])    # (n, 3)
    hb = np.array([quiet(magpy.getB, o, i["observer"]) for o, i in zip(objs, insts)])
    sc = scale_of(exp) or (scale_of(hb) / (MU0 if f in "HM" else 1.0)) or 1.0
    all_single = all(m == "single" for m in modes.values())
    n_eff = 1 if all_single else n
    trig = func_trigger(cls, modes)
    try:
        got, _ = functional_call(case, squeeze=False)
    except Exception as e:   # pylint: disable=broad-except
        return fail(trig[0], trig[1], f"get{f}('{cls}', ...) with n={n}, modes {modes} raised "
                                      f"{type(e).__name__}: {str(e)[:160]}")
    got = np.asarray(got)
    ok, w = same(got, exp[:n_eff], False, sc)
    if not ok and got.shape == exp[:n_eff].shape:
        # the two interfaces rotate the observer with differently shaped Rotation objects (last-bit differences of the
        # local observer); accept a difference that a few-ulp perturbation of the observer explains
        sens = np.array([ulp_sensitivity(o, i["observer"], f, io) for o, i in zip(objs, insts)])[:n_eff]
        if np.all(np.abs(got - exp[:n_eff]) <= 8 * sens[:, None] + 1e-12 * sc):
            ok = True
    if not ok:
        return fail(trig[0], trig[1], f"get{f}('{cls}', ...) with n={n}, modes {modes} differs from the object "
                                      f"interface on the same instances: {w}")
    got_s, _ = functional_call(case, squeeze=True)
    ok, w = same(got_s, np.squeeze(got), True, sc)
    if not ok:
        return fail(trig[0], trig[1] + ":squeeze", f"squeezed functional result: {w}")
    return None


def ulp_sensitivity(obj, observer, f, io=None):
    """largest change of the field under +-4 ulp perturbations of the observer coordinates"""
    o = np.array(observer, dtype=float)
    io = io or {}
    base = quiet(getX(f), obj, o, **io)
    # the rounding of `observers - position` and of the rotation acts on numbers of this size
    mag = max(float(np.max(np.abs(o))), float(np.max(np.abs(obj._position))), 1e-300)
    worst = 0.0
    for ax in range(3):
        for sgn in (-1.0, 1.0):
            p = o.copy()
            p[ax] += sgn * 4 * np.spacing(mag)
            worst = max(worst, float(np.max(np.abs(quiet(getX(f), obj, p, **io) - base))))
    return worst


def impl_rank_table(cls):
    from magpylib._src.utility import get_registered_sources
    name = "Polyline" if cls == "PolylineSeg" else cls
    return dict(get_registered_sources()[name]._field_func_kwargs_ndim)


_BASE_CACHE = {}


def translated_base_table():
    """the literal base rank table of getBH_dict_level2, read from the source under test by the translator"""
    import re
    if "t" not in _BASE_CACHE:
        try:
            from harness.common import REPO
            from translate import GENERATORS
            txt = GENERATORS["GenTables"](REPO)
            m = re.search(r"Definition dict_base_ndim .*?:= \[(.*?)\]\.", txt, flags=re.S)
            _BASE_CACHE["t"] = {k: int(v) for k, v in re.findall(r'\("(\w+)", \(?(-?\d+)\)?\)', m.group(1))}
        except Exception:   # pylint: disable=broad-except
            _BASE_CACHE["t"] = {}
    return _BASE_CACHE["t"]


def func_trigger(cls, modes):
    """clause/trigger of a failing functional call: a parameter whose rank entry in the implementation's table is not
    (documented single-instance rank + 1) is the trigger; otherwise the class and the mode pattern"""
    name = "Polyline" if cls == "PolylineSeg" else cls
    try:
        tab = impl_rank_table(cls)
    except Exception:   # pylint: disable=broad-except
        tab = {}
    spec = SPEC_RANK.get(name, {})
    base = translated_base_table()
    wrong_base = sorted(k for k, r in BASE_RANK.items() if k not in tab and base.get(k) is not None
                        and base.get(k) != r + 1)
    if wrong_base:
        return "rank-table", f"getBH_dict_level2.{wrong_base[0]}"
    wrong = sorted(k for k, r in spec.items() if tab.get(k, 1) != r + 1)
    used = [k for k in wrong if k in modes] or wrong
    if used:
        return "rank-table", f"{name}.{used[0]}"
    pat = ",".join(sorted(k for k, m in modes.items() if m != "single")) or "all-single"
    return "functional-differs", f"{name}:{pat}"


def shrink_functional(case):
    """fewer instances / fewer per-instance parameters while the case still fails"""
    def fails(c):
        try:
            return check_functional(c) is not None
        except Exception:   # pylint: disable=broad-except
            return False
    cur = case
    for k in list(cur["modes"]):
        if cur["modes"][k] != "single":
            c2 = dict(cur, modes=dict(cur["modes"], **{k: "single"}))
            insts = [dict(i, params=dict(i["params"])) for i in c2["instances"]]
            first = insts[0]
            for i in insts[1:]:
                if k == "position":
                    i["position"] = first["position"]
                elif k == "orientation":
                    i["rotvec"] = first["rotvec"]
                elif k == "observers":
                    i["observer"] = first["observer"]
                elif k == "mesh":
                    i["params"]["tm_vertices"] = first["params"]["tm_vertices"]
                    i["params"]["tm_faces"] = first["params"]["tm_faces"]
                else:
                    i["params"][k] = first["params"][k]
            c2["instances"] = insts
            if fails(c2):
                cur = c2
    while len(cur["instances"]) > 1:
        c2 = dict(cur, instances=cur["instances"][:-1], n=len(cur["instances"]) - 1)
        if any(m == "ragged" for m in c2["modes"].values()) and len(c2["instances"]) < 2:
            break
        if fails(c2):
            cur = c2
        else:
            break
    return cur


# ------------------------------------------------------------------ core functions
def cart_to_cyl(o):
    x, y, z = o.T
    return np.sqrt(x ** 2 + y ** 2), np.arctan2(y, x), z


def cyl_vec_to_cart(phi, vr, vphi, vz):
    return np.stack([vr * np.cos(phi) - vphi * np.sin(phi), vr * np.sin(phi) + vphi * np.cos(phi), vz], axis=1)


def gen_core_case(rng, cls, n=None, region=None):
    """n instances (1 .. 17) for one core function at one absolute length scale; every parameter region of the class
    (CylinderSegment: section < 360, just below 360 and == 360, r1 == 0 and > 0, thin shells, phi1 down to -360) and
    observers outside, close by, inside the material and (rings) in the bore"""
    n = n or rng.choice([1, 2, 3, 4, 17])
    L = rng.choice(SCALES)

    def pol():
        while True:
            v = exc_vec(rng)
            if any(v):
                return v
    insts = []
    for _ in range(n):
        reg = None
        if cls == "CylinderAxial":
            p = gen_params("Cylinder", rng, scale=L)
            p["polarization"] = [0.0, 0.0, rf(rng, 0.2, 1.0) * rng.choice([-1, 1])]
        elif cls == "CylinderDiametral":
            p = gen_params("Cylinder", rng, scale=L)
            p["polarization"] = rng.choice([[rf(rng, -1, 1), rf(rng, 0.2, 1.0), 0.0], [rf(rng, 0.2, 1.0), 0.0, 0.0],
                                            [0.0, -rf(rng, 0.2, 1.0), 0.0]])
        elif cls == "CylinderSegment":
            dim, reg = gen_segment_dim(rng, region)
            p = {"polarization": pol(), "dimension": [dim[0] * L, dim[1] * L, dim[2] * L, dim[3], dim[4]]}
        elif cls == "PolylineSeg":
            p = {"current": exc_current(rng), "segment_start": sc3(rvec(rng), L), "segment_end": sc3(rvec(rng), L)}
        else:
            p = gen_params(cls, rng, scale=L)
        ocl = {"CylinderAxial": "Cylinder", "CylinderDiametral": "Cylinder"}.get(cls, cls)
        kind = rng.choice(["far", "near", "inside", "bore"])
        if kind == "far":
            while True:
                o = rvec(rng, -3.5, 3.5)
                r = float(np.linalg.norm(o))
                if 2.0 <= r <= 4.5 and min(abs(x) for x in o) > 0.05:
                    break
            o = sc3(o, L)
        elif kind == "near" or ocl not in ("Cuboid", "Sphere", "Cylinder", "CylinderSegment"):
            while True:
                o = rvec(rng, -1.5, 1.5)
                if min(abs(x) for x in o) > 0.02:
                    break
            o = sc3(o, L)
        elif kind == "bore" and ocl == "CylinderSegment" and p["dimension"][0] > 0:
            r1, h = p["dimension"][0], p["dimension"][2]
            rr, a = r1 * rng.uniform(0.1, 0.85), rng.uniform(0.1, 6.2)
            o = [float(rr * np.cos(a)), float(rr * np.sin(a)), float(h * rng.uniform(-0.45, 0.45))]
        else:
            o = [float(x) for x in inner_point(ocl, p, rng, L)]
        insts.append({"params": p, "observer": o, "region": reg, "where": kind})
    return {"kind": "core", "cls": cls, "scale": L, "instances": insts}


def check_core(case):
    """magpylib.core.<fn> on the instances against getB/getH of the objects at the origin"""
    import magpylib.core as core
    cls, insts = case["cls"], case["instances"]
    ocl = {"CylinderAxial": "Cylinder", "CylinderDiametral": "Cylinder"}.get(cls, cls)
    objs = [make_obj(ocl, i["params"]) for i in insts]
    obs = np.array([i["observer"] for i in insts], dtype=float)
    B = np.array([quiet(magpy.getB, o, p) for o, p in zip(objs, obs)])
    H = np.array([quiet(magpy.getH, o, p) for o, p in zip(objs, obs)])
    P = {k: np.array([i["params"][k] for i in insts], dtype=float) for k in insts[0]["params"]
         if k not in ("tm_vertices", "tm_faces")}
    want, fn = "B", None
    if cls == "Cuboid":
        fn, got = "magnet_cuboid_Bfield", core.magnet_cuboid_Bfield(obs, P["dimension"], P["polarization"])
    elif cls == "Sphere":
        fn, got = "magnet_sphere_Bfield", core.magnet_sphere_Bfield(obs, P["diameter"], P["polarization"])
    elif cls == "Dipole":
        want, fn, got = "H", "dipole_Hfield", core.dipole_Hfield(obs, P["moment"])
    elif cls == "PolylineSeg":
        want, fn = "H", "current_polyline_Hfield"
        got = core.current_polyline_Hfield(obs, P["segment_start"], P["segment_end"], P["current"])
    elif cls == "Triangle":
        fn, got = "triangle_Bfield", core.triangle_Bfield(obs, P["vertices"], P["polarization"])
    elif cls == "Circle":
        want, fn = "H", "current_circle_Hfield"
        r, phi, z = cart_to_cyl(obs)
        hr, hphi, hz = core.current_circle_Hfield(P["diameter"] / 2, r, z, P["current"])
        got = cyl_vec_to_cart(phi, hr, hphi, hz)
    elif cls == "CylinderAxial":
        fn = "magnet_cylinder_axial_Bfield"
        r, phi, z = cart_to_cyl(obs)
        r0, z0 = P["dimension"][:, 0] / 2, P["dimension"][:, 1] / 2
        br, bphi, bz = core.magnet_cylinder_axial_Bfield(z0 / r0, r / r0, z / r0)
        got = cyl_vec_to_cart(phi, br, bphi, bz) * P["polarization"][:, 2:3]
    elif cls == "CylinderDiametral":
        want, fn = "H", "magnet_cylinder_diametral_Hfield"
        r, phi, z = cart_to_cyl(obs)
        r0, z0 = P["dimension"][:, 0] / 2, P["dimension"][:, 1] / 2
        px, py = P["polarization"][:, 0], P["polarization"][:, 1]
        hr, hphi, hz = core.magnet_cylinder_diametral_Hfield(z0 / r0, r / r0, z / r0, phi - np.arctan2(py, px))
        got = cyl_vec_to_cart(phi, hr, hphi, hz) * np.sqrt(px ** 2 + py ** 2)[:, None] / MU0
    elif cls == "CylinderSegment":
        want, fn = "H", "magnet_cylinder_segment_Hfield"
        r, phi, z = cart_to_cyl(obs)
        d = P["dimension"]
        dims = np.stack([d[:, 0], d[:, 1], np.deg2rad(d[:, 3]), np.deg2rad(d[:, 4]), -d[:, 2] / 2, d[:, 2] / 2], axis=1)
        pol = P["polarization"]
        mag = np.linalg.norm(pol, axis=1)
        mags = np.stack([mag / MU0, np.arctan2(pol[:, 1], pol[:, 0]), np.arccos(pol[:, 2] / mag)], axis=1)
        hc = core.magnet_cylinder_segment_Hfield(np.stack([r, phi, z], axis=1), dims, mags)   # (Hr, Hphi, Hz)
        got = cyl_vec_to_cart(phi, hc[:, 0], hc[:, 1], hc[:, 2])
    else:
        raise KeyError(cls)
    exp = B if want == "B" else H
    got = np.asarray(got, dtype=float)
    if got.shape != exp.shape:
        return fail("core-differs", fn, f"magpylib.core.{fn}: shape {got.shape} vs {exp.shape}")
    # per instance: the natural field scale (|J| resp. |J|/mu0 for magnets, the field itself otherwise); the harness
    # converts coordinates itself, so a difference explained by a few-ulp move of the observer is accepted as well.
    # A full-angle CylinderSegment is computed by the object interface with the Cylinder formulas (another
    # algorithm, elliptic integrals by iteration): agreement to 1e-7 of the scale there, 1e-10 elsewhere
    for i, inst in enumerate(insts):
        nat = scale_of(P["polarization"][i]) if "polarization" in P else 0.0
        sc = max(scale_of(B[i]), scale_of(H[i]) * MU0, nat) / (1.0 if want == "B" else MU0)
        rtol = 1e-7 if str(inst.get("region", "")).startswith("full") else 1e-10
        if cls == "Dipole":
            nat = 0.0
        d = float(np.max(np.abs(got[i] - exp[i])))
        if d <= rtol * sc:
            continue
        if d <= 64 * ulp_sensitivity(objs[i], inst["observer"], want):
            continue
        reg = f" [{inst['region']}]" if inst.get("region") else ""
        return fail("core-differs", fn + (":" + inst["region"] if inst.get("region") else ""),
                    f"magpylib.core.{fn} differs from get{want}(object){reg} at a point '{inst.get('where')}': "
                    f"max abs diff {d:.3e} at field scale {sc:.3e}")
    return None


CORE_FUNCTIONS = ["magnet_cuboid_Bfield", "magnet_cylinder_axial_Bfield", "magnet_cylinder_diametral_Hfield",
                  "magnet_cylinder_segment_Hfield", "magnet_sphere_Bfield", "current_circle_Hfield",
                  "current_polyline_Hfield", "dipole_Hfield", "triangle_Bfield"]
CORE_CLASSES = ["Cuboid", "Sphere", "Dipole", "PolylineSeg", "Triangle", "Circle", "CylinderAxial",
                "CylinderDiametral", "CylinderSegment"]


# ------------------------------------------------------------------ Collection role inference
def check_roles(case):
    """coll.getX(*inputs) picks sources/observers as documented (docstring of Collection.getB: inputs can only be
    observers if the collection contains only sources, only sources if it contains only sensors, none if it has both);
    the picked roles are compared by identity, the numbers with explicit top-level calls"""
    f = case["field"]
    gx = getX(f)
    from magpylib._src.exceptions import MagpylibBadUserInput
    srcs, sens = build_sources(case), build_sensors(case)
    ref = quiet(gx, srcs, sens, squeeze=False)
    sc = scale_of(ref) or 1.0
    L = len(srcs)
    tot = np.sum(ref, axis=0, keepdims=True)
    # only sources: inputs are observers (one input is passed bare, several as a tuple)
    s2, q2 = build_sources(case), build_sensors(case)
    csrc = magpy.Collection(*s2)
    roles = csrc._validate_getBH_inputs(*q2)
    if roles[0] is not csrc:
        return fail("role-inference", "sources-only", "a collection of sources did not select itself as source")
    obs = roles[1] if isinstance(roles[1], (tuple, list)) else [roles[1]]
    if len(obs) != len(q2) or any(a is not b for a, b in zip(obs, q2)):
        return fail("role-inference", "sources-only", "the inputs of a collection of sources are not the observers")
    ok, w = same(quiet(meth(csrc, f), *q2, squeeze=False), tot, False, sc * L)
    if not ok:
        return fail("role-inference", "sources-only", w)
    # only sensors: inputs are the sources
    s3, q3 = build_sources(case), build_sensors(case)
    csens = magpy.Collection(*q3)
    roles = csens._validate_getBH_inputs(*s3)
    if roles[1] is not csens:
        return fail("role-inference", "sensors-only", "a collection of sensors did not select itself as observer")
    if len(roles[0]) != len(s3) or any(a is not b for a, b in zip(roles[0], s3)):
        return fail("role-inference", "sensors-only", "the inputs of a collection of sensors are not the sources")
    ok, w = same(quiet(meth(csens, f), *s3, squeeze=False), ref, False, sc)
    if not ok:
        return fail("role-inference", "sensors-only", w)
    # mixed: takes both roles, inputs rejected
    s4, q4 = build_sources(case), build_sensors(case)
    cmix = magpy.Collection(*s4, *q4)
    roles = cmix._validate_getBH_inputs()
    if roles[0] is not cmix or roles[1] is not cmix:
        return fail("role-inference", "mixed", "a mixed collection did not select itself for both roles")
    try:
        quiet(meth(cmix, f), magpy.Sensor())
        return fail("role-inference", "mixed-accepts-inputs", "a mixed collection accepted getX inputs")
    except MagpylibBadUserInput:
        pass
    return None


def shrink_obj_case(case):
    """fewer sources / sensors / flags / paths / pixels while the same clause keeps failing"""
    first = run_case(case)
    if first is None:
        return case, None

    def still(c):
        try:
            r = run_case(c)
        except Exception:   # pylint: disable=broad-except
            return None
        return r if (r is not None and r["clause"] == first["clause"] and r["trigger"] == first["trigger"]) else None

    cur, res = case, first
    cands = [lambda c: dict(c, history=None) if c.get("history") else None,
             lambda c: dict(c, obs_positions=None) if c.get("obs_positions") is not None else None]
    for flag in ("sumup", "pixel_agg"):
        if cur.get(flag):
            cands.append(lambda c, flag=flag: dict(c, **{flag: None}))
    for _ in range(3):
        cands.append(lambda c: dict(c, sources=c["sources"][1:], history=None) if len(c["sources"]) > 1 else None)
        cands.append(lambda c: dict(c, sources=c["sources"][:-1]) if len(c["sources"]) > 1 else None)
        cands.append(lambda c: dict(c, sensors=c["sensors"][1:]) if len(c["sensors"]) > 1 else None)
        cands.append(lambda c: dict(c, sensors=c["sensors"][:-1]) if len(c["sensors"]) > 1 else None)

    def static(o):
        o = dict(o)
        if isinstance(o["position"][0], list):
            o["position"] = o["position"][0]
        if o["rotvec"] is not None and isinstance(o["rotvec"][0], list):
            o["rotvec"] = o["rotvec"][0]
        return o
    cands.append(lambda c: dict(c, sources=[static(o) for o in c["sources"]], sensors=[static(o) for o in c["sensors"]],
                                history=None))
    cands.append(lambda c: dict(c, sensors=[dict(o, pixel=None) for o in c["sensors"]]))
    cands.append(lambda c: dict(c, sensors=[dict(o, rotvec=None, handedness="right") for o in c["sensors"]]))
    cands.append(lambda c: dict(c, sources=[dict(o, rotvec=None) for o in c["sources"]]))
    for mk in cands:
        c2 = mk(cur)
        if c2 is None or c2 == cur:
            continue
        r2 = still(c2)
        if r2 is not None:
            cur, res = c2, r2
    return cur, res


CHECKS = {"object-forms": check_object_forms, "dataframe": check_dataframe, "functional": check_functional,
          "core": check_core, "roles": check_roles}


def from_magpylib(e):
    import traceback
    return any("/magpylib/" in fr.filename for fr in traceback.extract_tb(e.__traceback__))


def run_case(case):
    """None | failure dict; an exception of the implementation on a valid configuration is a failure too"""
    kind = case["kind"]
    try:
        return CHECKS[kind](case)
    except Exception as e:   # pylint: disable=broad-except
        if not from_magpylib(e):
            raise      # a bug of this harness, not of the implementation
        cl = case.get("cls") or "+".join(sorted({s["cls"] for s in case.get("sources", [])}))
        return fail("raises", f"{kind}:{cl}:{type(e).__name__}",
                    f"{kind} check on a valid configuration raised {type(e).__name__}: {str(e)[:200]}")
