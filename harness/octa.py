"""Exact geometry for correspondence checks: integer vectors and the 24 proper rotations of
the cube (signed permutation matrices), on which scipy's Rotation is exact up to ~2e-15."""
import itertools
import re

import numpy as np
from scipy.spatial.transform import Rotation as R

PERMS = [(0, 1, 2), (0, 2, 1), (1, 0, 2), (1, 2, 0), (2, 0, 1), (2, 1, 0)]
PNAMES = ["P012", "P021", "P102", "P120", "P201", "P210"]


def _mat(p, s):
    m = np.zeros((3, 3), dtype=int)
    for row in range(3):
        m[row, p[row]] = -1 if s[row] else 1
    return m


ALL48 = [(pi, s) for pi in range(6) for s in itertools.product((0, 1), repeat=3)]
ROTS = [(pi, s) for (pi, s) in ALL48 if round(np.linalg.det(_mat(PERMS[pi], s))) == 1]
ROT_MATS = [_mat(PERMS[pi], s) for (pi, s) in ROTS]
IDENT = next(i for i, m in enumerate(ROT_MATS) if (m == np.eye(3, dtype=int)).all())
assert len(ROTS) == 24


def rot(idx):
    """scipy Rotation from one index or a list of indices"""
    if idx is None:
        return None
    if isinstance(idx, (list, tuple)):
        return R.from_matrix(np.array([ROT_MATS[i] for i in idx], dtype=float))
    return R.from_matrix(np.array(ROT_MATS[idx], dtype=float))


def rot_index(matrix, tol=1e-9):
    m = np.asarray(matrix, dtype=float)
    r = np.rint(m)
    if np.abs(m - r).max() > tol:
        raise ValueError(f"rotation matrix not integral (residual {np.abs(m - r).max():.2e})")
    r = r.astype(int)
    for i, c in enumerate(ROT_MATS):
        if (c == r).all():
            return i
    raise ValueError(f"not a proper signed permutation: {r.tolist()}")


def ints(arr, tol=1e-9):
    a = np.asarray(arr, dtype=float)
    r = np.rint(a)
    if a.size and np.abs(a - r).max() > tol:
        raise ValueError(f"value not integral (residual {np.abs(a - r).max():.2e})")
    return r.astype(int).tolist()


# ---- Coq literals
def cz(n):
    return f"({int(n)})" if int(n) < 0 else str(int(n))


def cv(v):
    return "(" + ", ".join(cz(x) for x in v) + ")"


def coct(idx):
    pi, s = ROTS[idx]
    return "(mkOct %s %s %s %s)" % (PNAMES[pi], *("true" if b else "false" for b in s))


def clist(items):
    return "[" + "; ".join(items) + "]"


def copt(x, f):
    return "None" if x is None else f"(Some {f(x)})"


def parse_z_list(out):
    """parse the `= [a; b; ...] : list Z` that Eval vm_compute printed (possibly wrapped)"""
    m = re.search(r"=\s*(\[.*?\])\s*:\s*list", out, flags=re.S)
    if not m:
        return None
    return [int(x) for x in re.findall(r"-?\d+", m.group(1))]
