"""Exact correspondence of the list-level batch models (coq/Model/BatchModel.v, instantiated in
Model/BatchExec.v with the parameters translated into Gen/GenBatch.v) with the REAL
current_vertices_field, BHJM_magnet_trimesh, cel and cel_iter, run with their row-wise cores replaced
by integer stub functions (so that all arithmetic is exact and only the batch-level plumbing -- repeat /
reshape / split / sum, the equal-mesh grouping loop, the size switches -- is exercised)."""
import contextlib

import numpy as np

from harness import octa
from harness.octa import cz, cv, clist

import magpylib._src.fields.field_BH_polyline as m_poly
import magpylib._src.fields.field_BH_triangularmesh as m_tri
import magpylib._src.fields.special_cel as m_cel


@contextlib.contextmanager
def patched(mod, **repl):
    old = {k: getattr(mod, k) for k in repl}
    try:
        for k, v in repl.items():
            setattr(mod, k, v)
        yield
    finally:
        for k, v in old.items():
            setattr(mod, k, v)


# ------------------------------------------------------------------ stubs (same formulas as BatchExec.v)
def stub_polyline(field, observers, current, segment_start, segment_end):   # pylint: disable=unused-argument
    o, s, e = (np.asarray(x, dtype=float) for x in (observers, segment_start, segment_end))
    c = np.asarray(current, dtype=float)
    a = o @ np.array([1.0, 2.0, 3.0]) * c + 5 * s.sum(axis=1) + e @ np.array([2.0, -1.0, 3.0])
    return np.stack([a, a + (o * s).sum(axis=1), c - (e * o).sum(axis=1)], axis=1)


def stub_triangle(field, observers, vertices, polarization):   # pylint: disable=unused-argument
    o, p = np.asarray(observers, dtype=float), np.asarray(polarization, dtype=float)
    v = np.asarray(vertices, dtype=float)
    a, b, c = v[:, 0], v[:, 1], v[:, 2]
    t = (o * a).sum(axis=1) + 2 * (p * b).sum(axis=1) + c.sum(axis=1)
    return np.stack([t, t + (o * p).sum(axis=1), (a * c).sum(axis=1) - t], axis=1)


def stub_inside(points, faces):
    faces = np.asarray(faces, dtype=float)
    return (np.asarray(points, dtype=float).sum(axis=1) + faces[0, 0, 0] + len(faces)) % 2 == 0


def stub_scalar(x, *_):
    return x if x >= 100 else x + 100


def stub_celv(kc, *_):
    return np.asarray(kc, dtype=float) + 100


def stub_cel_iterv(qc, *_):
    qc = np.asarray(qc, dtype=float)
    while np.any(qc < 100):
        qc = qc + 100
    return qc


# ------------------------------------------------------------------ generators
def ivec(rng, lo=-3, hi=3):
    return [rng.randint(lo, hi) for _ in range(3)]


def stack_sets(sets):
    """what tile_group_property hands to the field function: a regular array when all sets have one
    shape, else a 1-D object array"""
    if len({len(s) for s in sets}) == 1:
        return np.array(sets, dtype=float)
    arr = np.empty(len(sets), dtype=object)
    for i, s in enumerate(sets):
        arr[i] = np.array(s, dtype=float)
    return arr


def g_cvf(rng):
    n = rng.randint(1, 6)
    same = rng.random() < 0.4
    n1 = rng.randint(2, 4)
    rows = []
    for _ in range(n):
        k = n1 if same else rng.randint(2, 5)
        rows.append({"obs": ivec(rng), "cur": rng.randint(-3, 3), "verts": [ivec(rng) for _ in range(k)]})
    return rows


def run_cvf(rows):
    with patched(m_poly, BHJM_current_polyline=stub_polyline):
        out = m_poly.current_vertices_field(
            field="B", observers=np.array([r["obs"] for r in rows], dtype=float),
            current=np.array([r["cur"] for r in rows], dtype=float), vertices=stack_sets([r["verts"] for r in rows]))
    return octa.ints(out)


def g_tm(rng):
    """rows as level 2 builds them: every source's (mesh, polarization) repeated for its observers;
    neighbouring sources sometimes share the mesh, sometimes only the face count"""
    rows = []
    prev = None
    for _ in range(rng.randint(1, 4)):
        x = rng.random()
        if prev is not None and x < 0.3:
            mesh = prev
        elif prev is not None and x < 0.5:
            mesh = [[ivec(rng) for _ in range(3)] for _ in prev]
        else:
            mesh = [[ivec(rng) for _ in range(3)] for _ in range(rng.randint(1, 4))]
        prev = mesh
        pol = ivec(rng)
        for _ in range(rng.randint(1, 3)):
            rows.append({"obs": ivec(rng), "pol": pol if rng.random() < 0.8 else ivec(rng), "mesh": mesh})
    return {"field": rng.choice(["B", "J"]), "rows": rows}


def run_tm(case):
    rows = case["rows"]
    with patched(m_tri, BHJM_triangle=stub_triangle, mask_inside_trimesh=stub_inside):
        out = m_tri.BHJM_magnet_trimesh(
            field=case["field"], observers=np.array([r["obs"] for r in rows], dtype=float),
            mesh=stack_sets([r["mesh"] for r in rows]), polarization=np.array([r["pol"] for r in rows], dtype=float),
            in_out="auto")
    return octa.ints(out)


def g_cel(rng, n=None):
    n = rng.randint(1, 22) if n is None else n
    return [rng.choice([rng.randint(0, 99), rng.randint(100, 199)]) for _ in range(n)]


def run_cel(ss, which):
    a = np.array(ss, dtype=float)
    with patched(m_cel, cel0=stub_scalar, celv=stub_celv, cel_iter0=stub_scalar, cel_iterv=stub_cel_iterv):
        out = m_cel.cel(a, a, a, a) if which == "cel" else m_cel.cel_iter(a, a, a, a, a, a, a)
    return octa.ints(out)


# ------------------------------------------------------------------ Coq text
def c_face(f):
    return "(" + ", ".join(cv(v) for v in f) + ")"


def c_case(kind, case, out):
    if kind == "cvf":
        rows = clist(["(%s, %s, %s)" % (cv(r["obs"]), cz(r["cur"]), clist([cv(v) for v in r["verts"]])) for r in case])
        return f"(BCvf {rows} {clist([cv(v) for v in out])})"
    if kind == "tm":
        rows = clist(["(%s, %s, %s)" % (cv(r["obs"]), cv(r["pol"]), clist([c_face(f) for f in r["mesh"]]))
                      for r in case["rows"]])
        return f"(BTm {0 if case['field'] == 'B' else 1}%nat {rows} {clist([cv(v) for v in out])})"
    name = "BCel" if kind == "cel" else "BCelIter"
    return f"({name} {clist([cz(x) for x in case])} {clist([cz(x) for x in out])})"


HEADER = """From Coq Require Import ZArith List Bool.
From MV Require Import Lib.ListZ Lib.OctZ Model.BatchModel Model.BatchExec.
Import ListNotations. Open Scope Z_scope.
"""


def run(ctx, n):
    """generate, run the real functions, evaluate the Coq models; returns the disagreeing (kind, case, impl)"""
    todo = []
    for _ in range(n):
        todo.append(("cvf", g_cvf(ctx.rng)))
        todo.append(("tm", g_tm(ctx.rng)))
    for k in range(0, 23):          # every batch size around both thresholds
        todo.append(("cel", g_cel(ctx.rng, k)))
        todo.append(("cel_iter", g_cel(ctx.rng, k)))
    for _ in range(n // 2):
        todo.append(("cel", g_cel(ctx.rng)))
        todo.append(("cel_iter", g_cel(ctx.rng)))
    done = []
    for kind, case in todo:
        if kind == "cvf":
            out = run_cvf(case)
        elif kind == "tm":
            out = run_tm(case)
        else:
            if not case:
                continue
            out = run_cel(case, kind)
        done.append((kind, case, out))
        ctx.bump("batch-corr:" + kind)
    bad = []
    for ci in range(0, len(done), 80):
        part = done[ci:ci + 80]
        txt = HEADER + "Definition cases : list bcase :=\n[" + ";\n ".join(c_case(*d) for d in part) + \
            "].\nEval vm_compute in (failing_b cases).\n"
        ok, outc = ctx.coq_eval(f"batch_{ctx.prop}_{ctx.tier}_{ci}", txt)
        res = octa.parse_z_list(outc) if ok else None
        if res is None:
            ctx.add_broken("broken-correspondence", "BatchExec evaluation", outc[-1500:])
            return None
        bad += [part[i] for i in res]
    ctx.count("batch_models_validated", len(done) - len(bad))
    return bad
