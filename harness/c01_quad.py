"""C01 -- first-principles reference fields by numerical quadrature (no closed forms of the
library are used here).

  currents : H(o) = I/(4 pi) * Int dl x (o - l) / |o - l|^3                 (Biot-Savart)
  magnets  : H(o) = 1/(4 pi mu0) * Sum_faces Int sigma (o - r') / |o - r'|^3 dA,  sigma = J.n
             B(o) = mu0 H(o) + J [o inside]                                   (Coulombian)
  dipole   : closed point-dipole formula

Everything is evaluated in the LOCAL frame of the source; `global_field` applies the pose
(o_local = R^-1 (o - p), F_global = R F_local) with plain matrices.

The integrals are computed by a vectorised adaptive Gauss-Legendre scheme on boxes of the
parameter domain (1-D for conductors, 2-D for faces): a cell is accepted when its n-point
rule agrees with the sum of the rules on its 2^dim children; cells that do not agree are
subdivided.  The scheme therefore refines geometrically towards the point of the surface
closest to the observer.  If the requested absolute accuracy is not reached within the
budget the result is flagged `ok=False` and the caller skips the point (counted as skipped).
"""
import numpy as np

MU0 = 1.25663706127e-06   # CODATA 2022 (scipy.constants.mu_0 of the environment); a relative
#                           change of 1e-9 of this value is far below every tolerance used

_GL = {}


def _gl(n):
    if n not in _GL:
        x, w = np.polynomial.legendre.leggauss(n)
        _GL[n] = (0.5 * (x + 1.0), 0.5 * w)      # on [0,1]
    return _GL[n]


def _rule(f, lo, hi, n):
    """GL n^dim rule on each box; lo, hi (k,dim) -> (k,3)"""
    k, dim = lo.shape
    x, w = _gl(n)
    if dim == 1:
        X = lo[:, None, :] + (hi - lo)[:, None, :] * x[None, :, None]           # (k,n,1)
        W = np.broadcast_to(w[None, :], (k, n)) * (hi - lo)[:, 0:1]
    else:
        gx, gy = np.meshgrid(x, x, indexing="ij")
        g = np.stack([gx.ravel(), gy.ravel()], axis=1)                          # (n*n,2)
        ww = (w[:, None] * w[None, :]).ravel()
        X = lo[:, None, :] + (hi - lo)[:, None, :] * g[None, :, :]              # (k,n*n,2)
        W = ww[None, :] * np.prod(hi - lo, axis=1)[:, None]
    m = X.shape[1]
    F = f(X.reshape(k * m, dim)).reshape(k, m, 3)
    return np.einsum("kmc,km->kc", F, W)


def _children(lo, hi):
    k, dim = lo.shape
    mid = 0.5 * (lo + hi)
    if dim == 1:
        return np.concatenate([lo, mid]), np.concatenate([mid, hi]), 2
    los, his = [], []
    for ix in (0, 1):
        for iy in (0, 1):
            l = lo.copy()
            h = mid.copy()
            if ix:
                l[:, 0], h[:, 0] = mid[:, 0], hi[:, 0]
            if iy:
                l[:, 1], h[:, 1] = mid[:, 1], hi[:, 1]
            los.append(l)
            his.append(h)
    return np.concatenate(los), np.concatenate(his), 4


def adaptive(f, lo, hi, tol, n=8, max_evals=3_000_000, max_rounds=60):
    """Integral of f over the union of boxes [lo_i, hi_i].  f maps (m,dim) -> (m,3).
    Returns (value(3,), error_estimate, ok, evals)."""
    lo = np.atleast_2d(np.asarray(lo, float))
    hi = np.atleast_2d(np.asarray(hi, float))
    dim = lo.shape[1]
    npts = n ** dim
    coarse = _rule(f, lo, hi, n)
    evals = len(lo) * npts
    total = np.zeros(3)
    err_acc = 0.0
    for _ in range(max_rounds):
        clo, chi, nc = _children(lo, hi)
        cval = _rule(f, clo, chi, n)
        evals += len(clo) * npts
        k = len(lo)
        fine = cval.reshape(nc, k, 3).sum(axis=0)
        err = np.abs(fine - coarse).max(axis=1)
        if err.sum() + err_acc <= tol:
            return total + fine.sum(axis=0), err.sum() + err_acc, True, evals
        bad = err > tol / (4.0 * k)
        good = ~bad
        total = total + fine[good].sum(axis=0)
        err_acc += err[good].sum()
        if not bad.any():
            return total, err_acc, err_acc <= tol, evals
        if evals > max_evals:
            return total + fine[bad].sum(axis=0), err_acc + err[bad].sum(), False, evals
        sel = np.tile(bad, nc)
        lo, hi, coarse = clo[sel], chi[sel], cval[sel]
    return total + coarse.sum(axis=0), np.inf, False, evals


# --------------------------------------------------------------------------- kernels
def _coulomb(o, rp, wsig):
    """wsig * (o - r') / |o - r'|^3 / (4 pi); rp (m,3), wsig (m,) = sigma * jacobian"""
    d = o[None, :] - rp
    r2 = np.einsum("ij,ij->i", d, d)
    return d * (wsig / (r2 * np.sqrt(r2)))[:, None] / (4 * np.pi)


def _biot(o, l, dl):
    """dl x (o - l) / |o - l|^3 / (4 pi)"""
    d = o[None, :] - l
    r2 = np.einsum("ij,ij->i", d, d)
    return np.cross(dl, d) / (r2 * np.sqrt(r2))[:, None] / (4 * np.pi)


# --------------------------------------------------------------------------- patches
class Patch:
    """one face: map from the unit square, with sigma*jacobian"""

    def __init__(self, fun):
        self.fun = fun          # U (m,2) -> (r' (m,3), sigma*jac (m,))


def tri_patch(A, B, C, sigma):
    A, B, C = (np.asarray(v, float) for v in (A, B, C))
    area2 = np.linalg.norm(np.cross(B - A, C - A))

    def fun(U):
        u, v = U[:, 0:1], U[:, 1:2]
        rp = A + u * (B - A) + u * v * (C - B)
        return rp, sigma * area2 * U[:, 0]
    return Patch(fun)


def rect_patch(P0, e1, e2, sigma):
    P0, e1, e2 = (np.asarray(v, float) for v in (P0, e1, e2))
    jac = np.linalg.norm(np.cross(e1, e2))

    def fun(U):
        rp = P0 + U[:, 0:1] * e1 + U[:, 1:2] * e2
        return rp, np.full(len(U), sigma * jac)
    return Patch(fun)


def disc_patch(r1, r2, p1, p2, z, sigma):
    """annular sector rho in [r1,r2], phi in [p1,p2] at height z, constant sigma"""
    def fun(U):
        rho = r1 + (r2 - r1) * U[:, 0]
        phi = p1 + (p2 - p1) * U[:, 1]
        rp = np.stack([rho * np.cos(phi), rho * np.sin(phi), np.full(len(U), z)], axis=1)
        return rp, sigma * rho * (r2 - r1) * (p2 - p1)
    return Patch(fun)


def hull_patch(R, p1, p2, z1, z2, J, sign):
    """cylinder wall of radius R, normal sign*e_r, sigma = J.n"""
    def fun(U):
        phi = p1 + (p2 - p1) * U[:, 0]
        z = z1 + (z2 - z1) * U[:, 1]
        c, s = np.cos(phi), np.sin(phi)
        rp = np.stack([R * c, R * s, z], axis=1)
        sig = sign * (J[0] * c + J[1] * s)
        return rp, sig * R * (p2 - p1) * (z2 - z1)
    return Patch(fun)


def sphere_patch(R, J, t1, t2, p1, p2):
    def fun(U):
        th = t1 + (t2 - t1) * U[:, 0]
        ph = p1 + (p2 - p1) * U[:, 1]
        st = np.sin(th)
        n = np.stack([st * np.cos(ph), st * np.sin(ph), np.cos(th)], axis=1)
        return R * n, (n @ J) * R * R * st * (t2 - t1) * (p2 - p1)
    return Patch(fun)


def surface_integral(patches, o, tol, max_evals=3_000_000):
    """Sum over patches of Int sigma (o-r')/|o-r'|^3 dA /(4 pi) (units of J)."""
    total, err, ok, evals = np.zeros(3), 0.0, True, 0
    tolp = tol / max(1, len(patches))
    for p in patches:
        def f(U, p=p):
            rp, w = p.fun(U)
            return _coulomb(o, rp, w)
        v, e, k, ne = adaptive(f, [[0.0, 0.0]], [[1.0, 1.0]], tolp, max_evals=max_evals)
        total, err, ok, evals = total + v, err + e, ok and k, evals + ne
    return total, err, ok, evals


# --------------------------------------------------------------------------- bodies (local frame)
def cuboid_patches(dim, J):
    a, b, c = np.abs(np.asarray(dim, float)) / 2
    P = []
    for s in (-1, 1):
        if J[0] != 0:
            P.append(rect_patch([s * a, -b, -c], [0, 2 * b, 0], [0, 0, 2 * c], s * J[0]))
        if J[1] != 0:
            P.append(rect_patch([-a, s * b, -c], [2 * a, 0, 0], [0, 0, 2 * c], s * J[1]))
        if J[2] != 0:
            P.append(rect_patch([-a, -b, s * c], [2 * a, 0, 0], [0, 2 * b, 0], s * J[2]))
    return P


def cylseg_patches(r1, r2, h, phi1, phi2, J, full=False):
    """angles in rad; full=True : closed ring/cylinder (no side planes)"""
    z1, z2 = -h / 2, h / 2
    P = []
    # split the angular range so that no patch spans more than a quarter turn
    nseg = max(1, int(np.ceil((phi2 - phi1) / (np.pi / 2) - 1e-12)))
    edges = np.linspace(phi1, phi2, nseg + 1)
    for p1, p2 in zip(edges[:-1], edges[1:]):
        if J[2] != 0:
            P.append(disc_patch(r1, r2, p1, p2, z2, J[2]))
            P.append(disc_patch(r1, r2, p1, p2, z1, -J[2]))
        if J[0] != 0 or J[1] != 0:
            P.append(hull_patch(r2, p1, p2, z1, z2, J, 1.0))
            if r1 > 0:
                P.append(hull_patch(r1, p1, p2, z1, z2, J, -1.0))
    if not full:
        for ph, sg in ((phi1, 1.0), (phi2, -1.0)):
            n = sg * np.array([np.sin(ph), -np.cos(ph), 0.0])
            sig = float(n @ J)
            if sig != 0:
                er = np.array([np.cos(ph), np.sin(ph), 0.0])
                P.append(rect_patch(r1 * er + [0, 0, z1], (r2 - r1) * er, [0, 0, h], sig))
    return P


def sphere_patches(d, J):
    R = abs(d) / 2
    P = []
    for t1, t2 in ((0, np.pi / 2), (np.pi / 2, np.pi)):
        for k in range(4):
            P.append(sphere_patch(R, np.asarray(J, float), t1, t2, k * np.pi / 2, (k + 1) * np.pi / 2))
    return P


def tri_normal(A, B, C):
    n = np.cross(np.asarray(B, float) - A, np.asarray(C, float) - A)
    return n / np.linalg.norm(n)


def mesh_patches(tris, J):
    """tris (k,3,3) with OUTWARD right-hand normals"""
    P = []
    for A, B, C in np.asarray(tris, float):
        sig = float(tri_normal(A, B, C) @ J)
        if sig != 0:
            P.append(tri_patch(A, B, C, sig))
    return P


# --------------------------------------------------------------------------- conductors
def circle_H(d, cur, o, tol):
    r0 = abs(d) / 2

    def f(U):
        phi = 2 * np.pi * U[:, 0]
        c, s = np.cos(phi), np.sin(phi)
        z0 = np.zeros_like(phi)
        l = np.stack([r0 * c, r0 * s, z0], axis=1)
        dl = np.stack([-r0 * s, r0 * c, z0], axis=1) * 2 * np.pi
        return cur * _biot(o, l, dl)
    lo = np.arange(4)[:, None] / 4.0
    return adaptive(f, lo, lo + 0.25, tol, n=10)


def polyline_H(vertices, cur, o, tol):
    V = np.asarray(vertices, float)
    total, err, ok, evals = np.zeros(3), 0.0, True, 0
    segs = [(p, q) for p, q in zip(V[:-1], V[1:]) if not np.all(p == q)]
    for p, q in segs:
        def f(U, p=p, q=q):
            l = p[None, :] + U[:, 0:1] * (q - p)[None, :]
            dl = np.broadcast_to(q - p, l.shape)
            return cur * _biot(o, l, dl)
        v, e, k, ne = adaptive(f, [[0.0]], [[1.0]], tol / len(segs), n=10)
        total, err, ok, evals = total + v, err + e, ok and k, evals + ne
    return total, err, ok, evals


def dipole_H(m, o):
    m, o = np.asarray(m, float), np.asarray(o, float)
    r = np.linalg.norm(o)
    return (3 * (m @ o) * o / r ** 5 - m / r ** 3) / (4 * np.pi)
