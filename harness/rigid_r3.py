"""Float correspondence between scipy's Rotation and coq/Lib/RigidR3.v (the physical instance
R^3 x SO(3) of the abstract rigid algebra).  The polynomial expressions of `quat_to_mat` and
`qmul` are READ OUT OF THE COQ FILE and evaluated on floats, so what is compared with scipy is
the text the theorems are about:  R.from_quat(q).as_matrix() = quat_to_mat q,  R1 * R2 = qmul,
R.apply = matrix * vector (act),  R.inv() = transpose (ginv),  M M^T = I, det M = 1."""
import os
import re

import numpy as np
from scipy.spatial.transform import Rotation as R

from harness.common import COQ


def _definition(text, name):
    m = re.search(r"Definition %s\b.*?:=\s*(.*?)\.\n" % name, text, flags=re.S)
    if not m:
        raise ValueError(f"definition {name} not found in Lib/RigidR3.v")
    return m.group(1)


def _split_top(s, sep):
    """split s at top-level occurrences of sep (a single character or whitespace class)"""
    out, depth, cur = [], 0, ""
    for ch in s:
        if ch == "(":
            depth += 1
        elif ch == ")":
            depth -= 1
        if depth == 0 and ((sep == " " and ch.isspace()) or ch == sep):
            if cur.strip():
                out.append(cur.strip())
            cur = ""
        else:
            cur += ch
    if cur.strip():
        out.append(cur.strip())
    return out


def load_coq_expressions():
    text = open(os.path.join(COQ, "Lib", "RigidR3.v")).read()
    body = _definition(text, "quat_to_mat")
    m = re.match(r"let '\(x, y, z, w\) := q in\s*mk3\s+(.*)$", body, flags=re.S)
    if not m:
        raise ValueError("quat_to_mat has not the expected shape `let '(x, y, z, w) := q in mk3 ...`")
    entries = _split_top(m.group(1), " ")
    if len(entries) != 9:
        raise ValueError(f"quat_to_mat: expected 9 matrix entries, found {len(entries)}")
    body = _definition(text, "qmul")
    m = re.match(r"let '\(px, py, pz, pw\) := p in let '\(qx, qy, qz, qw\) := q in\s*\((.*)\)\s*$", body, flags=re.S)
    if not m:
        raise ValueError("qmul has not the expected shape")
    comps = _split_top(m.group(1), ",")
    if len(comps) != 4:
        raise ValueError(f"qmul: expected 4 components, found {len(comps)}")
    ok = re.compile(r"^[\sxyzwpq0-9+\-*()]*$")
    for e in entries + comps:
        if not ok.match(e):
            raise ValueError(f"unexpected token in Coq expression: {e!r}")
    return entries, comps


def quat_to_mat(entries, q):
    env = dict(zip("xyzw", (float(v) for v in q)))
    return np.array([eval(e, {"__builtins__": {}}, env) for e in entries]).reshape(3, 3)   # pylint: disable=eval-used


def qmul(comps, p, q):
    env = dict(zip(("px", "py", "pz", "pw"), (float(v) for v in p)))
    env.update(zip(("qx", "qy", "qz", "qw"), (float(v) for v in q)))
    return np.array([eval(e, {"__builtins__": {}}, env) for e in comps])   # pylint: disable=eval-used


def check(ctx, n, rtol=1e-12):
    """returns the number of disagreements (each reported as broken-correspondence)"""
    try:
        entries, comps = load_coq_expressions()
    except Exception as e:   # pylint: disable=broad-except
        ctx.add_broken("broken-correspondence", "RigidR3.v quaternion front end", f"{type(e).__name__}: {e}")
        return 1
    rng, bad = ctx.rng, 0

    def close(a, b):
        return np.allclose(a, b, rtol=rtol, atol=rtol)

    for t in range(n):
        q1 = np.array([rng.gauss(0, 1) for _ in range(4)])
        q2 = np.array([rng.gauss(0, 1) for _ in range(4)])
        if t % 7 == 0:
            q1[rng.randrange(4)] = 0.0
        q1, q2 = q1 / np.linalg.norm(q1), q2 / np.linalg.norm(q2)
        v = np.array([rng.uniform(-3, 3) for _ in range(3)])
        r1, r2 = R.from_quat(q1), R.from_quat(q2)
        m1, m2 = quat_to_mat(entries, q1), quat_to_mat(entries, q2)
        qp = qmul(comps, q1, q2)
        sp = (r1 * r2).as_quat()
        what = None
        if not close(r1.as_matrix(), m1):
            what = "Rotation.as_matrix differs from quat_to_mat"
        elif not (close(sp, qp) or close(sp, -qp)):
            what = "Rotation.__mul__ differs from qmul (Hamilton product, scalar last)"
        elif not close((r1 * r2).as_matrix(), m1 @ m2):
            what = "matrix of the Rotation product differs from the matrix product (gmul)"
        elif not close(r1.apply(v), m1 @ v):
            what = "Rotation.apply differs from matrix * vector (act)"
        elif not close(r1.inv().as_matrix(), m1.T):
            what = "Rotation.inv differs from the transpose (ginv)"
        elif not (close(m1 @ m1.T, np.eye(3)) and abs(np.linalg.det(m1) - 1) < 1e-12):
            what = "quat_to_mat of a unit quaternion is not a proper rotation"
        ctx.case(("rigid-r3", t, tuple(np.round(q1, 6)), tuple(np.round(q2, 6))), True)
        ctx.bump("rigid-r3:scipy-vs-coq-expressions")
        if what:
            bad += 1
            if bad <= 3:
                ctx.add_broken("broken-correspondence", "RigidR3.v vs scipy Rotation",
                               f"{what}: q1={q1.tolist()} q2={q2.tolist()} v={v.tolist()}")
    ctx.count("rigid_r3_cases_agreeing_with_scipy", n - bad)
    return bad
