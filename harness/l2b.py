"""Helpers shared by the C03 (rigid covariance) and C05 (superposition) checks.

Exact part: cases of harness/level2.py (stub sources, integer positions, octahedral rotations)
extended by object TREES for the Coq flattening model and by API-level rigid motions.
Float part: random real magpylib sources, generic SO(3) rotations, oracles of the two properties."""
import math

import numpy as np
from scipy.spatial.transform import Rotation as R

import magpylib as magpy
from magpylib._src.exceptions import MagpylibBadUserInput
from magpylib._src.utility import format_obj_input, format_src_inputs

from harness import octa, level2
from harness.octa import cz, cv, coct, clist


# ====================================================================== exact cases
def run_real(srcs, observers, case, field="B"):
    f = field_fn(field)
    B = f(srcs, observers, squeeze=False, sumup=case["sumup"], pixel_agg=level2.AGG[case["agg"]])
    sh = B.shape
    return octa.ints(B.reshape(sh[0], sh[1], sh[2], -1, 3))


def api_move(objs, g, t):
    """the rigid motion of the global frame through the public API, every distinct object once"""
    seen = set()
    for o in objs:
        if id(o) in seen:
            continue
        seen.add(id(o))
        o.rotate(octa.rot(g), anchor=0)
        o.move(t)


def g_obs_sensor(rng):
    shape = rng.choice([(1,), (2,), (3,), (2, 2), (1, 3)])
    pix = np.array([rng.randint(-4, 4) for _ in range(int(np.prod(shape)) * 3)]).reshape(*shape, 3).tolist()
    return {"pos": [[0, 0, 0]], "ori": [octa.IDENT], "pixel": pix, "left": False}


def g_c03_case(rng):
    case = level2.g_case(rng, max_src=4, max_sens=3, maxlen=4)
    case["obs"] = rng.random() < 0.45
    if case["obs"]:
        case["sensors"] = [g_obs_sensor(rng)]
        case["agg"] = 0
    case["g"] = rng.choice([i for i in range(24) if i != octa.IDENT]) if rng.random() < 0.95 else octa.IDENT
    case["t"] = [rng.randint(-3, 3) for _ in range(3)]
    return case


def c03_impl(case, field="B"):
    """(output, output after the common motion) on the real implementation"""
    srcs, sens = level2.build(case)
    if case["obs"]:
        arr = np.array(case["sensors"][0]["pixel"], dtype=float)
        out0 = run_real(srcs, arr, case, field)
        api_move(srcs, case["g"], case["t"])
        arr1 = arr @ np.array(octa.ROT_MATS[case["g"]], dtype=float).T + np.array(case["t"], dtype=float)
        out1 = run_real(srcs, arr1, case, field)
    else:
        out0 = run_real(srcs, sens, case, field)
        api_move(srcs + sens, case["g"], case["t"])
        out1 = run_real(srcs, sens, case, field)
    return out0, out1


def c03_expected(case, out0):
    if not case["obs"]:
        return out0
    g = np.array(octa.ROT_MATS[case["g"]])
    return (np.array(out0) @ g.T).tolist()


def c_c03(case, out0, out1):
    return "(mkC03 %s %s %s %s %d%%nat %s %s %s %s)" % (
        coct(case["g"]), cv(case["t"]),
        clist([level2.c_src(s) for s in level2.resolve(case["sources"])]),
        clist([level2.c_sens(s) for s in level2.resolve(case["sensors"])]),
        case["agg"], "true" if case["sumup"] else "false", "true" if case["obs"] else "false",
        level2.c_out(out0), level2.c_out(out1))


HEADER = """From Coq Require Import ZArith List Bool.
From MV Require Import Lib.ListZ Lib.Rigid Lib.OctZ Model.Level2Model Model.Level2Flat Model.Level2Exec
  Model.Level2C03Exec Model.Level2C05Exec.
Import ListNotations. Open Scope Z_scope.
"""


def coq_failing(ctx, tag, typ, fn, items, chunk=50):
    """indices of the cases rejected by the executable Coq check `fn`; None if Coq itself failed"""
    bad = []
    for ci in range(0, len(items), chunk):
        part = items[ci:ci + chunk]
        txt = HEADER + f"Definition cases : list {typ} :=\n[" + ";\n ".join(part) + \
            f"].\nEval vm_compute in ({fn} cases).\n"
        ok, out = ctx.coq_eval(f"{tag}_{ci}", txt)
        res = octa.parse_z_list(out) if ok else None
        if res is None:
            ctx.add_broken("broken-correspondence", f"{tag}_{ci}", "model evaluation failed:\n" + out[-1500:])
            return None
        bad += [ci + i for i in res]
    return bad


# ---------------------------------------------------------------------- trees (C05)
def g_tree5(rng, depth, maxlen, uid):
    kids = []
    for _ in range(rng.randint(0 if rng.random() < 0.08 else 1, 3)):
        x = rng.random()
        if x < 0.25 and depth > 0:
            kids.append(g_tree5(rng, depth - 1, maxlen, uid))
        elif x < 0.4:
            kids.append({"sensor": level2.g_sensor(rng, maxlen)})
        else:
            kids.append(g_leaf5(rng, maxlen, uid))
    pos, ori = level2.g_path(rng, 2)
    return {"children": kids, "pos": pos, "ori": ori}


def g_leaf5(rng, maxlen, uid):
    l = level2.g_leaf(rng, maxlen)
    if l["key"] < 10:
        uid[0] += 1
        l["tag"] = [uid[0]] + l["tag"][1:]
    return l


def g_c05_case(rng, max_src=5):
    uid = [0]
    srcs = []
    for _ in range(rng.randint(1, max_src)):
        x = rng.random()
        if x < 0.08 and srcs:
            srcs.append({"dup": rng.randrange(len(srcs))})
        elif x < 0.55:
            srcs.append({"tree": g_tree5(rng, 2, 3, uid)})
        else:
            srcs.append({"leaf": g_leaf5(rng, 3, uid)})
    agg = rng.choice([0, 0, 0, 1, 2, 3])
    shape0 = rng.choice([None, (), (2,), (3,), (2, 2)])
    sens = [level2.g_sensor(rng, 3, shape="rand" if agg else shape0) for _ in range(rng.randint(1, 2))]
    return {"sources": srcs, "sensors": sens, "agg": agg, "sumup": rng.random() < 0.3}


def enum_c05_layouts(max_entries, max_size):
    """every list of <= max_entries entries, each a bare source (0) or a flat collection of 1..max_size leaves"""
    out = [[]]
    res = []
    for _ in range(max_entries):
        out = [l + [k] for l in out for k in range(0, max_size + 1)]
        res += out
    return res


def layout_case(layout, rng, sumup=False):
    uid = [0]
    srcs = []
    for k in layout:
        if k == 0:
            srcs.append({"leaf": g_leaf5(rng, 2, uid)})
        else:
            srcs.append({"tree": {"children": [g_leaf5(rng, 2, uid) for _ in range(k)], "pos": [[0, 0, 0]],
                                  "ori": [octa.IDENT]}})
    sens = [{"pos": [[1, -2, 3]], "ori": [rng.randrange(24)], "pixel": [[0, 0, 0], [1, 2, -1]], "left": False}]
    return {"sources": srcs, "sensors": sens, "agg": 0, "sumup": sumup}


def tree_leaves(t):
    out = []
    for c in t["children"]:
        if "children" in c:
            out += tree_leaves(c)
        elif "key" in c:
            out.append(c)
    return out


def c_node(s):
    if "tree" in s:
        return c_tree(s["tree"])
    return "(NSrc " + level2.c_leaf(s["leaf"]) + ")"


def c_tree(t):
    kids = []
    for c in t["children"]:
        if "children" in c:
            kids.append(c_tree(c))
        elif "sensor" in c:
            kids.append("(NSens " + level2.c_sens(c["sensor"]) + ")")
        else:
            kids.append("(NSrc " + level2.c_leaf(c) + ")")
    return "(NColl " + clist(kids) + ")"


def c05_impl(case, field="B"):
    """(output or None when rejected with MagpylibBadUserInput, ids of src_list, col_len per entry)"""
    srcs, sens = level2.build(case)
    try:
        out = run_real(srcs, sens, case, field)
    except MagpylibBadUserInput:
        return None, [], []
    ids = [int(s.tag[0]) if hasattr(s, "tag") else -1 for s in format_src_inputs(srcs)[1]]
    lens = [len(format_obj_input(s, allow="sources")) if isinstance(s, magpy.Collection) else 1 for s in srcs]
    return out, ids, lens


def c_c05(case, out, ids, lens):
    return "(mkC05 %s %s %d%%nat %s %s %s %s)" % (
        clist([c_node(s) for s in level2.resolve(case["sources"])]),
        clist([level2.c_sens(s) for s in level2.resolve(case["sensors"])]),
        case["agg"], "true" if case["sumup"] else "false",
        "None" if out is None else "(Some " + level2.c_out(out) + ")",
        clist([cz(i) for i in ids]), clist([cz(i) for i in lens]))


def layout_of(case):
    """'C2,B,C3': the shape of the source list (C<n> = collection with n leaves, B = bare)"""
    def has_sensor(t):
        return any("sensor" in c or ("children" in c and has_sensor(c)) for c in t["children"])
    out = []
    for s in level2.resolve(case["sources"]):
        out.append("C%d%s" % (len(tree_leaves(s["tree"])), "+S" if has_sensor(s["tree"]) else "") if "tree" in s else "B")
    return ",".join(out)


def c05_oracle(case, field="B"):
    """the property itself on an exact case: every entry = sum over its leaves of single-source,
    single-sensor calls (pixel aggregation applied after the sum); sumup = sum of the entries.
    Returns None or (clause, detail)."""
    srcs, sens = level2.build(case)
    try:
        got = run_real(srcs, sens, case, field)
    except MagpylibBadUserInput:
        return None
    except Exception as e:   # pylint: disable=broad-except
        return ("raises", f"valid source list raised {type(e).__name__}: {e}")
    plain = dict(case, sumup=False, agg=0)
    entries = level2.resolve(case["sources"])
    sensd = level2.resolve(case["sensors"])
    M = len(got[0])
    aggf = {0: None, 1: np.sum, 2: np.min, 3: np.max}[case["agg"]]
    exp = []
    for s in entries:
        leaves = tree_leaves(s["tree"]) if "tree" in s else [s["leaf"]]
        per_sensor = []
        for sd in sensd:
            tot = 0
            for l in leaves:
                one = np.array(run_real([level2.build_leaf(l)], [level2.build_sensor(sd)], plain, field), dtype=float)[0][:, 0]
                if one.shape[0] < M:      # shorter path: static afterwards
                    one = np.concatenate([one, np.repeat(one[-1:], M - one.shape[0], axis=0)])
                tot = tot + one
            if aggf is not None:
                tot = aggf(tot, axis=1, keepdims=True)
            per_sensor.append(tot)          # (M, pix, 3)
        exp.append([[np.rint(ps[m]).astype(int).tolist() for ps in per_sensor] for m in range(M)])
    if case["sumup"]:
        tot = [[(np.sum([np.array(e[m][k]) for e in exp], axis=0)).tolist() for k in range(len(sensd))] for m in range(M)]
        exp = [tot]
    if len(got) != len(exp):
        return ("one-entry", f"{len(got)} output entries for {len(exp)} expected")
    if got != exp:
        return ("sumup" if case["sumup"] else "collection-sum", "entry differs from the sum of its leaves' single-source fields")
    return None


# ====================================================================== real sources (float search)
def field_fn(field):
    return {"B": magpy.getB, "H": magpy.getH, "J": magpy.getJ, "M": magpy.getM}[field]


def call_field(entries, observers, field, how="top", sumup=False, pixel_agg=None):
    """the same computation through different public entry points (all with squeeze=False):
    top    magpy.getX(sources, observers);  method  the getX method of the single source / collection entry,
    or of the single sensor (sources as arguments) -- falls back to `top` where not applicable"""
    name = "get" + field
    if how == "method" and not sumup:
        mixed = isinstance(entries[0], magpy.Collection) and any(
            isinstance(o, magpy.Sensor) for o in entries[0].children_all)      # documented: rejected by collection.getX
        if len(entries) == 1 and not mixed:
            obs = observers if isinstance(observers, list) else [observers]
            return getattr(entries[0], name)(*obs, squeeze=False, pixel_agg=pixel_agg)
        if isinstance(observers, list) and len(observers) == 1 and isinstance(observers[0], magpy.Sensor):
            return getattr(observers[0], name)(*entries, squeeze=False, pixel_agg=pixel_agg)
    return field_fn(field)(entries, observers, squeeze=False, sumup=sumup, pixel_agg=pixel_agg)


def pick_field(rng):
    """mostly B and H (the property names them); J and M go through the same data flow"""
    return rng.choice(["B", "H", "B", "H", "B", "H", "J", "M"])


def rvec(rng, lo, hi):
    return [rng.uniform(lo, hi) for _ in range(3)]


def rnd_rot(rng, n=None):
    """rotations from the harness PRNG: mostly uniform on SO(3), some very close to the identity
    (angles 1e-7 .. 1e-2 rad) and some half turns -- the whole group, not only generic elements"""
    def one():
        x = rng.random()
        axis = np.array([rng.gauss(0, 1) for _ in range(3)])
        axis /= np.linalg.norm(axis)
        if x < 0.12:
            return R.from_rotvec(axis * 10.0 ** rng.uniform(-7, -2)).as_quat().tolist()
        if x < 0.17:
            return R.from_rotvec(axis * math.pi).as_quat().tolist()
        if x < 0.25:                      # exact quarter / half turns about a coordinate axis, and the identity
            return R.from_euler(rng.choice("xyz"), rng.choice([0, 90, -90, 180]), degrees=True).as_quat().tolist()
        q = [rng.gauss(0, 1) for _ in range(4)]
        return q
    if n is None:
        return R.from_quat(one())
    return R.from_quat([one() for _ in range(n)])


def exc_vec(rng):
    """polarization / moment: generic, exactly along a coordinate axis, with zero components, or zero"""
    x = rng.random()
    if x < 0.15:
        v = [0.0, 0.0, 0.0]
        v[rng.randrange(3)] = rng.choice([-1.0, 1.0]) * rng.choice([1.0, rng.uniform(0.1, 2)])
        return v
    if x < 0.25:
        v = rvec(rng, -1, 1)
        v[rng.randrange(3)] = 0.0
        return v
    if x < 0.28:
        return [0.0, 0.0, 0.0]
    if x < 0.36:                          # components that sum to exactly zero
        return rng.choice([[0.5, -0.5, 0.0], [0.25, 0.5, -0.75], [-1.0, 0.25, 0.75], [0.0, 0.125, -0.125]])
    return rvec(rng, -1, 1)


def exc_cur(rng):
    x = rng.random()
    if x < 0.06:
        return 0.0
    return rng.choice([-1, 1]) * rng.uniform(0.05, 2)


MESH_V = [(0.0, 0.0, 0.0), (1.1, 0.0, 0.2), (0.1, 0.9, 0.0), (0.2, 0.3, 1.2), (0.9, 0.8, 0.7)]


def real_source(rng, kind=None):
    """a source with asymmetric geometry and generic excitation; returns (object, kind)"""
    kinds = ["Cuboid", "Cylinder", "CylinderSegment", "Sphere", "Tetrahedron", "Triangle", "TriangularMesh",
             "Circle", "Polyline", "Dipole"]
    kind = kind or rng.choice(kinds)
    pol = exc_vec(rng)
    off = np.array(rvec(rng, -2, 2)) if rng.random() < 0.3 else np.zeros(3)    # body off its local origin
    if kind == "Cuboid":
        dim = [rng.uniform(0.3, 1.5) for _ in range(3)]
        if rng.random() < 0.3:            # strongly non-cubic, every axis can be the long one
            dim[rng.randrange(3)] *= rng.uniform(4, 10)
        s = magpy.magnet.Cuboid(polarization=pol, dimension=dim)
    elif kind == "Cylinder":
        s = magpy.magnet.Cylinder(polarization=pol, dimension=(rng.uniform(0.4, 1.5), rng.uniform(0.3, 1.5)))
    elif kind == "CylinderSegment":
        r1 = rng.choice([0.0, rng.uniform(0.1, 0.6), rng.uniform(0.1, 0.6)])          # solid or hollow
        dr = rng.choice([0.02, rng.uniform(0.2, 0.8), rng.uniform(0.2, 0.8)])         # thin shell or thick
        h = rng.choice([0.03, rng.uniform(0.3, 1.2), rng.uniform(0.3, 1.2)])
        p1 = rng.choice([rng.uniform(-170, 100), rng.uniform(-355, -185), rng.uniform(-170, 100)])
        span = rng.choice([rng.uniform(20, 200), rng.uniform(20, 200), rng.uniform(340, 359.5), 360.0])
        span = min(span, 360.0 - p1) if p1 + span > 360.0 else span
        s = magpy.magnet.CylinderSegment(polarization=pol, dimension=(r1, r1 + dr, h, p1, p1 + span))
    elif kind == "Sphere":
        s = magpy.magnet.Sphere(polarization=pol, diameter=rng.uniform(0.3, 1.5))
    elif kind == "Tetrahedron":
        s = magpy.magnet.Tetrahedron(polarization=pol, vertices=(np.array([rvec(rng, -0.8, 0.8) for _ in range(4)]) + off).tolist())
    elif kind == "Triangle":
        s = magpy.misc.Triangle(polarization=pol, vertices=(np.array([rvec(rng, -0.8, 0.8) for _ in range(3)]) + off).tolist())
    elif kind == "TriangularMesh":
        pts = np.array(MESH_V) * rng.uniform(0.5, 1.2) + np.array(rvec(rng, -0.2, 0.2)) + off
        s = magpy.magnet.TriangularMesh.from_ConvexHull(polarization=pol, points=pts)
    elif kind == "Circle":
        s = magpy.current.Circle(current=exc_cur(rng), diameter=rng.uniform(0.4, 1.6))
    elif kind == "Polyline":
        s = magpy.current.Polyline(current=exc_cur(rng),
                                   vertices=(np.array([rvec(rng, -0.8, 0.8) for _ in range(rng.randint(2, 5))]) + off).tolist())
    else:
        s = magpy.misc.Dipole(moment=exc_vec(rng))
    return s, kind


def inside_point(rng, s, kind):
    """a local point inside the body of a magnet (None for currents / dipole / open surfaces)"""
    j = np.array(rvec(rng, -0.03, 0.03))
    if kind in ("Cuboid", "Cylinder", "Sphere"):
        return j
    if kind in ("Tetrahedron", "TriangularMesh"):
        return np.asarray(s.vertices, dtype=float).reshape(-1, 3).mean(axis=0) + j
    if kind == "CylinderSegment":
        r1, r2, _h, p1, p2 = s.dimension
        ph = math.radians((p1 + p2) / 2)
        return np.array([(r1 + r2) / 2 * math.cos(ph), (r1 + r2) / 2 * math.sin(ph), 0.0]) + j
    return None


def rnd_pose(rng, obj, maxlen=4, spread=2.0):
    n = min(maxlen, rng.choice([1, 1, 2, 3, maxlen]))
    if n == 1:
        obj.position = rvec(rng, -spread, spread)
        obj.orientation = rnd_rot(rng)
    else:
        obj.position = [rvec(rng, -spread, spread) for _ in range(n)]
        obj.orientation = rnd_rot(rng, n)
    return n


def real_setup(rng, max_entries=3, kinds=None):
    """list of entries (bare sources / off-centre, possibly nested collections) + description"""
    entries, desc = [], []
    for _ in range(rng.randint(1, max_entries)):
        if rng.random() < 0.4:
            kids, kd = [], []
            for _ in range(rng.randint(1, 3)):
                s, k = real_source(rng, rng.choice(kinds) if kinds else None)
                rnd_pose(rng, s)
                kids.append(s)
                kd.append(k)
            if rng.random() < 0.3:
                s, k = real_source(rng, rng.choice(kinds) if kinds else None)
                rnd_pose(rng, s)
                kids.append(magpy.Collection(s, magpy.Sensor(position=rvec(rng, -1, 1))))
                kd.append("[" + k + "]")
            c = magpy.Collection(*kids)
            # the collection's own pose does not enter the field; give it a generic one
            c._position = np.array([rvec(rng, -1, 1)])
            c._orientation = rnd_rot(rng, 1)
            entries.append(c)
            desc.append("Collection[" + ",".join(kd) + "]")
        else:
            s, k = real_source(rng, rng.choice(kinds) if kinds else None)
            rnd_pose(rng, s)
            entries.append(s)
            desc.append(k)
    return entries, desc


def nested_setup(rng, maxlen=2):
    """ONE collection (static own pose) holding a source and a nested collection whose own position differs"""
    s1, k1 = real_source(rng)
    rnd_pose(rng, s1, maxlen=maxlen)
    s2, k2 = real_source(rng)
    rnd_pose(rng, s2, maxlen=maxlen)
    inner = magpy.Collection(s2)
    inner._position = np.array([rvec(rng, -1.5, 1.5)])
    inner._orientation = rnd_rot(rng, 1)
    outer = magpy.Collection(s1, inner)
    outer._position = np.array([rvec(rng, -1.5, 1.5)])
    outer._orientation = rnd_rot(rng, 1)
    return [outer], [f"Collection[{k1},[{k2}]]"]


def leaves_of(obj):
    if isinstance(obj, magpy.Collection):
        out = []
        for c in obj.children:
            out += leaves_of(c)
        return out
    if isinstance(obj, magpy.Sensor):
        return []
    return [obj]


def path_kind(objs):
    n = max(len(o._position) for o in objs)
    return "static" if n == 1 else "path"


def dump_obj(o):
    """JSON-able description for replay files"""
    d = {"class": type(o).__name__, "position": np.asarray(o._position).tolist(),
         "quat": o._orientation.as_quat().tolist()}
    if isinstance(o, magpy.Collection):
        d["children"] = [dump_obj(c) for c in o.children]
        return d
    for a in ("polarization", "dimension", "diameter", "vertices", "current", "moment", "pixel", "handedness"):
        if hasattr(o, a) and getattr(o, a) is not None:
            v = getattr(o, a)
            d[a] = np.asarray(v).tolist() if not isinstance(v, str) else v
    if type(o).__name__ == "TriangularMesh":
        d["faces"] = np.asarray(o.faces).tolist()
    return d


def scale_dump(d, k):
    """the same object description with every length multiplied by k (angles and excitations unchanged)"""
    d = dict(d)
    d["position"] = (np.array(d["position"], dtype=float) * k).tolist()
    if "children" in d:
        d["children"] = [scale_dump(c, k) for c in d["children"]]
    if "dimension" in d:
        dim = list(np.array(d["dimension"], dtype=float))
        d["dimension"] = [x * k for x in dim[:3]] + dim[3:] if len(dim) == 5 else [x * k for x in dim]
    for a in ("diameter", "vertices", "pixel"):
        if a in d:
            d[a] = (np.array(d[a], dtype=float) * k).tolist()
    return d


def load_obj(d):
    cls = d["class"]
    if cls == "Collection":
        o = magpy.Collection(*[load_obj(c) for c in d["children"]])
    elif cls == "Sensor":
        o = magpy.Sensor(pixel=d.get("pixel"), handedness=d.get("handedness", "right"))
    elif cls == "TriangularMesh":
        o = magpy.magnet.TriangularMesh(polarization=d["polarization"], vertices=d["vertices"], faces=d["faces"])
    else:
        ctor = {"Cuboid": magpy.magnet.Cuboid, "Cylinder": magpy.magnet.Cylinder,
                "CylinderSegment": magpy.magnet.CylinderSegment, "Sphere": magpy.magnet.Sphere,
                "Tetrahedron": magpy.magnet.Tetrahedron, "Triangle": magpy.misc.Triangle,
                "Circle": magpy.current.Circle, "Polyline": magpy.current.Polyline, "Dipole": magpy.misc.Dipole}[cls]
        kw = {k: d[k] for k in ("polarization", "dimension", "diameter", "vertices", "current", "moment") if k in d}
        o = ctor(**kw)
    o._position = np.array(d["position"], dtype=float)
    o._orientation = R.from_quat(np.array(d["quat"], dtype=float))
    return o


def rel_dev(a, b):
    """max deviation relative to the field scale of the pair"""
    a, b = np.asarray(a, dtype=float), np.asarray(b, dtype=float)
    if a.shape != b.shape:
        return math.inf
    scale = max(np.abs(a).max(), np.abs(b).max())
    if not np.isfinite(scale):
        return math.inf
    if scale == 0:
        return 0.0
    return float(np.abs(a - b).max() / scale)


# ---------------------------------------------------------------------- conditioning of one evaluation
PATTERNS = [np.array([1.0, -1.0, 1.0]), np.array([-1.0, 1.0, 1.0]), np.array([1.0, 1.0, -1.0]), np.array([-1.0, -1.0, -1.0])]


def perturb(d, p, scale=1.0):
    """the same object description with poses changed at rounding level (1e-14 of the length scale, 1e-15 rad)"""
    d = dict(d)
    d["position"] = (np.array(d["position"], dtype=float) + 1e-14 * scale * p).tolist()
    d["quat"] = (R.from_rotvec(1e-15 * p) * R.from_quat(np.array(d["quat"], dtype=float))).as_quat().tolist()
    if "children" in d:
        d["children"] = [perturb(c, p, scale) for c in d["children"]]
    return d


def noise_floor(dentries, dobs, field):
    """how much the implementation's own output moves (relative to the field scale) when poses and
    observers change at rounding level: the conditioning of this particular evaluation"""
    f = field_fn(field)

    k = dobs.get("scale", 1.0)

    def ev(p):
        entries = [load_obj(perturb(d, p, k)) for d in dentries]
        if dobs["kind"].startswith("array"):
            return f(entries, np.array(dobs["points"], dtype=float) + 1e-14 * k * p, squeeze=False)
        return f(entries, [load_obj(perturb(d, -p, k)) for d in dobs["sensors"]], squeeze=False)
    base = ev(np.zeros(3))
    return max(max(rel_dev(base[i], b[i]) for i in range(len(base))) for b in (ev(p) for p in PATTERNS))
