"""Implementation-level oracles for C06 / C04 on the REAL source classes (floats):
vectorised object-oriented evaluation vs element-by-element evaluation, and sensor semantics vs
explicit global positions.  Cases are JSON-able descriptions so that they can be shrunk and replayed.
"""
import numpy as np
from scipy.spatial.transform import Rotation as R

import magpylib as magpy

FIELDS = "BHJM"


# ------------------------------------------------------------------ descriptions -> objects
def _rot(rv):
    return R.from_rotvec(np.array(rv, dtype=float))


def build_leaf(d):
    a = d["args"]
    cls = d["cls"]
    pos = np.array(d["pos"], dtype=float)
    ori = _rot(d["rot"])
    if cls == "Cuboid":
        o = magpy.magnet.Cuboid(polarization=a["pol"], dimension=a["dim"])
    elif cls == "Cylinder":
        o = magpy.magnet.Cylinder(polarization=a["pol"], dimension=a["dim"])
    elif cls == "CylinderSegment":
        o = magpy.magnet.CylinderSegment(polarization=a["pol"], dimension=a["dim"])
    elif cls == "Sphere":
        o = magpy.magnet.Sphere(polarization=a["pol"], diameter=a["dia"])
    elif cls == "Tetrahedron":
        o = magpy.magnet.Tetrahedron(polarization=a["pol"], vertices=a["verts"])
    elif cls == "TriangularMesh":
        o = magpy.magnet.TriangularMesh.from_ConvexHull(polarization=a["pol"], points=a["points"])
    elif cls == "Triangle":
        o = magpy.misc.Triangle(polarization=a["pol"], vertices=a["verts"])
    elif cls == "Circle":
        o = magpy.current.Circle(current=a["cur"], diameter=a["dia"])
    elif cls == "Polyline":
        o = magpy.current.Polyline(current=a["cur"], vertices=a["verts"])
    elif cls == "Dipole":
        o = magpy.misc.Dipole(moment=a["mom"])
    else:
        raise ValueError(cls)
    o._position = pos.reshape(-1, 3)
    o._orientation = ori
    return o


def build_src(d):
    if "coll" in d:
        return magpy.Collection(*[build_src(x) for x in d["coll"]])     # nested collections allowed
    return build_leaf(d)


def build_sensor(d):
    s = magpy.Sensor(pixel=d["pixel"], handedness="left" if d.get("left") else "right")
    s._position = np.array(d["pos"], dtype=float).reshape(-1, 3)
    s._orientation = _rot(d["rot"])
    return s


def leaves_of(d):
    if "coll" not in d:
        return [d]
    return [y for x in d["coll"] for y in leaves_of(x)]     # depth-first, as format_obj_input flattens


def cls_of(d):
    return "Collection(" + ",".join(sorted({x["cls"] for x in leaves_of(d)})) + ")" if "coll" in d else d["cls"]


def clip(seq, m):
    return seq[min(m, len(seq) - 1)]


def freeze_leaf(d, m):
    return dict(d, pos=[clip(d["pos"], m)], rot=[clip(d["rot"], m)])


def freeze_src(d, m):
    if "coll" in d:
        return {"coll": [freeze_leaf(x, m) for x in leaves_of(d)]}
    return freeze_leaf(d, m)


def pix_flat(d):
    if d["pixel"] is None:
        return [[0.0, 0.0, 0.0]]
    return np.array(d["pixel"], dtype=float).reshape(-1, 3).tolist()


def freeze_sensor(d, m, p):
    return {"pos": [clip(d["pos"], m)], "rot": [clip(d["rot"], m)], "pixel": pix_flat(d)[p], "left": d.get("left")}


def path_len(case):
    return max([len(x["pos"]) for s in case["sources"] for x in leaves_of(s)] + [len(s["pos"]) for s in case["sensors"]])


def getF(field, srcs, sens, **kw):
    return getattr(magpy, "get" + field)(srcs, sens, **kw)


def run_batch(case, field, **kw):
    srcs = [build_src(s) for s in case["sources"]]
    sens = [build_sensor(s) for s in case["sensors"]]
    # duplicates: the same OBJECT several times
    for i, s in enumerate(case["sources"]):
        if "same_as" in s:
            srcs[i] = srcs[s["same_as"]]
    return np.asarray(getF(field, srcs, sens, **kw), dtype=float)


def run_single(case, field, l, m, k, p, **kw):
    src = build_src(freeze_src(case["sources"][l], m))
    sen = build_sensor(freeze_sensor(case["sensors"][k], m, p))
    return np.asarray(getF(field, src, sen, squeeze=True, **kw), dtype=float).reshape(3)


def same_vec(a, b, tol):
    """equal up to tol; nan == nan and equal infinities count as equal"""
    a, b = np.asarray(a, float), np.asarray(b, float)
    fin = np.isfinite(a) & np.isfinite(b)
    if not np.array_equal(np.isnan(a), np.isnan(b)):
        return False
    inf = np.isinf(a) | np.isinf(b)
    if np.any(inf) and not np.array_equal(a[inf], b[inf]):
        return False
    return bool(np.all(np.abs(a[fin] - b[fin]) <= tol))


RTOL = 1e-12
MU0 = 4e-7 * np.pi


def excitation_scale(src_desc, field):
    """natural field scale of a magnet: |J| (B, J) or |J|/mu0 (H, M).  The field of a magnet is a sum of
    O(|J|) face contributions; far from the body they cancel, so rounding differences between two
    evaluation orders are a few ulps of |J|, not of the (much smaller) net field"""
    pol = [max(abs(x) for x in d["args"]["pol"]) for d in leaves_of(src_desc) if "pol" in d["args"]]
    if not pol:
        return 0.0
    return max(pol) / (MU0 if field in "HM" else 1.0)


def rounding_sensitivity(case, field, l, m, k, p, one):
    """how much the isolated evaluation itself moves when the observer is moved by a few ulps: the
    vectorised call rounds `observer - position` and the rotations along other code paths, so a
    disagreement below this conditioning bound is rounding, not a dependence on the batch"""
    src = build_src(freeze_src(case["sources"][l], m))
    sd = freeze_sensor(case["sensors"][k], m, p)
    base = np.array(sd["pos"][0], dtype=float)
    spos = max(float(np.max(np.abs(np.array(x["pos"], dtype=float)))) for x in leaves_of(freeze_src(case["sources"][l], m)))
    mag = max(1e-300, spos, float(np.max(np.abs(base))), float(np.max(np.abs(np.array(sd["pixel"], dtype=float)))))
    dev = 0.0
    signs = [(1, 1, 1), (-1, 1, 1), (1, -1, 1), (1, 1, -1), (-1, -1, 1), (1, -1, -1), (-1, 1, -1), (-1, -1, -1)]
    for sg in signs:
        sen = build_sensor(dict(sd, pos=[(base + 4.5e-16 * mag * np.array(sg)).tolist()]))
        v = np.asarray(getF(field, src, sen, squeeze=True), dtype=float).reshape(3)
        fin = np.isfinite(v) & np.isfinite(one)
        if fin.any():
            dev = max(dev, float(np.max(np.abs(v[fin] - one[fin]))))
    return dev


def own_part_scale(case, field, l, m, k, p):
    """largest contribution of a PART of source l itself (a segment of a Polyline, a leaf of a
    Collection; for magnets the excitation scale |J| resp. |J|/mu0 bounds a face's contribution) to
    the isolated evaluation of this element.  Summation inside ONE source may lose digits relative to
    its own largest term; nothing of any OTHER source of the call enters this bound."""
    sd = freeze_sensor(case["sensors"][k], m, p)
    sen = build_sensor(sd)
    out = 0.0
    leaves = leaves_of(freeze_src(case["sources"][l], m))
    for d in leaves:
        out = max(out, excitation_scale(d, field))
        parts = []
        if d["cls"] == "Polyline":
            v = d["args"]["verts"]
            parts = [dict(d, args=dict(d["args"], verts=[v[i], v[i + 1]])) for i in range(len(v) - 1)]
        if len(leaves) > 1 or len(parts) > 1:
            for q in (parts if len(parts) > 1 else [d]):
                val = np.asarray(getF(field, build_leaf(q), sen, squeeze=True), dtype=float).reshape(3)
                fin = val[np.isfinite(val)]
                if fin.size:
                    out = max(out, float(np.max(np.abs(fin))))
    return out


def element_mismatches(case, field, limit=1, only=None, B=None, cache=None, kw=None):
    """[(l, m, k, p, batch, single)] where the vectorised result differs from the isolated call.
    The tolerance of an element is relative to the isolated value of THAT element (source l alone at
    that pixel); only when this fails, a floor from source l's own conditioning is added: its own
    largest part contribution and its measured sensitivity to a few-ulp move of the observer."""
    kw = kw or {}
    if B is None:
        B = run_batch(case, field, squeeze=False, **kw)
    L, M, K = B.shape[:3]
    B = B.reshape(L, M, K, -1, 3)
    out = []
    for l in range(L):
        for m in range(M):
            for k in range(K):
                for p in range(B.shape[3]):
                    if only is not None and (l, m, k, p) != only:
                        continue
                    if cache is not None and (l, m, k, p) in cache:
                        one = cache[(l, m, k, p)]
                    else:
                        one = run_single(case, field, l, m, k, p, **kw)
                        if cache is not None:
                            cache[(l, m, k, p)] = one
                    fin = one[np.isfinite(one)]
                    tol = RTOL * (float(np.max(np.abs(fin))) if fin.size else 0.0) + 1e-300
                    if same_vec(B[l, m, k, p], one, tol):
                        continue
                    tol += RTOL * own_part_scale(case, field, l, m, k, p)
                    if same_vec(B[l, m, k, p], one, tol):
                        continue
                    if same_vec(B[l, m, k, p], one, tol + 64 * rounding_sensitivity(case, field, l, m, k, p, one)):
                        continue
                    out.append((l, m, k, p, B[l, m, k, p].tolist(), one.tolist()))
                    if len(out) >= limit:
                        return out
    return out


def n_elements(case):
    return len(case["sources"]) * path_len(case) * sum(len(pix_flat(s)) for s in case["sensors"])


# ------------------------------------------------------------------ other public entry points and output modes
def _objs(case):
    srcs = [build_src(s) for s in case["sources"]]
    for i, s in enumerate(case["sources"]):
        if "same_as" in s:
            srcs[i] = srcs[s["same_as"]]
    return srcs, [build_sensor(s) for s in case["sensors"]]


def entry_variants(case, field, which):
    """(name, array shaped like the top-level squeeze=False result) obtained through other public entry
    points / observer formats / output modes; each must satisfy the same element property"""
    get = "get" + field
    L, M = len(case["sources"]), path_len(case)
    if which == "sensor-method":            # Sensor.getX(*sources) for every sensor
        srcs, sens = _objs(case)
        parts = [np.asarray(getattr(sn, get)(*srcs, squeeze=False), dtype=float) for sn in sens]
        Mk = [q.shape[1] for q in parts]
        parts = [q[:, [min(m, mk - 1) for m in range(M)]] for q, mk in zip(parts, Mk)]      # shorter path: last pose
        shapes = {q.shape[3:] for q in parts}
        if len(shapes) != 1:
            return None
        return np.concatenate(parts, axis=2)
    if which == "source-method":            # source.getX(*sensors) / collection.getX(*sensors) for every source
        srcs, sens = _objs(case)
        parts = []
        for sr in srcs:
            q = np.asarray(getattr(sr, get)(*sens, squeeze=False), dtype=float)
            parts.append(q[:, [min(m, q.shape[1] - 1) for m in range(M)]])
        return np.concatenate(parts, axis=0)
    if which == "observer-collection":      # observers given as (nested) Collection(s) of sensors
        srcs, sens = _objs(case)
        if len(sens) < 2:
            obs = magpy.Collection(sens[0])
        else:
            obs = [magpy.Collection(sens[0]), magpy.Collection(magpy.Collection(*sens[1:]))]
        return np.asarray(getF(field, srcs, obs, squeeze=False), dtype=float)
    if which == "dataframe":
        srcs, sens = _objs(case)
        ref = np.asarray(getF(field, srcs, sens, squeeze=False), dtype=float)
        df = getF(field, srcs, sens, squeeze=False, output="dataframe")
        return df[[field + c for c in "xyz"]].to_numpy(dtype=float).reshape(ref.shape)
    if which == "squeeze":
        srcs, sens = _objs(case)
        ref = np.asarray(getF(field, srcs, sens, squeeze=False), dtype=float)
        return np.asarray(getF(field, srcs, sens, squeeze=True), dtype=float).reshape(ref.shape)
    if which == "positions":                # static unrotated right-handed sensors as bare position arrays
        srcs, sens = _objs(case)
        if not all(len(sd["pos"]) == 1 and not sd.get("left") and np.allclose(sd["rot"], 0) for sd in case["sensors"]):
            return None
        obs = [(np.array(pix_flat(sd), dtype=float).reshape(np.shape(sd["pixel"]) if sd["pixel"] is not None else (3,))
                + np.array(sd["pos"][0], dtype=float)) for sd in case["sensors"]]
        obs = [o if i % 2 else o.tolist() for i, o in enumerate(obs)]            # ndarray and list inputs
        out = np.asarray(getF(field, srcs, obs if len(obs) > 1 else obs[0], squeeze=False), dtype=float)
        # equal-shape position arrays in one list are ONE pixel array (sensor axis of length 1): same order
        return out.reshape(L, out.shape[1], len(obs), -1, 3)
    raise ValueError(which)


ENTRY_KINDS = ["sensor-method", "source-method", "observer-collection", "dataframe", "squeeze", "positions"]


# ------------------------------------------------------------------ histories: call -> public mutation -> call
def history_mismatch(rng, case, field):
    """None or text: after public mutations of the objects (excitation, move, rotate, pixel, handedness,
    position, an intermediate call with a longer-path object, a rejected call) the next call must equal the
    call on freshly built twins of the mutated scene"""
    srcs, sens = _objs(case)
    getF(field, srcs, sens, squeeze=False)
    new = {"sources": [dict(x) for x in case["sources"]], "sensors": [dict(x) for x in case["sensors"]]}
    # intermediate call that tiles every path up, and a rejected call
    longer = magpy.Sensor(position=[(i, 0, 0) for i in range(path_len(case) + 2)], pixel=case["sensors"][0]["pixel"])
    getF(field, srcs, sens + [longer], squeeze=False)
    try:
        getF(field, srcs, sens, squeeze=False, pixel_agg="no_such_reduction")
    except Exception:   # pylint: disable=broad-except
        pass
    for i, d in enumerate(case["sources"]):
        if "coll" in d or "same_as" in d or any("same_as" in x and x["same_as"] == i for x in case["sources"]):
            continue
        a = dict(d["args"])
        if "pol" in a:
            a["pol"] = g_pol(rng)
            srcs[i].polarization = a["pol"]
        elif "cur" in a:
            a["cur"] = round(rng.uniform(-2, 2), 3)
            srcs[i].current = a["cur"]
        else:
            a["mom"] = g_pol(rng)
            srcs[i].moment = a["mom"]
        dsp = rvec(rng)
        srcs[i].move(dsp)
        new["sources"][i] = dict(d, args=a, pos=(np.array(d["pos"], dtype=float) + np.array(dsp)).tolist())
    for k, d in enumerate(case["sensors"]):
        n = len(pix_flat(d))
        pix = np.array([rvec(rng, -2, 2) for _ in range(n)]).reshape(np.shape(d["pixel"]) if d["pixel"] is not None else (3,)).tolist()
        sens[k].pixel = pix
        sens[k].handedness = "right" if d.get("left") else "left"
        pos = [rvec(rng, -3, 3) for _ in d["pos"]]
        sens[k].position = pos if len(pos) > 1 else pos[0]
        new["sensors"][k] = dict(d, pixel=pix, left=not d.get("left"), pos=pos)
    got = np.asarray(getF(field, srcs, sens, squeeze=False), dtype=float)
    exp = run_batch(new, field, squeeze=False)
    if got.shape != exp.shape:
        return f"shape {got.shape} after the history, {exp.shape} on fresh twins"
    L = got.shape[0]
    for l in range(L):
        sc = max(float(np.nanmax(np.abs(exp[l]))) if np.isfinite(exp[l]).any() else 0.0, excitation_scale(new["sources"][l], field))
        if not same_vec(got[l].ravel(), exp[l].ravel(), 1e-13 * sc + 1e-300):
            return f"source {l}: after the history {got[l].ravel()[:6].tolist()}.., fresh twins {exp[l].ravel()[:6].tolist()}.."
    return None


# ------------------------------------------------------------------ shrinking + signature
def element_fails(case, field, l, m, k, p):
    try:
        return bool(element_mismatches(case, field, only=(l, m, k, p)))
    except Exception:   # pylint: disable=broad-except
        return False


def shrink_element(case, field, l, m, k, p):
    """minimise the context of a failing element; returns (case', l', m', k', p', trigger)"""
    src, sen = case["sources"], case["sensors"]
    # 1. other sources
    alone = dict(case, sources=[src[l]])
    if "same_as" in src[l]:
        alone = dict(case, sources=[src[src[l]["same_as"]]])
    if not element_fails(alone, field, 0, m, k, p):
        keep = [l]
        others = [i for i in range(len(src)) if i != l and "same_as" not in src[i] and "same_as" not in src[l]]
        # smallest set of other sources that keeps the failure (greedy)
        cur = sorted(keep + others)
        for i in list(others):
            cand = [j for j in cur if j != i]
            c2 = dict(case, sources=[src[j] for j in cand])
            if element_fails(c2, field, cand.index(l), m, k, p):
                cur = cand
        c2 = dict(case, sources=[src[j] for j in cur]) if "same_as" not in src[l] else case
        ll = cur.index(l) if "same_as" not in src[l] else l
        return c2, ll, m, k, p, "other-sources"
    case = alone
    l = 0
    # 2. other observers (sensors, pixels)
    only = dict(case, sensors=[dict(sen[k], pixel=pix_flat(sen[k])[p])])
    if not element_fails(only, field, 0, m, 0, 0):
        flat = []   # (sensor index, pixel index)
        for ki, s in enumerate(sen):
            for pi in range(len(pix_flat(s))):
                flat.append((ki, pi))
        me = (k, p)
        cur = list(flat)

        def mk(pairs):
            # all remaining pixels as single-pixel copies of their sensors, `me` first
            pairs = [me] + [q for q in pairs if q != me]
            return dict(case, sensors=[dict(sen[a], pixel=pix_flat(sen[a])[b]) for a, b in pairs])
        if element_fails(mk(cur), field, 0, m, 0, 0):
            for q in list(flat):
                if q == me:
                    continue
                cand = [x for x in cur if x != q]
                if element_fails(mk(cand), field, 0, m, 0, 0):
                    cur = cand
            return mk(cur), 0, m, 0, 0, "other-observers"
        return case, 0, m, k, p, "other-observers"
    return only, 0, m, 0, 0, "path"


def point_kind(case, l, m, k, p):
    """where the observer lies relative to the source body (only for the signature)"""
    s = case["sources"][l]
    if "coll" in s:
        return "generic"
    sd = case["sensors"][k]
    Rk = _rot(clip(sd["rot"], m))
    o = Rk.apply(np.array(pix_flat(sd)[p])) + np.array(clip(sd["pos"], m))
    loc = _rot(clip(s["rot"], m)).inv().apply(o - np.array(clip(s["pos"], m)))
    a = s["args"]
    r = float(np.hypot(loc[0], loc[1]))
    cl = lambda x, y: abs(x - y) <= 1e-9 * max(abs(x), abs(y), 1e-300)   # noqa: E731
    if s["cls"] == "CylinderSegment":
        r1, r2, h, p1, p2 = a["dim"]
        phi = np.degrees(np.arctan2(loc[1], loc[0]))
        on = cl(r, r1) or cl(r, r2) or cl(abs(loc[2]), h / 2) or cl(phi, p1) or cl(phi, p2) or cl(phi + 360, p2)
        return "surface-point" if on else "generic"
    if s["cls"] == "Cylinder":
        d, h = a["dim"]
        if cl(r, 0):
            return "axis-point"
        return "surface-point" if (cl(r, d / 2) or cl(abs(loc[2]), h / 2)) else "generic"
    if s["cls"] == "Cuboid":
        return "surface-point" if any(cl(abs(loc[i]), a["dim"][i] / 2) for i in range(3)) else "generic"
    if s["cls"] == "Sphere":
        return "surface-point" if cl(float(np.linalg.norm(loc)), a["dia"] / 2) else "generic"
    if s["cls"] == "Circle":
        return "axis-point" if cl(r, 0) else "generic"
    return "generic"


def signature(case, field, l, m, k, p, trigger):
    return f"row-independent/{cls_of(case['sources'][l])}:{field}:{trigger}:{point_kind(case, l, m, k, p)}"


# ------------------------------------------------------------------ generators
def rvec(rng, lo=-1.0, hi=1.0):
    return [round(rng.uniform(lo, hi), 3) for _ in range(3)]


def g_pol(rng):
    if rng.random() < 0.25:        # exactly along +-x, +-y, +-z
        v = [0.0, 0.0, 0.0]
        v[rng.randrange(3)] = rng.choice([-1.0, 1.0, 0.5])
        return v
    return [round(rng.uniform(-1, 1), 3) for _ in range(3)]


SPECIAL_ROTVECS = [[np.pi, 0, 0], [0, np.pi, 0], [0, 0, np.pi], [np.pi / 2, 0, 0], [0, -np.pi / 2, 0], [0, 0, np.pi / 2],
                   [0, 0, -np.pi / 2], [2 * np.pi / 3 / np.sqrt(3)] * 3]


def g_rot(rng):
    x = rng.random()
    if x < 0.2:
        return [0.0, 0.0, 0.0]
    if x < 0.4:                    # 180-degree flips, quarter turns, the cube diagonal third-turn
        return [float(v) for v in rng.choice(SPECIAL_ROTVECS)]
    return rvec(rng, -2, 2)


def g_path(rng, maxlen, spread=3.0, plain=False):
    n = rng.choice([1, 1, 2, 3, maxlen])
    if plain:
        return [[float(rng.randint(-2, 2)) for _ in range(3)] for _ in range(n)], [[0.0, 0.0, 0.0]] * n
    return [rvec(rng, -spread, spread) for _ in range(n)], [g_rot(rng) for _ in range(n)]


CLASSES = ["Cuboid", "Cylinder", "CylinderSegment", "Sphere", "Tetrahedron", "TriangularMesh", "Triangle",
           "Circle", "Polyline", "Dipole"]


def g_args(rng, cls):
    if cls == "Cuboid":
        dim = [rng.choice([0.5, 1.0, 1.5, 2.0]) for _ in range(3)]
        if rng.random() < 0.3:      # plates and bars: every axis can be the long / the thin one
            dim[rng.randrange(3)] = rng.choice([0.05, 4.0])
        return {"pol": g_pol(rng), "dim": dim}
    if cls == "Cylinder":
        return {"pol": g_pol(rng), "dim": [rng.choice([0.1, 0.5, 1.0, 2.0]), rng.choice([0.1, 0.5, 1.0, 2.0, 5.0])]}
    if cls == "CylinderSegment":
        r1 = rng.choice([0.0, 0.5, 1.0])
        # sections with negative angles, phi1 < -180, spans near and equal to 360, thin shells
        p1, arc = rng.choice([(0.0, 60.0), (30.0, 90.0), (-45.0, 180.0), (0.0, 360.0), (-200.0, 359.5), (-360.0, 350.0),
                              (170.0, 190.0), (-270.0, 10.0), (-180.0, 360.0)])
        return {"pol": g_pol(rng), "dim": [r1, r1 + rng.choice([0.5, 1.0, 0.01]), rng.choice([0.5, 1.0, 2.0, 0.02]), p1, p1 + arc]}
    if cls == "Sphere":
        return {"pol": g_pol(rng), "dia": rng.choice([0.5, 1.0, 2.0])}
    if cls == "Tetrahedron":
        off = rvec(rng, -2, 2) if rng.random() < 0.5 else [0, 0, 0]        # body off its local origin
        v = [[0, 0, 0], [1, 0, 0], [0, 1, 0], rvec(rng, 0.2, 1.0)]
        if rng.random() < 0.5:       # both chiralities of the vertex order
            v[0], v[1] = v[1], v[0]
        return {"pol": g_pol(rng), "verts": [[round(q[i] + off[i], 4) for i in range(3)] for q in v]}
    if cls == "TriangularMesh":
        n = rng.choice([4, 5, 6, 8])
        pts = [[-0.5, -0.5, -0.5], [0.5, -0.5, -0.5], [0, 0.5, -0.5], [0, 0, 0.6]]
        pts += [rvec(rng, -0.8, 0.8) for _ in range(n - 4)]
        # bodies of different meshes must not overlap in their local frames (an observer inside one
        # is then outside the other): own size and own offset from the local origin
        sc, off = rng.choice([0.5, 1.0, 1.5]), rvec(rng, -2.0, 2.0)
        pts = [[round(sc * q[i] + off[i], 4) for i in range(3)] for q in pts]
        return {"pol": g_pol(rng), "points": pts}
    if cls == "Triangle":
        return {"pol": g_pol(rng), "verts": [rvec(rng), rvec(rng), rvec(rng)]}
    if cls == "Circle":
        return {"cur": rng.choice([round(rng.uniform(-2, 2), 3), -1.0, 0.0, 1.0]), "dia": rng.choice([0.5, 1.0, 2.0])}
    if cls == "Polyline":
        n = rng.choice([2, 2, 3, 4, 5])
        return {"cur": round(rng.uniform(-2, 2), 3), "verts": [rvec(rng) for _ in range(n)]}
    return {"mom": g_pol(rng)}


def g_leaf(rng, maxlen, cls=None, plain=False):
    cls = cls or rng.choice(CLASSES)
    pos, rot = g_path(rng, maxlen, plain=plain)
    return {"cls": cls, "args": g_args(rng, cls), "pos": pos, "rot": rot}


def inside_point(rng, leaf, m=0):
    """a global point inside (or, for currents, close to) the body of a leaf at path index m"""
    a, cls = leaf["args"], leaf["cls"]
    if cls == "Cuboid":
        loc = [rng.uniform(-0.4, 0.4) * d for d in a["dim"]]
    elif cls == "Cylinder":
        loc = [0.2 * a["dim"][0] * rng.uniform(-1, 1), 0.2 * a["dim"][0] * rng.uniform(-1, 1), 0.3 * a["dim"][1] * rng.uniform(-1, 1)]
    elif cls == "CylinderSegment":
        r1, r2, h, p1, p2 = a["dim"]
        rr, ph = (r1 + r2) / 2, np.radians((p1 + p2) / 2 + rng.uniform(-10, 10))
        loc = [rr * np.cos(ph), rr * np.sin(ph), 0.3 * h * rng.uniform(-1, 1)]
    elif cls == "Sphere":
        loc = [0.2 * a["dia"] * rng.uniform(-1, 1) for _ in range(3)]
    elif cls == "Tetrahedron":
        loc = (np.mean(np.array(a["verts"], dtype=float), axis=0) + 0.02 * np.array(rvec(rng))).tolist()
    elif cls == "TriangularMesh":
        loc = (np.mean(np.array(a["points"][:4], dtype=float), axis=0) + 0.05 * np.array(rvec(rng))).tolist()
    else:
        loc = [0.3 * x for x in rvec(rng)]
    g = _rot(clip(leaf["rot"], m)).apply(np.array(loc, dtype=float)) + np.array(clip(leaf["pos"], m), dtype=float)
    return [float(x) for x in g]


def special_points(leaf):
    """local points on the documented special sets of a body (surfaces, axis), for bodies in plain pose"""
    a, cls = leaf["args"], leaf["cls"]
    if cls == "CylinderSegment":
        r1, r2, h, p1, p2 = a["dim"]
        ph = np.radians((p1 + p2) / 2)
        pts = [[r2 * np.cos(ph), r2 * np.sin(ph), 0.1 * h], [(r1 + r2) / 2 * np.cos(ph), (r1 + r2) / 2 * np.sin(ph), h / 2]]
        if r1 > 0:
            pts.append([r1 * np.cos(ph), r1 * np.sin(ph), -0.1 * h])
        return pts
    if cls == "Cylinder":
        d, h = a["dim"]
        return [[0, 0, 0.1 * h], [0, 0, 2 * h], [d / 2, 0, 0.1 * h], [0.1 * d, 0, h / 2], [d / 2, 0, 1.5 * h], [0, d / 2, -h]]
    if cls == "Cuboid":
        x, y, z = a["dim"]
        return [[x / 2, 0.1 * y, 0.1 * z], [x / 2, y / 2, 0.1 * z], [0.1 * x, 0.1 * y, -z / 2]]
    if cls == "Sphere":
        return [[a["dia"] / 2, 0, 0], [0, 0, 0]]
    if cls == "Circle":
        return [[0, 0, 0], [0, 0, 1.5], [0.25 * a["dia"], 0, 0]]
    if cls == "Polyline":
        v = np.array(a["verts"], dtype=float)
        return [((v[0] + v[1]) / 2).tolist(), (v[0] + 2.5 * (v[1] - v[0])).tolist()]
    if cls == "Triangle":
        v = np.array(a["verts"], dtype=float)
        return [np.mean(v, axis=0).tolist(), ((v[0] + v[1]) / 2).tolist()]
    return [[0.3, 0.2, 0.1]]


def g_sensor(rng, maxlen, shape):
    pos, rot = g_path(rng, maxlen)
    kind = rng.random()
    if kind < 0.2:
        rot = [[0.0, 0.0, 0.0]] * len(pos)
    elif kind < 0.4:
        rot = [rot[0]] * len(pos)
    elif kind < 0.6:
        # almost static orientation: a wobble of a few milliradians along the path is still a rotating path
        rot = [[rot[0][i] + (rng.uniform(-3e-3, 3e-3) if j else 0.0) for i in range(3)] for j in range(len(pos))]
    if shape is None:
        pixel = None
    else:
        n = int(np.prod(shape)) if shape else 1
        pixel = np.array([rvec(rng, -2, 2) for _ in range(n)]).reshape(*shape, 3).tolist()
    return {"pos": pos, "rot": rot, "pixel": pixel, "left": rng.random() < 0.3}


def g_case(rng, max_src=4, max_sens=2, maxlen=3, one_class=False, mixed_shapes=False):
    """random call: sources (bare / collections / duplicates, optionally all of one class with
    different vertex / face counts), sensors, plus one probe sensor with pixels inside the bodies"""
    cls = rng.choice(["TriangularMesh", "Polyline", "Tetrahedron", "Triangle", "CylinderSegment", "Cylinder"]) if one_class else None
    srcs = []
    for _ in range(rng.randint(1, max_src)):
        x = rng.random()
        if x < 0.08 and srcs and "coll" not in srcs[-1]:
            srcs.append(dict(srcs[0], same_as=0) if "same_as" not in srcs[0] and "coll" not in srcs[0] else g_leaf(rng, maxlen, cls))
        elif x < 0.25:
            kids = [g_leaf(rng, maxlen, cls) for _ in range(rng.randint(1, 3))]
            if rng.random() < 0.4:      # nesting depth 2
                kids.insert(rng.randint(0, len(kids)), {"coll": [g_leaf(rng, maxlen, cls) for _ in range(rng.randint(1, 2))]})
            srcs.append({"coll": kids})
        else:
            srcs.append(g_leaf(rng, maxlen, cls))
    shape0 = rng.choice([None, (), (2,), (3,), (2, 2)])
    shapes = [None, (), (2,), (3,), (2, 2), (1, 3)]
    sens = [g_sensor(rng, maxlen, rng.choice(shapes) if mixed_shapes else shape0) for _ in range(rng.randint(1, max_sens))]
    # probe: static identity sensor whose pixels lie inside randomly chosen bodies (at path index 0 or last)
    if rng.random() < 0.7:
        leaves = [x for s in srcs for x in leaves_of(s)]
        n = 1 if shape0 in (None, ()) else int(np.prod(shape0))
        if mixed_shapes:
            n = rng.randint(1, 3)
        pts = [inside_point(rng, rng.choice(leaves), rng.choice([0, 5])) for _ in range(n)]
        if mixed_shapes or shape0 in (None, ()):
            pixel = pts if (mixed_shapes and n > 1) else pts[0]
        else:
            pixel = np.array(pts).reshape(*shape0, 3).tolist()
        sens.insert(rng.randint(0, len(sens)), {"pos": [[0.0, 0.0, 0.0]], "rot": [[0.0, 0.0, 0.0]], "pixel": pixel, "left": False})
    return {"sources": srcs, "sensors": sens}


def g_dynamic_case(rng, cls, ragged, strong_first):
    """sources of ONE class (one vectorised group, ragged or not) with field ratios of 1e6..1e12 at the
    observers: a strong source close to a pixel together with weak, distant ones, in either order --
    the weak source's element must still be ITS OWN field (no leakage through batch-level reductions)"""
    zero = [[0.0, 0.0, 0.0]]
    if cls == "Polyline":
        n_s = rng.choice([3, 4, 5])
        loop = [[0, 0, 0], [0.1, 0, 0], [0.1, 0.1, 0], [0, 0.1, 0], [0, 0, 0]][:n_s]
        strong = {"cls": cls, "args": {"cur": rng.choice([-1, 1]) * 10.0 ** rng.randint(3, 5), "verts": loop}, "pos": zero, "rot": zero}
        near = [0.05, rng.choice([1e-3, 2e-3, 1e-2]), rng.choice([0.0, 2e-3])]
        weak = []
        for _ in range(rng.randint(1, 2)):
            n_w = rng.choice([k for k in (2, 3, 4, 6) if k != n_s]) if ragged else n_s
            base = [rng.choice([-2.5, 2.0, 3.0]), rng.uniform(-1, 1), rng.uniform(-1, 1)]
            verts = [[round(base[i] + rng.uniform(-0.5, 0.5), 3) for i in range(3)] for _ in range(n_w)]
            weak.append({"cls": cls, "args": {"cur": rng.choice([-1, 1]) * 10.0 ** (-rng.randint(2, 4)), "verts": verts},
                         "pos": [rvec(rng, -0.2, 0.2) for _ in range(rng.choice([1, 1, 2]))], "rot": zero})
        for w in weak:
            w["rot"] = zero * len(w["pos"])
    else:   # TriangularMesh: different face counts are the ragged case
        def mesh(n, sc, off, pol):
            pts = [[-0.5, -0.5, -0.5], [0.5, -0.5, -0.5], [0, 0.5, -0.5], [0, 0, 0.6]] + [rvec(rng, -0.8, 0.8) for _ in range(n - 4)]
            return {"cls": cls, "args": {"pol": pol, "points": [[round(sc * q[i] + off[i], 4) for i in range(3)] for q in pts]},
                    "pos": zero, "rot": zero}
        n_s = rng.choice([4, 5, 6])
        big = 10.0 ** rng.randint(2, 4)
        strong = mesh(n_s, 0.2, [0.0, 0.0, 0.0], [round(big * x, 3) for x in g_pol(rng)])
        near = [0.0, 0.0, rng.choice([0.0, 0.13, 0.2])]      # inside / just above the strong body
        weak = []
        for _ in range(rng.randint(1, 2)):
            n_w = rng.choice([k for k in (4, 5, 6, 8) if k != n_s]) if ragged else n_s
            weak.append(mesh(n_w, 0.5, [rng.choice([-3.0, 3.0]), rng.uniform(-1, 1), rng.uniform(-1, 1)],
                             [x * 10.0 ** (-rng.randint(4, 6)) for x in g_pol(rng)]))
    srcs = [strong] + weak if strong_first else weak + [strong]
    pix = [near, rvec(rng, 0.3, 0.6)]
    return {"sources": srcs, "sensors": [{"pos": zero, "rot": zero, "pixel": pix, "left": False}]}


HETERO_CLASSES = ["CylinderSegment", "Cylinder", "Cuboid", "Sphere", "Polyline", "Circle", "Tetrahedron", "Triangle",
                  "TriangularMesh", "Dipole"]


def hetero_variants(rng, cls):
    """argument sets of one class, one per parameter REGION of that class's dispatch (section < 360 / full,
    solid / hollow; axial / transverse / zero polarization; zero-length segments; zero excitation ...)"""
    pol_kinds = [[0.0, 0.0, round(rng.uniform(0.2, 1), 3)], [round(rng.uniform(0.2, 1), 3), round(rng.uniform(-1, 1), 3), 0.0],
                 [0.0, 0.0, 0.0], g_pol(rng)]
    if cls == "CylinderSegment":
        out = []
        for arc in (rng.choice([60.0, 90.0, 200.0]), 360.0):
            for r1 in (0.0, rng.choice([0.3, 0.5])):
                p1 = rng.choice([0.0, -30.0, 45.0])
                out.append({"pol": g_pol(rng), "dim": [r1, r1 + rng.choice([0.5, 1.0]), rng.choice([0.5, 1.0, 2.0]), p1, p1 + arc]})
        return out
    if cls == "Cylinder":
        return [{"pol": q, "dim": [rng.choice([0.5, 1.0, 2.0]), rng.choice([0.5, 1.0, 2.0])]} for q in pol_kinds]
    if cls == "Cuboid":
        return [{"pol": q, "dim": [rng.choice([0.5, 1.0, 2.0]) for _ in range(3)]} for q in pol_kinds]
    if cls == "Sphere":
        return [{"pol": q, "dia": rng.choice([0.5, 1.0, 2.0])} for q in pol_kinds]
    if cls == "Polyline":
        a, b, c = rvec(rng), rvec(rng), rvec(rng)
        return [{"cur": 1.5, "verts": [a, b, c]}, {"cur": -0.7, "verts": [a, a, b]},          # zero-length first segment
                {"cur": 2.0, "verts": [b, c, c]}, {"cur": 0.0, "verts": [c, a, b]},            # zero-length last / zero current
                {"cur": 1.0, "verts": [a, b, b, c]}, {"cur": 1.0, "verts": [c, c]}]            # ragged; only a zero-length segment
    if cls == "Circle":
        return [{"cur": 1.2, "dia": 1.0}, {"cur": 0.0, "dia": 2.0}, {"cur": -2.0, "dia": 0.0}, {"cur": 0.5, "dia": 0.5}]
    if cls == "Tetrahedron":
        return [{"pol": q, "verts": [[0, 0, 0], [1, 0, 0], [0, 1, 0], rvec(rng, 0.2, 1.0)]} for q in pol_kinds]
    if cls == "Triangle":
        return [{"pol": q, "verts": [[0, 0, 0], [1, 0, 0], [round(rng.uniform(-1, 1), 3), round(rng.uniform(0.3, 1), 3), 0]]}
                for q in pol_kinds]            # the triangles lie in z = 0: axial = normal, transverse = in-plane polarization
    if cls == "TriangularMesh":
        return [dict(g_args(rng, cls), pol=q) for q in pol_kinds]
    return [{"mom": q} for q in pol_kinds]


def g_hetero_case(rng, cls):
    """one vectorised group whose rows fall into DIFFERENT parameter regions of the class's dispatch, so
    that every batch-level guard (np.any(mask), masked sub-batches) sees heterogeneous rows"""
    vs = hetero_variants(rng, cls)
    rng.shuffle(vs)
    vs = vs[:rng.randint(2, min(4, len(vs)))]
    srcs = []
    for a in vs:
        pos, rot = g_path(rng, 2)
        srcs.append({"cls": cls, "args": a, "pos": pos, "rot": rot})
    pts = [inside_point(rng, s, 0) for s in srcs if rng.random() < 0.7] + \
        [rvec(rng, -3, 3) for _ in range(rng.choice([1, 2, 2, 16]))]
    if rng.random() < 0.5:
        sens = [{"pos": [[0.0, 0.0, 0.0]], "rot": [[0.0, 0.0, 0.0]], "pixel": pts if len(pts) > 1 else pts[0], "left": False}]
    else:
        sens = [{"pos": [[0.0, 0.0, 0.0]], "rot": [[0.0, 0.0, 0.0]], "pixel": q, "left": False} for q in pts]
    return {"sources": srcs, "sensors": sens}


def _scale_leaf(d, s):
    a = dict(d["args"])
    if "dim" in a:
        a["dim"] = [x * s for x in a["dim"][:3]] + list(a["dim"][3:]) if d["cls"] == "CylinderSegment" else [x * s for x in a["dim"]]
    if "dia" in a:
        a["dia"] = a["dia"] * s
    for key in ("verts", "points"):
        if key in a:
            a[key] = (np.array(a[key], dtype=float) * s).tolist()
    return dict(d, args=a, pos=(np.array(d["pos"], dtype=float) * s).tolist())


def _scale_src(d, s):
    if "coll" in d:
        return {"coll": [_scale_src(x, s) for x in d["coll"]]}
    out = _scale_leaf(d, s)
    if "same_as" in d:
        out["same_as"] = d["same_as"]
    return out


def scale_case(case, s):
    """the same scene in another length unit: every length (dimensions, vertices, positions, pixels) times s"""
    sens = [dict(x, pos=(np.array(x["pos"], dtype=float) * s).tolist(),
                 pixel=None if x["pixel"] is None else (np.array(x["pixel"], dtype=float) * s).tolist()) for x in case["sensors"]]
    return dict(case, sources=[_scale_src(x, s) for x in case["sources"]], sensors=sens)


LENGTH_SCALES = [1e-3, 1e-6, 1e3]


SPECIAL_CLASSES = ["CylinderSegment", "Cylinder", "Cuboid", "Sphere", "Circle", "Polyline", "Triangle"]


def g_special_case(rng, cls=None, mixed=True, scale=1.0, full=False):
    """one body in a plain pose (integer position, no rotation), observers on its special sets --
    alone or (mixed) together with generic ones -- as single-pixel sensors or as one pixel array"""
    cls = cls or rng.choice(SPECIAL_CLASSES)
    leaf = g_leaf(rng, 1, cls, plain=True)
    leaf["pos"], leaf["rot"] = [leaf["pos"][0]], [[0.0, 0.0, 0.0]]
    if scale != 1.0:
        leaf = _scale_leaf(leaf, scale)     # the special points are computed from the scaled dimensions
    sp = [(np.array(q, dtype=float) + np.array(leaf["pos"][0])).tolist() for q in special_points(leaf)]
    rng.shuffle(sp)
    pts = sp if full else sp[:rng.randint(1, len(sp))]
    if full:        # every special point of the body in one call of >= 16 rows (above the size switches of cel / el3)
        pts = pts + [[scale * x for x in rvec(rng, -3, 3)] for _ in range(16)]
    elif mixed:
        pts += [[scale * x for x in rvec(rng, -3, 3)] for _ in range(rng.choice([1, 2, 2, 12, 16]))]
    rng.shuffle(pts)
    if rng.random() < 0.5:
        sens = [{"pos": [[0.0, 0.0, 0.0]], "rot": [[0.0, 0.0, 0.0]], "pixel": pts, "left": False}]
    else:
        sens = [{"pos": [[0.0, 0.0, 0.0]], "rot": [[0.0, 0.0, 0.0]], "pixel": q, "left": False} for q in pts]
    srcs = [leaf]
    if rng.random() < 0.3:
        other = g_leaf(rng, 1, cls, plain=True)
        srcs.append(_scale_leaf(other, scale) if scale != 1.0 else other)
    return {"sources": srcs, "sensors": sens}


def g_interleaved_case(rng):
    """>= 6 sources of three classes in the order A B C A B C (A): the permutation that sorts them into
    their vectorised groups is not an involution"""
    cl = rng.sample(CLASSES, 3)
    srcs = [g_leaf(rng, 3, cl[i % 3]) for i in range(rng.choice([6, 7]))]
    sens = [g_sensor(rng, 3, (2,)) for _ in range(rng.randint(1, 2))]
    return {"sources": srcs, "sensors": sens}


# ------------------------------------------------------------------ C04: sensors vs explicit positions
AGGS = ["sum", "mean", "min", "max", "median", "std", "var", "ptp"]


def sensor_reference(case, field, agg=None):
    """expected (L, M, K, npix|1, 3): global field at the pixels' global positions, rotated into the
    sensor's axes by hand, x flipped for left-handed sensors, reduced per sensor"""
    srcs = [build_src(s) for s in case["sources"]]
    M = path_len(case)
    Ms = max(len(x["pos"]) for s in case["sources"] for x in leaves_of(s))
    out = []
    for sd in case["sensors"]:
        pix = np.array(pix_flat(sd), dtype=float)
        per_m = []
        for m in range(M):
            Rk = _rot(clip(sd["rot"], m))
            pts = Rk.apply(pix) + np.array(clip(sd["pos"], m), dtype=float)
            Bg = np.asarray(getF(field, srcs, pts, squeeze=False), dtype=float)     # (L, Ms, 1, n, 3)
            Bg = Bg.reshape(len(srcs), Ms, -1, 3)[:, min(m, Ms - 1)]                # (L, n, 3)
            loc = np.stack([Rk.inv().apply(Bg[l]) for l in range(len(srcs))])
            if sd.get("left"):
                loc = loc * np.array([-1.0, 1.0, 1.0])
            if agg is not None:
                loc = getattr(np, agg)(loc, axis=1, keepdims=True)
            per_m.append(loc)
        out.append(np.stack(per_m, axis=1))     # (L, M, n|1, 3)
    return out


def agg_scale(agg, vals):
    v = vals[np.isfinite(vals)]
    s = float(np.max(np.abs(v))) if v.size else 0.0
    n = max(1, vals.shape[-2])
    return {"sum": n * s, "var": s * s}.get(agg, s)


def reference_sensitivity(case, field, agg, ref):
    """per sensor and source: how much the hand-made reference itself moves when every sensor position
    is moved by a few ulps (rounding sensitivity of the cores at these observers, e.g. strong
    cancellation far from a Tetrahedron / TriangularMesh); below this bound a disagreement is rounding"""
    dev = [np.zeros(r.shape[0]) for r in ref]
    for sg in [(1, 1, 1), (-1, 1, -1), (1, -1, -1), (-1, -1, 1)]:
        sens = []
        for sd in case["sensors"]:
            pos = np.array(sd["pos"], dtype=float)
            mag = max(1.0, float(np.max(np.abs(pos))), float(np.max(np.abs(np.array(pix_flat(sd))))))
            sens.append(dict(sd, pos=(pos + 4.5e-16 * mag * np.array(sg)).tolist()))
        r2 = sensor_reference(dict(case, sensors=sens), field, agg)
        for k, (a, b) in enumerate(zip(ref, r2)):
            d = np.abs(a - b)
            d[~np.isfinite(d)] = 0.0
            dev[k] = np.maximum(dev[k], d.reshape(d.shape[0], -1).max(axis=1))
    return dev


def sensor_mismatch(case, field, agg=None):
    """None or (l, m, k, what) where getX(sources, sensors[, pixel_agg]) differs from the reference"""
    mm = _sensor_mismatch(case, field, agg, None)
    if mm is None or not isinstance(mm[3], str) or not mm[3].startswith("got "):
        return mm
    ref = sensor_reference(case, field, agg)
    return _sensor_mismatch(case, field, agg, reference_sensitivity(case, field, agg, ref))


def _sensor_mismatch(case, field, agg, slack):
    B = run_batch(case, field, squeeze=False, pixel_agg=agg)
    ref = sensor_reference(case, field, agg)
    raw = sensor_reference(case, field, None) if agg else ref
    L, M, K = B.shape[:3]
    if K != len(ref):
        return (0, 0, 0, f"result has {K} sensors, expected {len(ref)}")
    for k in range(K):
        got = B[:, :, k].reshape(L, M, -1, 3)
        if got.shape != ref[k].shape:
            return (0, 0, k, f"shape {got.shape} vs expected {ref[k].shape}")
        for l in range(L):
            exc = excitation_scale(case["sources"][l], field)
            exc = {"sum": raw[k].shape[-2] * exc, "var": exc * exc}.get(agg, exc)
            tol = 1e-11 * max(agg_scale(agg, raw[k][l]), exc) + 1e-300 + (64 * slack[k][l] if slack is not None else 0.0)
            for m in range(M):
                if not same_vec(got[l, m], ref[k][l, m], tol):
                    return (l, m, k, f"got {got[l, m].tolist()} expected {ref[k][l, m].tolist()}")
    return None
