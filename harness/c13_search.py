"""C13 -- implementation-level oracle: a body gives the same field however it is represented or subdivided.

Every case is a JSON-able dict {"family", "params", "pose", "obs", ...}; `evaluate(case)` rebuilds the objects from
the dict alone (so a replay file is self-contained) and returns a list of failures
(clause, trigger, relative error, detail).  Observers are generated in the LOCAL frame of the body, with a
margin to every surface and cut plane, and are moved with the pose.

Tolerances are relative to the field scale |J| (B, J) resp. |J|/mu0 (H, M) of the body and to the local field.
"""
import math

import numpy as np
from scipy.spatial.transform import Rotation as R

import magpylib as magpy

MU0 = magpy.mu_0
FIELDS = ("B", "H", "J", "M")
MODES = ["sumup", "sumup", "collection", "collection", "loop", "loop", "nested", "decoy1e3", "decoy1e6", "decoy1e9"]
GET = {"B": magpy.getB, "H": magpy.getH, "J": magpy.getJ, "M": magpy.getM}


# ------------------------------------------------------------------ helpers
def rnd(rng, a, b, nd=4):
    return round(rng.uniform(a, b), nd)


def gen_pol(rng):
    k = rng.random()
    if k < 0.02:
        return [0.0, 0.0, 0.0]          # the null-polarization special case of every wrapper: all fields exactly 0
    if k < 0.15:
        v = [0.0, 0.0, 0.0]
        v[rng.randrange(3)] = rnd(rng, 0.2, 1.5) * rng.choice([-1, 1])
        return v
    if k < 0.25:
        v = [rnd(rng, -1.5, 1.5) for _ in range(3)]
        v[rng.randrange(3)] = 0.0
        if not any(v):
            v[0] = 0.7
        return v
    v = [rnd(rng, -1.5, 1.5) for _ in range(3)]
    if max(abs(x) for x in v) < 0.05:
        v[2] = 0.9
    return v


def gen_pose(rng):
    k = rng.random()
    if k < 0.15:
        return {"pos": [0.0, 0.0, 0.0], "rotvec": [0.0, 0.0, 0.0]}
    pos = [rnd(rng, -2, 2) for _ in range(3)]
    if k < 0.3:
        ax = [0.0, 0.0, 0.0]
        ax[rng.randrange(3)] = rng.choice([90, 180, 270, 45, -30]) * math.pi / 180
        return {"pos": pos, "rotvec": ax}
    return {"pos": pos, "rotvec": [rnd(rng, -2.5, 2.5) for _ in range(3)]}


def pose_rot(pose):
    return R.from_rotvec(np.array(pose["rotvec"], dtype=float))


def to_global(pose, pts):
    pts = np.atleast_2d(np.array(pts, dtype=float))
    return pose_rot(pose).apply(pts) + np.array(pose["pos"], dtype=float)


def place(pose, local_offset):
    """pose kwargs of a part that sits at local_offset (unrotated) inside the body frame"""
    rot = pose_rot(pose)
    return {"position": rot.apply(np.array(local_offset, dtype=float)) + np.array(pose["pos"], dtype=float),
            "orientation": rot}


def whole_pose(pose):
    return {"position": np.array(pose["pos"], dtype=float), "orientation": pose_rot(pose)}


def cuts(rng, lo, hi, n, minfrac=0.12):
    """n-1 cut positions strictly inside (lo, hi), pieces not thinner than minfrac*(hi-lo)/n"""
    L = hi - lo
    for _ in range(200):
        c = sorted(rnd(rng, lo, hi) for _ in range(n - 1))
        e = [lo] + c + [hi]
        if all(e[i + 1] - e[i] >= minfrac * L / n for i in range(n)):
            return e
    return [lo + L * i / n for i in range(n + 1)]


def off_planes(x, planes, margin):
    return all(abs(x - p) > margin for p in planes)


def decoys(objs, obs, factor):
    """pairs of sources that cancel exactly (same geometry, opposite excitation: every closed form is odd in the
    excitation), of three classes, far from the observers, with excitations `factor` times the parts' one"""
    ctr = obs.mean(axis=0)
    ext = float(np.abs(obs - ctr).max()) or 1.0
    pol = getattr(objs[0], "polarization", None)
    q = factor * (float(np.linalg.norm(pol)) if pol is not None else 1.0) or factor
    out = []
    for cls, kw, off, v in (
            (magpy.magnet.Sphere, {"diameter": ext}, (8.0, 1.0, -2.0), (1.0, -2.0, 0.5)),
            (magpy.magnet.Cuboid, {"dimension": (ext, 0.7 * ext, 1.3 * ext)}, (-3.0, 9.0, 2.0), (0.3, 0.4, -1.0))):
        for sgn in (1.0, -1.0):
            out.append(cls(polarization=tuple(sgn * q * x for x in v), position=ctr + ext * np.array(off), **kw))
    for sgn in (1.0, -1.0):
        out.append(magpy.misc.Dipole(moment=(sgn * q * ext ** 3 / MU0, 0.0, sgn * q * ext ** 3 / MU0),
                                     position=ctr + ext * np.array((2.0, -3.0, 9.0))))
    return out


def field_of(objs, obs, f, mode, via="toplevel"):
    """sum of the fields of objs at obs (n,3); mode: how the sum is taken; a mode ending in '/each' evaluates one
    observer per call (a batch of one row takes other paths through the grouping code than a batch of many)"""
    if mode.endswith("/each"):
        return np.vstack([field_of(objs, obs[i:i + 1], f, mode[:-5], via) for i in range(len(obs))])
    if not isinstance(objs, (list, tuple)):
        if via == "method":                 # the method of the source
            return np.reshape(getattr(objs, "get" + f)(obs), (-1, 3))
        if via == "sensor":                 # observers given as the pixels of a Sensor
            return np.reshape(GET[f](objs, magpy.Sensor(pixel=obs)), (-1, 3))
        return np.reshape(GET[f](objs, obs), (-1, 3))
    objs = list(objs)
    if mode == "sumup":
        return np.reshape(GET[f](objs, obs, sumup=True), (-1, 3))
    if mode == "collection":
        return np.reshape(GET[f](magpy.Collection(*objs, override_parent=True), obs), (-1, 3))
    if mode == "nested" and len(objs) >= 2:     # a Collection of Collections (depth 2), one part directly below the root
        k = max(1, len(objs) // 2)
        inner = [magpy.Collection(*objs[1:k], override_parent=True)] if k > 1 else []
        root = magpy.Collection(objs[0], *inner, magpy.Collection(*objs[k:], override_parent=True), override_parent=True)
        return np.reshape(GET[f](root, obs), (-1, 3))
    if mode.startswith("decoy"):                # several classes interleaved with the parts, large field ratios
        dec = decoys(objs, obs, float(mode[5:] or 1e6))
        mixed = [dec[0], objs[0], dec[2]] + objs[1:2] + [dec[4], dec[1]] + objs[2:] + [dec[3], dec[5]]
        return np.reshape(GET[f](mixed, obs, sumup=True), (-1, 3))
    tot = 0.0
    for o in objs:
        tot = tot + np.reshape(GET[f](o, obs), (-1, 3))
    return tot


def compare_fn(get_w, get_p, nobs, pol, fields, rtol, atol):
    """get_w(f), get_p(f) -> (k*nobs, 3) arrays; returns list of (field, max error / tolerance, observer index);
    the tolerance of a row is rtol * (its own field) + atol * (field scale of the body)"""
    out = []
    jn = float(np.linalg.norm(pol)) or 1.0       # null polarization: every field must vanish (absolute floor)
    for f in fields:
        scale = jn if f in "BJ" else jn / MU0
        W, P = get_w(f), get_p(f)
        if W.shape != P.shape:
            out.append((f, float("inf"), 0))
            continue
        if not (np.all(np.isfinite(W)) and np.all(np.isfinite(P))):
            bad = int(np.argmax(~(np.isfinite(W).all(axis=1) & np.isfinite(P).all(axis=1))))
            out.append((f, float("inf"), bad % nobs))
            continue
        d = np.linalg.norm(W - P, axis=1)
        ref = np.maximum(np.linalg.norm(W, axis=1), np.linalg.norm(P, axis=1))
        rel = d / (rtol * ref + atol * scale)
        i = int(np.argmax(rel))
        out.append((f, float(rel[i]), i % nobs))
    return out


def compare(whole, parts, obs, pol, fields, mode, rtol, atol, via="toplevel"):
    each = "/each" if mode.endswith("/each") else ""
    return compare_fn(lambda f: field_of(whole, obs, f, "single" + each, via), lambda f: field_of(parts, obs, f, mode),
                      len(obs), pol, fields, rtol, atol)


def set_pol(obj, pol):
    """assign a new polarization to a source, a list of sources or a (nested) Collection"""
    if isinstance(obj, (list, tuple)):
        for o in obj:
            set_pol(o, pol)
    elif hasattr(obj, "children"):
        set_pol(list(obj.children), pol)
    else:
        obj.polarization = pol


def apply_ops(obj, ops):
    """the same rigid motion history on a single source or on the Collection of the parts: a vector move (the path
    grows by len(pmove) steps) followed by one rotation of the whole path about a fixed global anchor"""
    if ops.get("pmove"):
        obj.move(np.array(ops["pmove"], dtype=float))
    if ops.get("prot"):
        obj.rotate(R.from_rotvec(np.array(ops["prot"], dtype=float)), anchor=np.array(ops["panchor"], dtype=float))


def as_collection(parts, mode):
    parts = list(parts)
    if mode == "nested" and len(parts) >= 2:
        k = max(1, len(parts) // 2)
        inner = [magpy.Collection(*parts[1:k], override_parent=True)] if k > 1 else []
        return magpy.Collection(parts[0], *inner, magpy.Collection(*parts[k:], override_parent=True), override_parent=True)
    return magpy.Collection(*parts, override_parent=True)


# ------------------------------------------------------------------ family 1: Cuboid = sum of cuboids
def edge_prolongation_observers(rng, half, n=3, dmax=1e-5):
    """observers ON and within 1e-9 .. dmax (relative to their distance from the corner) of the straight prolongation
    of one of the 12 edges of the box [-half, half], outside the body: off every surface.  The Cuboid closed form has
    indeterminate forms there in seven of the eight octants (the implementation avoids them by mirroring the observer),
    the triangle closed form switches to its edge-line formula; both are accurate to < 1e-11 on the unchanged tree."""
    out = []
    for _ in range(n):
        ax = rng.randrange(3)
        o1, o2 = [k for k in range(3) if k != ax]
        u = rnd(rng, 0.05, 1.5)
        r = u * 2 * half[ax]
        p = [0.0, 0.0, 0.0]
        p[o1] = rng.choice([-1, 1]) * half[o1]
        p[o2] = rng.choice([-1, 1]) * half[o2]
        p[ax] = rng.choice([-1, 1]) * (half[ax] + r)
        if rng.random() < 0.6:
            d = 10 ** rng.uniform(-9.0, math.log10(dmax))
            ang = rng.uniform(0, 2 * math.pi)
            p[o1] += d * r * math.cos(ang)
            p[o2] += d * r * math.sin(ang)
        out.append(p)
    return out


def gen_cuboid_partition(rng):
    dim = [rnd(rng, 0.4, 3.0) for _ in range(3)]
    n = [rng.choice([1, 1, 2, 2, 3, 4]) for _ in range(3)]
    if n == [1, 1, 1]:
        n[rng.randrange(3)] = 2
    edges = [cuts(rng, -dim[i] / 2, dim[i] / 2, n[i]) for i in range(3)]
    size = max(dim)
    margin = 0.02 * min(dim)
    obs = []
    nobs = 18 if rng.random() < 0.12 else 6
    while len(obs) < nobs:
        if rng.random() < 0.5:   # inside the body (inside one part, outside the others)
            p = [rnd(rng, -dim[i] / 2, dim[i] / 2) for i in range(3)]
        else:
            p = [rnd(rng, -1.5 * size, 1.5 * size) for _ in range(3)]
        if all(off_planes(p[i], edges[i], margin) for i in range(3)):
            obs.append(p)
    if rng.random() < 0.4:
        # on the (infinite) plane of a face or of a cut but OUTSIDE the body: off every surface, yet the special
        # branches of the parts (observer coordinate equal to a face coordinate) are taken
        for _ in range(2):
            ax = rng.randrange(3)
            p = [rnd(rng, -1.5 * size, 1.5 * size) for _ in range(3)]
            p[ax] = rng.choice([edges[ax][0], edges[ax][-1]])
            o = rng.choice([k for k in range(3) if k != ax])
            p[o] = (dim[o] / 2 + rnd(rng, 0.05, 1.0) * size) * rng.choice([-1, 1])
            q = 3 - ax - o
            if off_planes(p[q], edges[q], margin) and off_planes(p[o], edges[o], margin) \
                    and off_planes(p[ax], edges[ax][1:-1], margin):
                obs.append(p)
    if rng.random() < 0.4:
        obs += edge_prolongation_observers(rng, [d / 2 for d in dim])
    return {"family": "cuboid_partition", "dim": dim, "edges": edges, "pol": gen_pol(rng), "pose": gen_pose(rng),
            "obs": obs, "mode": rng.choice(MODES)}


def build_cuboid_partition(c):
    pose, pol = c["pose"], c["pol"]
    whole = magpy.magnet.Cuboid(polarization=pol, dimension=c["dim"], **whole_pose(pose))
    parts = []
    ex, ey, ez = c["edges"]
    for i in range(len(ex) - 1):
        for j in range(len(ey) - 1):
            for k in range(len(ez) - 1):
                d = [ex[i + 1] - ex[i], ey[j + 1] - ey[j], ez[k + 1] - ez[k]]
                ctr = [(ex[i + 1] + ex[i]) / 2, (ey[j + 1] + ey[j]) / 2, (ez[k + 1] + ez[k]) / 2]
                parts.append(magpy.magnet.Cuboid(polarization=pol, dimension=d, **place(pose, ctr)))
    return whole, parts


# ------------------------------------------------------------------ family 2: Cylinder / CylinderSegment partitions
def near_part_surface(p_cyl, part, m):
    """is the point (r, phi_deg, z) within m of the closed surface of the segment part=(ra, rb, pa, pb, za, zb)?"""
    r, ph, z = p_cyl
    ra, rb, pa, pb, za, zb = part
    full = pb - pa >= 360.0
    if not (ra - m <= r <= rb + m and za - m <= z <= zb + m):
        return False
    d_a = math.radians((ph - pa + 180.0) % 360.0 - 180.0)
    d_b = math.radians((ph - pb + 180.0) % 360.0 - 180.0)
    if not full:
        inside_phi = ((ph - pa) % 360.0) <= (pb - pa)
        near_phi = min(abs(d_a), abs(d_b)) * r <= m
        if not (inside_phi or near_phi):
            return False
    else:
        near_phi = False
    near_rz = abs(r - ra) <= m and ra > 0 or abs(r - rb) <= m or abs(z - za) <= m or abs(z - zb) <= m
    on_axis_edge = ra == 0 and not full and r <= m
    return bool(near_rz or (near_phi and not full) or on_axis_edge)


def special_cyl_observers(rng, re_, pe, ze, margin, n=3):
    """observers whose cylinder coordinates coincide with one, two or three face coordinates of the WHOLE body
    (z = -h/2 or h/2, r = r1, r2 or 0, phi = phi1, phi2 (+180) of a partial segment) but which lie OFF the closed
    surface of the body and of every part, and never on a cut plane (the property excludes those)"""
    parts = [(re_[i], re_[i + 1], pe[j], pe[j + 1], ze[k], ze[k + 1])
             for i in range(len(re_) - 1) for j in range(len(pe) - 1) for k in range(len(ze) - 1)]
    r2, h = re_[-1], ze[-1] - ze[0]
    full = pe[-1] - pe[0] >= 360.0
    zvals = [ze[0], ze[-1]]
    rvals = [x for x in (re_[0], re_[-1]) if x > 0] + ([0.0] if (re_[0] > 0 or (full and len(pe) == 2)) else [])
    pvals = [] if full else [pe[0], pe[-1], pe[0] + 180.0, pe[-1] + 180.0]
    cutz, cutr, cutp = ze[1:-1], re_[1:-1], (pe[:-1] if full and len(pe) > 2 else pe[1:-1])
    out = []
    for _ in range(80):
        if len(out) >= n:
            break
        zs, ps, rs = rng.random() < 0.6, bool(pvals) and rng.random() < 0.6, rng.random() < 0.5
        if not (zs or ps or rs):
            continue
        z = rng.choice(zvals) if zs else rnd(rng, -1.5, 1.5) * max(h, r2)
        ph = rng.choice(pvals) if ps else rnd(rng, -180, 180, 3)
        r = rng.choice(rvals) if rs else rnd(rng, 0.05, 2.5) * r2
        if any(near_part_surface((r, ph, z), part, margin) for part in parts):
            continue
        # off the (infinite) cut planes / cut cylinders / cut half planes and their opposite halves
        if not off_planes(z, cutz, margin) or not off_planes(r, cutr, margin):
            continue
        if any(abs(r * math.sin(math.radians(ph - a))) <= margin for a in cutp):
            continue
        out.append([r * math.cos(math.radians(ph)), r * math.sin(math.radians(ph)), z])
    return out


def gen_cylinder_partition(rng):
    """whole: Cylinder (r1 = 0, full angle), or a CylinderSegment (hollow and/or partial angle);
    parts: CylinderSegments from radial x angular x axial cuts"""
    r2 = rnd(rng, 0.4, 2.0)
    h = rnd(rng, 0.3, 3.0)
    if rng.random() < 0.15:                 # flat discs and long rods
        h = r2 * rng.choice([0.08, 0.15, 8.0, 15.0])
    kind = rng.choice(["cylinder", "cylinder", "full_segment", "hollow", "segment"])
    r1 = 0.0 if kind in ("cylinder", "full_segment") else rnd(rng, 0.1, 0.7) * r2
    if r1 > 0 and rng.random() < 0.2:       # thin shells
        r1 = rnd(rng, 0.85, 0.96) * r2
    if kind == "segment":
        phi1 = rnd(rng, -360, 300, 2)
        span = rnd(rng, 30, 330, 2) if rng.random() < 0.8 else rng.choice([350.0, 358.5, 359.9, 12.0, 3.0])
        phi2 = min(phi1 + span, 360.0)
        if rng.random() < 0.3:
            r1 = 0.0
    else:
        phi1 = rng.choice([0.0, 0.0, -180.0, rnd(rng, -360, 0, 2)])
        phi2 = phi1 + 360.0
    nr, nphi, nz = rng.choice([1, 1, 2, 3]), rng.choice([1, 2, 3, 4, 5]), rng.choice([1, 1, 2, 3])
    if kind in ("cylinder", "hollow") and nr * nphi * nz == 1:
        nphi = 2
    if kind == "full_segment":
        nr = nphi = nz = 1          # Cylinder vs the full-angle CylinderSegment (the shortcut) only
    re_ = cuts(rng, r1, r2, nr)
    pe = cuts(rng, phi1, phi2, nphi)
    ze = cuts(rng, -h / 2, h / 2, nz)
    margin = 0.02 * min(r2 - r1, h, r2)
    ang_planes = [] if (nphi == 1 and phi2 - phi1 == 360.0 and kind != "hollow" and kind != "segment") else pe
    if phi2 - phi1 == 360.0 and nphi == 1 and kind in ("full_segment", "hollow", "cylinder"):
        ang_planes = []
    obs = []
    nobs = 18 if rng.random() < 0.12 else 6
    while len(obs) < nobs:
        u = rng.random()
        if u < 0.5:
            r = rnd(rng, 0, 1.0) * r2
            z = rnd(rng, -h / 2, h / 2)
        else:
            r = rnd(rng, 0, 2.5) * r2
            z = rnd(rng, -1.5, 1.5) * max(h, r2)
        ph = rnd(rng, -180, 180, 3)
        if not off_planes(r, [x for x in re_ if x > 0], margin) or not off_planes(z, ze, margin):
            continue
        if ang_planes or re_[0] == 0.0 and (nphi > 1 or phi2 - phi1 < 360.0):
            # distance to every half plane phi = const through the axis
            if r < 3 * margin and re_[0] == 0.0:
                continue
        okp = True
        for a in ang_planes:
            dphi = math.radians((ph - a + 180.0) % 360.0 - 180.0)
            if abs(dphi) < math.pi / 2 and abs(r * math.sin(dphi)) <= margin:
                okp = False
        if not okp:
            continue
        obs.append([r * math.cos(math.radians(ph)), r * math.sin(math.radians(ph)), z])
    if rng.random() < 0.5:
        obs += special_cyl_observers(rng, re_, pe, ze, margin)
    phishift = 0.0
    if kind == "segment" and rng.random() < 0.25:
        phishift = 360.0 * rng.choice([-2, -1, 1, 2])     # the same body: section angles are periodic
    return {"family": "cylinder_partition", "kind": kind, "r": re_, "phi": pe, "z": ze, "pol": gen_pol(rng),
            "phishift": phishift,
            "pose": gen_pose(rng), "obs": obs, "mode": rng.choice(MODES)}


def build_cylinder_partition(c):
    pose, pol = c["pose"], c["pol"]
    re_, pe, ze = c["r"], c["phi"], c["z"]
    r1, r2, h = re_[0], re_[-1], ze[-1] - ze[0]
    if c["kind"] in ("cylinder", "full_segment"):
        whole = magpy.magnet.Cylinder(polarization=pol, dimension=(2 * r2, h), **whole_pose(pose))
    else:
        sh = c.get("phishift", 0.0)
        whole = magpy.magnet.CylinderSegment(polarization=pol, dimension=(r1, r2, h, pe[0] + sh, pe[-1] + sh),
                                             **whole_pose(pose))
    parts = []
    for i in range(len(re_) - 1):
        for j in range(len(pe) - 1):
            for k in range(len(ze) - 1):
                parts.append(magpy.magnet.CylinderSegment(
                    polarization=pol, dimension=(re_[i], re_[i + 1], ze[k + 1] - ze[k], pe[j], pe[j + 1]),
                    **place(pose, [0, 0, (ze[k + 1] + ze[k]) / 2])))
    return whole, parts


# ------------------------------------------------------------------ family 3: Cuboid = mesh = tetrahedra = triangles
CUBE_V = [(-1, -1, -1), (1, -1, -1), (1, 1, -1), (-1, 1, -1), (-1, -1, 1), (1, -1, 1), (1, 1, 1), (-1, 1, 1)]
# outward-oriented triangulation of the 6 faces
CUBE_F = [(0, 2, 1), (0, 3, 2), (4, 5, 6), (4, 6, 7), (0, 1, 5), (0, 5, 4), (2, 3, 7), (2, 7, 6), (1, 2, 6), (1, 6, 5),
          (0, 4, 7), (0, 7, 3)]
# 5 tetrahedra (central one + 4 corners) and 6 tetrahedra (around the diagonal 0-6)
TETRA5 = [(0, 1, 3, 4), (1, 2, 3, 6), (1, 4, 5, 6), (3, 4, 6, 7), (1, 3, 4, 6)]
TETRA6 = [(0, 1, 2, 6), (0, 2, 3, 6), (0, 3, 7, 6), (0, 7, 4, 6), (0, 4, 5, 6), (0, 5, 1, 6)]


import itertools
PERMS4 = list(itertools.permutations(range(4)))


def tet_order(c, k):
    """vertex order of the k-th tetrahedron of a case: any of the 24 orders (both chiralities), fixed by c['salt']"""
    return list(PERMS4[(c.get("salt", 0) + 5 * k) % 24])


def edge_extension_observers(rng, tris, n=2):
    """observers close to (not on) the straight extension of a triangle edge, where triangle_Bfield switches between
    its general and its edge-line formula: r*(1+cos(theta)) / l in [2.5e-7, 1e-4] (cone half angle 0.7e-3 .. 1.4e-2
    rad), r in [0.15, 0.6] l beyond the vertex.  The unchanged implementation is accurate to < 2e-8 there; closer
    to the line its general formula loses precision (documented), which is why the window stops at 2.5e-7."""
    out = []
    for _ in range(n):
        t = tris[rng.randrange(len(tris))]
        k = rng.randrange(3)
        a, b = np.array(t[k], dtype=float), np.array(t[(k + 1) % 3], dtype=float)
        L = b - a
        l = float(np.linalg.norm(L))
        e = L / l
        r = rnd(rng, 0.15, 0.6) * l
        q = 10 ** rng.uniform(math.log10(2.5e-7), -4.0)
        d = math.sqrt(2 * q * l / r)
        w = np.cross(e, np.array([rng.gauss(0, 1) for _ in range(3)]))
        w = w / np.linalg.norm(w)
        p = (b + e * r + w * d * r) if rng.random() < 0.5 else (a - e * r + w * d * r)
        out.append([float(x) for x in p])
    return out


def gen_cuboid_repr(rng):
    dim = [rnd(rng, 0.4, 3.0) for _ in range(3)]
    rep = rng.choice(["mesh", "tetra5", "tetra6", "triangles", "mesh_shuffled"])
    size = max(dim)
    margin = 0.03 * min(dim)
    half = [d / 2 for d in dim]
    planes = []      # (normal, offset) of every plane that carries a face of a part
    if rep in ("tetra5", "tetra6"):
        V = np.array(CUBE_V, dtype=float) * np.array(half)
        for t in (TETRA5 if rep == "tetra5" else TETRA6):
            for tri in ((0, 1, 2), (0, 1, 3), (0, 2, 3), (1, 2, 3)):
                a, b, cc = (V[t[i]] for i in tri)
                nrm = np.cross(b - a, cc - a)
                nrm = nrm / np.linalg.norm(nrm)
                planes.append((nrm, float(nrm @ a)))
    obs = []
    while len(obs) < 6:
        if rng.random() < 0.5:
            p = [rnd(rng, -half[i], half[i]) for i in range(3)]
        else:
            p = [rnd(rng, -1.5 * size, 1.5 * size) for _ in range(3)]
        if not all(off_planes(p[i], [-half[i], half[i]], margin) for i in range(3)):
            continue
        if any(abs(float(n @ np.array(p)) - o) <= margin for n, o in planes):
            continue
        # the diagonals of the faces are triangle edges: stay away from the planes through them only when on a face
        obs.append(p)
    if rng.random() < 0.3:
        # on the (infinite) plane of a face of the Cuboid but outside the body and off every plane of the parts
        for _ in range(2):
            ax = rng.randrange(3)
            p = [rnd(rng, -1.5 * size, 1.5 * size) for _ in range(3)]
            p[ax] = rng.choice([-half[ax], half[ax]])
            o = rng.choice([k for k in range(3) if k != ax])
            p[o] = (half[o] + rnd(rng, 0.05, 1.0) * size) * rng.choice([-1, 1])
            q = 3 - ax - o
            if off_planes(p[q], [-half[q], half[q]], margin) and \
                    not any(abs(float(n @ np.array(p)) - off) <= margin for n, off in planes):
                obs.append(p)
    if rep in ("mesh", "mesh_shuffled", "triangles") and rng.random() < 0.4:
        obs += edge_prolongation_observers(rng, half, dmax=3e-7)      # inside the edge-line regime of the triangle formula
    if rep in ("mesh", "mesh_shuffled", "triangles") and rng.random() < 0.5:
        Vc = np.array(CUBE_V, dtype=float) * np.array(half)
        obs += edge_extension_observers(rng, [[Vc[i] for i in f] for f in CUBE_F])
    perm = list(range(12))
    flips = [0] * 12
    if rep == "mesh_shuffled":
        rng.shuffle(perm)
        flips = [rng.randrange(3) for _ in range(12)]     # cyclic rotations keep the orientation
    return {"family": "cuboid_repr", "rep": rep, "dim": dim, "pol": gen_pol(rng), "pose": gen_pose(rng), "obs": obs,
            "perm": perm, "flips": flips, "salt": rng.randrange(24), "mode": rng.choice(MODES),
            "voff": [rnd(rng, -2, 2) * size for _ in range(3)] if rng.random() < 0.4 else [0.0, 0.0, 0.0]}


def cube_vertices(dim):
    return np.array(CUBE_V, dtype=float) * (np.array(dim, dtype=float) / 2)


def build_cuboid_repr(c):
    pose, pol, rep = c["pose"], c["pol"], c["rep"]
    whole = magpy.magnet.Cuboid(polarization=pol, dimension=c["dim"], **whole_pose(pose))
    # the same body described by vertices that are OFF the local origin: vertices shifted by voff, position by -R voff
    voff = np.array(c.get("voff", [0.0, 0.0, 0.0]), dtype=float)
    V = cube_vertices(c["dim"]) + voff
    wp = place(pose, -voff)
    if rep in ("mesh", "mesh_shuffled"):
        faces = []
        for idx, fl in zip(c["perm"], c["flips"]):
            f = CUBE_F[idx]
            faces.append(tuple(f[(i + fl) % 3] for i in range(3)))
        other = magpy.magnet.TriangularMesh(polarization=pol, vertices=V, faces=faces, **wp)
        return whole, other, FIELDS
    if rep == "triangles":
        other = [magpy.misc.Triangle(polarization=pol, vertices=V[list(f)], **wp) for f in CUBE_F]
        return whole, other, ("H",)
    tets = TETRA5 if rep == "tetra5" else TETRA6
    other = [magpy.magnet.Tetrahedron(polarization=pol, vertices=V[list(t)][tet_order(c, k)], **wp)
             for k, t in enumerate(tets)]
    return whole, other, FIELDS


# ------------------------------------------------------------------ family 4: Sphere outside = Dipole
def gen_sphere_dipole(rng):
    d = rnd(rng, 0.2, 3.0)
    obs = []
    while len(obs) < 6:
        p = np.array([rnd(rng, -3, 3) for _ in range(3)]) * d
        if np.linalg.norm(p) > 0.51 * d:
            obs.append([float(x) for x in p])
    if rng.random() < 0.3:
        for _ in range(2):
            p = [0.0, 0.0, 0.0]
            p[rng.randrange(3)] = rnd(rng, 0.55, 3.0) * d * rng.choice([-1, 1])
            obs.append(p)
    return {"family": "sphere_dipole", "d": d, "pol": gen_pol(rng), "pose": gen_pose(rng), "obs": obs, "mode": "single"}


def build_sphere_dipole(c):
    pose, pol, d = c["pose"], np.array(c["pol"], dtype=float), c["d"]
    whole = magpy.magnet.Sphere(polarization=pol, diameter=d, **whole_pose(pose))
    vol = math.pi * d ** 3 / 6
    other = magpy.misc.Dipole(moment=pol / MU0 * vol, **whole_pose(pose))
    return whole, other


# ------------------------------------------------------------------ family 5: Polyline n-gon -> Circle
def gen_polyline_circle(rng):
    d = rnd(rng, 0.3, 3.0)
    obs = []
    while len(obs) < 4:
        rho = rnd(rng, 0, 2.0) * d / 2
        z = rnd(rng, -1.0, 1.0) * d
        if math.hypot(rho - d / 2, z) < 0.15 * d:      # keep away from the wire
            continue
        ph = rnd(rng, -math.pi, math.pi)
        obs.append([rho * math.cos(ph), rho * math.sin(ph), z])
    if rng.random() < 0.4:
        obs.append([0.0, 0.0, rnd(rng, -1.0, 1.0) * d])                       # on the axis (Circle special branch)
        rho = rng.choice([rnd(rng, 0.0, 0.3), rnd(rng, 0.7, 1.5)]) * d
        ph = rnd(rng, -math.pi, math.pi)
        obs.append([rho * math.cos(ph), rho * math.sin(ph), 0.0])             # in the plane of the loop
    return {"family": "polyline_circle", "d": d,
            "cur": 0.0 if rng.random() < 0.03 else rnd(rng, 0.2, 5.0) * rng.choice([-1, 1]),
            "pose": gen_pose(rng), "obs": obs, "phase": rnd(rng, 0, 1.0), "mode": "single"}


def ngon(d, n, phase):
    t = (np.arange(n + 1) + phase) * 2 * np.pi / n
    v = np.stack([d / 2 * np.cos(t), d / 2 * np.sin(t), 0 * t], axis=1)
    v[-1] = v[0]
    return v


# ------------------------------------------------------------------ family 6: TriangularMesh converters
def random_convex_points(rng, n):
    pts = []
    while len(pts) < n:
        p = [rnd(rng, -1, 1, 3) for _ in range(3)]
        pts.append(p)
    return pts


def _tri_planes(tris):
    out = []
    for a, b, cc in tris:
        n = np.cross(b - a, cc - a)
        ln = np.linalg.norm(n)
        if ln > 0:
            out.append((n / ln, float(n @ a / ln)))
    return out


def gen_mesh_convert(rng):
    from scipy.spatial import ConvexHull
    conv = rng.choice(["to_TriangleCollection", "from_triangles", "from_mesh", "from_ConvexHull", "hull_cuboid"])
    if conv == "hull_cuboid":
        dim = [rnd(rng, 0.5, 2.5) for _ in range(3)]
        pts = (np.array(CUBE_V, dtype=float) * np.array(dim) / 2).tolist()
        # extra points strictly inside do not change the hull
        for _ in range(rng.randint(0, 6)):
            pts.append([rnd(rng, -0.45, 0.45) * dim[i] for i in range(3)])
        rng.shuffle(pts)
    else:
        dim = None
        pts = random_convex_points(rng, rng.randint(5, 12))
    P = np.array(pts, dtype=float)
    hull = ConvexHull(P)
    tris = [P[list(f)] for f in hull.simplices]
    planes = _tri_planes(tris)
    if conv == "from_ConvexHull":
        ctr = P[np.unique(hull.simplices)].mean(axis=0)
        for t in tris:
            planes += _tri_planes([(ctr, t[0], t[1]), (ctr, t[1], t[2]), (ctr, t[2], t[0])])
    margin = 0.03
    obs = []
    tries = 0
    while len(obs) < 6 and tries < 2000:
        tries += 1
        if rng.random() < 0.4:
            w = np.array([rng.random() for _ in range(len(P))])
            p = (w / w.sum()) @ P
            p = [round(float(x), 4) for x in p]
        else:
            p = [rnd(rng, -2.5, 2.5) for _ in range(3)]
        if any(abs(float(n @ np.array(p)) - o) <= margin for n, o in planes):
            continue
        obs.append(p)
    if conv == "hull_cuboid" and rng.random() < 0.5:
        obs += edge_extension_observers(rng, tris)
    if conv == "hull_cuboid" and rng.random() < 0.4:
        obs += edge_prolongation_observers(rng, [x / 2 for x in dim], dmax=3e-7)
    pose = gen_pose(rng)
    npath = rng.choice([1, 1, 1, 2, 3]) if conv == "to_TriangleCollection" else 1
    path = [[rnd(rng, -1, 1) for _ in range(3)] for _ in range(npath - 1)]
    return {"family": "mesh_convert", "conv": conv, "points": pts, "dim": dim, "pol": gen_pol(rng), "pose": pose,
            "path": path, "obs": obs, "salt": rng.randrange(24), "mode": rng.choice(MODES)}


# ------------------------------------------------------------------ family 7: Cuboid = slabs in mixed representations
# each slab of an x/y/z-cut Cuboid is given as a Cuboid, a TriangularMesh (12 or 24 faces: ragged meshes in one
# call), 5 or 6 Tetrahedra: "any partition, different classes describing the same body"
SLAB_REPS = ["cuboid", "mesh12", "mesh24", "tetra5", "tetra6"]


def gen_mixed_partition(rng):
    dim = [rnd(rng, 0.5, 3.0) for _ in range(3)]
    ax = rng.randrange(3)
    n = rng.choice([2, 2, 3, 4])
    edges = cuts(rng, -dim[ax] / 2, dim[ax] / 2, n, minfrac=0.3)
    reps = [rng.choice(SLAB_REPS) for _ in range(n)]
    if all(r == "cuboid" for r in reps):
        reps[rng.randrange(n)] = rng.choice(SLAB_REPS[1:])
    same_count = rng.random() < 0.35
    if same_count:      # sub-box meshes with EQUAL face count and unequal size (grouping of "identical" meshes)
        reps = [rng.choice(["mesh12", "mesh12", "mesh24"])] * n
    size = max(dim)
    margin = 0.03 * min(min(dim), min(edges[i + 1] - edges[i] for i in range(n)))
    planes = []
    for k in range(n):
        lo = [-d / 2 for d in dim]
        hi = [d / 2 for d in dim]
        lo[ax], hi[ax] = edges[k], edges[k + 1]
        V = _slab_vertices(lo, hi)
        for i in range(3):
            e = np.zeros(3)
            e[i] = 1.0
            planes += [(e, lo[i]), (e, hi[i])]
        if reps[k] in ("tetra5", "tetra6"):
            for t in (TETRA5 if reps[k] == "tetra5" else TETRA6):
                planes += _tri_planes([tuple(V[t[i]] for i in tri) for tri in ((0, 1, 2), (0, 1, 3), (0, 2, 3), (1, 2, 3))])
    obs = []
    tries = 0
    while len(obs) < 6 and tries < 5000:
        tries += 1
        if rng.random() < 0.5:
            p = [rnd(rng, -dim[i] / 2, dim[i] / 2) for i in range(3)]
        else:
            p = [rnd(rng, -1.5 * size, 1.5 * size) for _ in range(3)]
        if any(abs(float(nv @ np.array(p)) - o) <= margin for nv, o in planes):
            continue
        obs.append(p)
    return {"family": "mixed_partition", "dim": dim, "axis": ax, "edges": edges, "reps": reps, "pol": gen_pol(rng),
            "pose": gen_pose(rng), "obs": obs, "salt": rng.randrange(24),
            "mode": rng.choice(["sumup", "collection", "nested", "decoy1e6"] if same_count else MODES)}


def _slab_vertices(lo, hi):
    c = (np.array(lo) + np.array(hi)) / 2
    h = (np.array(hi) - np.array(lo)) / 2
    return np.array(CUBE_V, dtype=float) * h + c


def _mesh24(V):
    """each face split into 4 triangles around its centre (outward orientation kept)"""
    quads = [(0, 3, 2, 1), (4, 5, 6, 7), (0, 1, 5, 4), (2, 3, 7, 6), (1, 2, 6, 5), (0, 4, 7, 3)]
    verts = [v for v in V]
    faces = []
    for q in quads:
        ctr = np.mean([V[i] for i in q], axis=0)
        verts.append(ctr)
        ci = len(verts) - 1
        for i in range(4):
            faces.append((q[i], q[(i + 1) % 4], ci))
    return np.array(verts), faces


def build_mixed_partition(c):
    pose, pol, ax = c["pose"], c["pol"], c["axis"]
    wp = whole_pose(pose)
    whole = magpy.magnet.Cuboid(polarization=pol, dimension=c["dim"], **wp)
    parts = []
    for k, rep in enumerate(c["reps"]):
        lo = [-d / 2 for d in c["dim"]]
        hi = [d / 2 for d in c["dim"]]
        lo[ax], hi[ax] = c["edges"][k], c["edges"][k + 1]
        V = _slab_vertices(lo, hi)
        if rep == "cuboid":
            parts.append(magpy.magnet.Cuboid(polarization=pol, dimension=[hi[i] - lo[i] for i in range(3)],
                                             **place(pose, [(hi[i] + lo[i]) / 2 for i in range(3)])))
        elif rep == "mesh12":
            parts.append(magpy.magnet.TriangularMesh(polarization=pol, vertices=V, faces=CUBE_F, **wp))
        elif rep == "mesh24":
            v24, f24 = _mesh24(V)
            parts.append(magpy.magnet.TriangularMesh(polarization=pol, vertices=v24, faces=f24, **wp))
        else:
            for kk, t in enumerate(TETRA5 if rep == "tetra5" else TETRA6):
                parts.append(magpy.magnet.Tetrahedron(polarization=pol, vertices=V[list(t)][tet_order(c, k + kk)], **wp))
    return whole, parts


# ------------------------------------------------------------------ family 8: hollow bodies (a closed shell inside a closed shell)
def gen_hollow_mesh(rng):
    dim = [rnd(rng, 0.8, 3.0) for _ in range(3)]
    idim = [rnd(rng, 0.3, 0.6) * d for d in dim]
    ioff = [rnd(rng, -0.9, 0.9) * (d - i) / 2 * 0.8 for d, i in zip(dim, idim)]
    margin = 0.03 * min(idim)
    planes = [[-d / 2, d / 2, o - i / 2, o + i / 2] for d, i, o in zip(dim, idim, ioff)]
    size = max(dim)
    obs = []
    while len(obs) < 7:
        k = rng.random()
        if k < 0.3:      # in the cavity
            p = [rnd(rng, o - i / 2, o + i / 2) for i, o in zip(idim, ioff)]
        elif k < 0.65:   # in the wall or the cavity
            p = [rnd(rng, -d / 2, d / 2) for d in dim]
        else:
            p = [rnd(rng, -1.5 * size, 1.5 * size) for _ in range(3)]
        if all(off_planes(p[a], planes[a], margin) for a in range(3)):
            obs.append(p)
    return {"family": "hollow_mesh", "dim": dim, "idim": idim, "ioff": ioff, "pol": gen_pol(rng), "pose": gen_pose(rng),
            "obs": obs, "outer_first": rng.random() < 0.5, "inner_outward": rng.random() < 0.5,
            "ctor": rng.choice(["direct", "from_mesh", "from_triangles"]), "mode": rng.choice(["sumup", "collection", "loop"])}


def build_hollow_mesh(c):
    """outer Cuboid = hollow TriangularMesh (outer shell + cavity wall, faces in either order, the cavity wall given
    in either orientation: reorient_faces must turn it towards the cavity) + the plug Cuboid that fills the cavity"""
    pose, pol = c["pose"], c["pol"]
    wp = whole_pose(pose)
    Vo = cube_vertices(c["dim"])
    Vi = cube_vertices(c["idim"]) + np.array(c["ioff"], dtype=float)
    fo = [tuple(f) for f in CUBE_F]
    fi = [tuple(i + 8 for i in (f if c["inner_outward"] else f[::-1])) for f in CUBE_F]
    V = np.vstack([Vo, Vi])
    faces = fo + fi if c["outer_first"] else [tuple(i + 8 if i < 8 else i - 8 for i in f) for f in fi + fo]
    if not c["outer_first"]:
        V = np.vstack([Vi, Vo])
    kw = {"check_open": "raise", "check_disconnected": "ignore", "reorient_faces": True}
    if c["ctor"] == "direct":
        m = magpy.magnet.TriangularMesh(polarization=pol, vertices=V, faces=faces, **wp, **kw)
    elif c["ctor"] == "from_mesh":
        m = magpy.magnet.TriangularMesh.from_mesh(mesh=V[np.array(faces)], polarization=pol, **wp, **kw)
    else:
        tris = [magpy.misc.Triangle(polarization=pol, vertices=V[list(f)]) for f in faces]
        m = magpy.magnet.TriangularMesh.from_triangles(triangles=tris, polarization=pol, **wp, **kw)
    outer = magpy.magnet.Cuboid(polarization=pol, dimension=c["dim"], **wp)
    plug = magpy.magnet.Cuboid(polarization=pol, dimension=c["idim"], **place(pose, c["ioff"]))
    return [("hollow-mesh+plug=Cuboid", outer, [m, plug], FIELDS),
            ("to_TriangleCollection(hollow)", m, m.to_TriangleCollection(), ("H",))]


def _with_each(gen):
    def g(rng):
        c = gen(rng)
        c["each"] = c["family"] != "polyline_circle" and rng.random() < 0.3
        c["scale"] = rng.choice(SCALES)
        c["via"] = rng.choice(["toplevel", "toplevel", "method", "sensor"])
        c["as_array"] = rng.random() < 0.3
        c["history"] = rng.random() < 0.15
        c["inout"] = c.get("rep") in ("mesh", "mesh_shuffled") and rng.random() < 0.3
        if c.get("mode") in ("collection", "nested") and not c["each"] and not c.get("path") and rng.random() < 0.5:
            # a motion history applied to the whole and to the Collection of the parts
            c["pmove"] = [[rnd(rng, -1, 1) for _ in range(3)] for _ in range(rng.choice([0, 1, 2, 3]))]
            c["prot"] = rng.choice([[0.0, 0.0, math.pi / 2], [math.pi, 0.0, 0.0], [rnd(rng, -2, 2) for _ in range(3)]])
            c["panchor"] = rng.choice([[0.0, 0.0, 0.0], [rnd(rng, -2, 2) for _ in range(3)]])
        return c
    return g


FAMILIES = {
    "cuboid_partition": gen_cuboid_partition,
    "cylinder_partition": gen_cylinder_partition,
    "cuboid_repr": gen_cuboid_repr,
    "sphere_dipole": gen_sphere_dipole,
    "polyline_circle": gen_polyline_circle,
    "mesh_convert": gen_mesh_convert,
    "mixed_partition": gen_mixed_partition,
    "hollow_mesh": gen_hollow_mesh,
}
FAMILIES = {k: _with_each(v) for k, v in FAMILIES.items()}


# ------------------------------------------------------------------ evaluation
def hull_planes(points):
    from scipy.spatial import ConvexHull
    hull = ConvexHull(np.array(points, dtype=float))
    return hull


def build_mesh_convert(c):
    """returns list of comparisons (label, whole, parts, fields, observer filter)"""
    pose, pol, conv = c["pose"], c["pol"], c["conv"]
    wp = whole_pose(pose)
    pts = np.array(c["points"], dtype=float)
    kw = {"check_open": "raise", "check_disconnected": "raise", "reorient_faces": True}
    base = magpy.magnet.TriangularMesh.from_ConvexHull(points=pts, polarization=pol, **wp, **kw)
    comps = []
    if conv == "hull_cuboid":
        comps.append(("from_ConvexHull=Cuboid", magpy.magnet.Cuboid(polarization=pol, dimension=c["dim"], **wp),
                      base, FIELDS))
    elif conv == "from_ConvexHull":
        # the same body as a fan of tetrahedra from an interior point over the hull faces
        ctr = pts[np.unique(base.faces)].mean(axis=0)
        tets = [magpy.magnet.Tetrahedron(polarization=pol, vertices=np.vstack([ctr[None], tri])[tet_order(c, k)], **wp)
                for k, tri in enumerate(base.mesh)]
        comps.append(("from_ConvexHull=tetrahedra", base, tets, FIELDS))
    elif conv == "to_TriangleCollection":
        if c["path"]:
            base.position = np.vstack([wp["position"][None], np.array(c["path"], dtype=float)])
        coll = base.to_TriangleCollection()
        comps.append(("to_TriangleCollection", base, coll, ("H",)))
    elif conv == "from_triangles":
        tris = [magpy.misc.Triangle(polarization=pol, vertices=v) for v in base.mesh]
        arg = tris if c["mode"] != "collection" else magpy.Collection(tris)
        m2 = magpy.magnet.TriangularMesh.from_triangles(triangles=arg, polarization=pol, **wp, **kw)
        comps.append(("from_triangles", base, m2, FIELDS))
        comps.append(("from_triangles=triangles", m2,
                      [magpy.misc.Triangle(polarization=pol, vertices=v, **wp) for v in base.mesh], ("H",)))
    elif conv == "from_mesh":
        m2 = magpy.magnet.TriangularMesh.from_mesh(mesh=np.array(base.mesh), polarization=pol, **wp, **kw)
        comps.append(("from_mesh", base, m2, FIELDS))
    return comps


# tolerance (rtol on the local field, atol in units of the field scale) per family; measured noise on the pinned
# tree is <= 1e-8 (cylinder segments) resp. <= 1e-11 (everything else) relative to the local field
TOL = {"cuboid_partition": (1e-7, 1e-10), "cylinder_partition": (2e-6, 1e-9), "cuboid_repr": (1e-7, 1e-10),
       "sphere_dipole": (1e-9, 1e-12), "mesh_convert": (1e-7, 1e-10), "mixed_partition": (1e-7, 1e-10),
       "hollow_mesh": (1e-7, 1e-10)}

CLAUSE = {"cuboid_partition": "Cuboid=sum-of-Cuboids", "mixed_partition": "Cuboid=sum-of-mixed-parts", "sphere_dipole": "Sphere-outside=Dipole",
          "polyline_circle": "Polyline->Circle"}


def clause_of(c, label=None):
    fam = c["family"]
    if fam == "cylinder_partition":
        if c["kind"] == "full_segment":
            return "Cylinder=full-angle-CylinderSegment"
        return ("Cylinder" if c["kind"] == "cylinder" else "CylinderSegment") + "=sum-of-CylinderSegments"
    if fam == "cuboid_repr":
        return {"mesh": "Cuboid=TriangularMesh", "mesh_shuffled": "Cuboid=TriangularMesh",
                "tetra5": "Cuboid=Tetrahedra", "tetra6": "Cuboid=Tetrahedra", "triangles": "Cuboid=Triangles(H)"}[c["rep"]]
    if fam == "mesh_convert":
        return "TriangularMesh." + (label or c["conv"])
    if fam == "hollow_mesh":
        return "TriangularMesh." + (label or "hollow")
    return CLAUSE[fam]


def pol_class(pol):
    x, y, z = (abs(v) > 0 for v in pol)
    if z and not (x or y):
        return "axial"
    if (x or y) and not z:
        return "transverse"
    return "general"


def region_of(c, i):
    """is observer i (local frame) inside the whole body? decided geometrically, not by the code"""
    p = np.array(c["obs"][i], dtype=float)
    fam = c["family"]
    if fam == "hollow_mesh":
        if all(abs(p[k] - c["ioff"][k]) < c["idim"][k] / 2 for k in range(3)):
            return "cavity"
        return "wall" if all(abs(p[k]) < c["dim"][k] / 2 for k in range(3)) else "outside"
    if fam in ("cuboid_partition", "cuboid_repr", "mixed_partition"):
        return "inside" if all(abs(p[k]) < c["dim"][k] / 2 for k in range(3)) else "outside"
    if fam == "cylinder_partition":
        r, z = math.hypot(p[0], p[1]), p[2]
        ph = math.degrees(math.atan2(p[1], p[0]))
        inr = c["r"][0] < r < c["r"][-1] and c["z"][0] < z < c["z"][-1]
        a, b = c["phi"][0], c["phi"][-1]
        inphi = (b - a >= 360) or ((ph - a) % 360.0) < (b - a)
        return "inside" if inr and inphi else "outside"
    return "any"


def cut_axes(c):
    if c["family"] == "cuboid_partition":
        return "".join(ax for ax, e in zip("xyz", c["edges"]) if len(e) > 2) or "none"
    if c["family"] == "cylinder_partition":
        return "".join(ax for ax, e in zip(("r", "phi", "z"), (c["r"], c["phi"], c["z"])) if len(e) > 2) or "none"
    return ""


LENGTH_KEYS = ("idim", "ioff", "dim", "edges", "r", "z", "obs", "d", "points", "path", "voff", "pmove", "panchor")
SCALES = (1.0, 1.0, 1e-3, 1e-6, 1e3)       # absolute size of the body in metres (the library works in SI units)


def _mul(x, s):
    if isinstance(x, (list, tuple)):
        return [_mul(v, s) for v in x]
    return x * s if x is not None else None


def scaled(c):
    """the case with every length (sizes, cut positions, observers, position, path) multiplied by c['scale'];
    angles, polarization and current are unchanged.  All identities of the property are scale invariant and every
    tolerance is relative to the field, so the same oracle applies at every absolute size."""
    s = c.get("scale", 1.0)
    if s == 1.0:
        return c
    g = dict(c)
    for k in LENGTH_KEYS:
        if g.get(k) is not None:
            g[k] = _mul(g[k], s)
    g["pose"] = {"pos": _mul(c["pose"]["pos"], s), "rotvec": c["pose"]["rotvec"]}
    return g


def scale_tag(c):
    s = c.get("scale", 1.0)
    return "" if s == 1.0 else f"scale-{s:.0e}"


def _build(g):
    fam = g["family"]
    if fam == "cuboid_partition":
        return [(None,) + build_cuboid_partition(g) + (FIELDS,)]
    if fam == "cylinder_partition":
        return [(None,) + build_cylinder_partition(g) + (FIELDS,)]
    if fam == "mixed_partition":
        return [(None,) + build_mixed_partition(g) + (FIELDS,)]
    if fam == "cuboid_repr":
        return [(None,) + build_cuboid_repr(g)]
    if fam == "sphere_dipole":
        return [(None,) + build_sphere_dipole(g) + (FIELDS,)]
    if fam == "mesh_convert":
        return build_mesh_convert(g)
    if fam == "hollow_mesh":
        return build_hollow_mesh(g)
    raise ValueError(fam)


def evaluate(c):
    """returns list of failures: dict(clause, field, region, rel, obs_index, detail)"""
    fam = c["family"]
    fails = []
    if not c["obs"]:
        return fails
    g = scaled(c)                 # geometry in metres; c keeps the unit-size description (regions, tags, report)
    if c.get("as_array"):         # float64 ndarrays (one shared polarization array for all parts) instead of lists
        g = dict(g)
        if "pol" in g:
            g["pol"] = np.array(g["pol"], dtype=float)
        if g.get("dim") is not None:
            g["dim"] = np.array(g["dim"], dtype=float)
    obs = to_global(g["pose"], g["obs"])
    via = c.get("via", "toplevel")
    ops = {k: g.get(k) for k in ("pmove", "prot", "panchor")} if c.get("prot") or c.get("pmove") else None

    def report(label, res, what=""):
        for f, rel, i in res:
            if rel > 1.0:
                fails.append({"clause": clause_of(c, label), "field": f, "region": region_of(c, i),
                              "rel": rel, "obs_index": i,
                              "detail": f"{f}-field of the whole and of the parts differ by {rel:.3g} x tolerance "
                                        f"at local observer {c['obs'][i]}" + what
                                        + (f" (all lengths x {c['scale']:g} m)" if c.get("scale", 1.0) != 1.0 else "")})

    try:
        if fam == "polyline_circle":
            return eval_polyline_circle(g, obs)
        rtol, atol = TOL[fam]
        comps = _build(g)
        for ci, (label, whole, parts, fields) in enumerate(comps):
            each = "/each" if c.get("each") else ""
            is_list = isinstance(parts, (list, tuple))
            mode = (c["mode"] if is_list else "single") + each
            if fam == "mesh_convert" and c["path"]:
                report(label, compare_path(whole, parts, obs, c["pol"], fields, rtol, atol))
            elif ops and is_list and c["mode"] in ("collection", "nested") and not each:
                # the same motion history on the whole, on the Collection of its parts and on a Sensor whose pixels are
                # the local observers (so the observers keep their place relative to the body at every path step);
                # fresh objects per field: the history changes them
                def sensor():
                    sn = magpy.Sensor(pixel=np.array(g["obs"], dtype=float), **whole_pose(g["pose"]))
                    apply_ops(sn, ops)
                    return sn

                def get_w(f, ci=ci):
                    w = _build(g)[ci][1]
                    apply_ops(w, ops)
                    return np.reshape(GET[f](w, sensor()), (-1, 3))

                def get_p(f, ci=ci):
                    coll = as_collection(_build(g)[ci][2], c["mode"])
                    apply_ops(coll, ops)
                    return np.reshape(GET[f](coll, sensor()), (-1, 3))
                report(label, compare_fn(get_w, get_p, len(obs), c["pol"], fields, rtol, atol), " after move/rotate")
            elif c.get("inout") and fam == "cuboid_repr" and not is_list:
                # the in_out keyword: observers known to be inside resp. outside the mesh, one call per region
                reg = [region_of(c, i) for i in range(len(obs))]

                def get_p(f, parts=parts, reg=reg):
                    P = np.zeros((len(obs), 3))
                    for r in ("inside", "outside"):
                        idx = [i for i, x in enumerate(reg) if x == r]
                        if idx:
                            P[idx] = np.reshape(GET[f](parts, obs[idx], in_out=r), (-1, 3))
                    return P
                report(label, compare_fn(lambda f: field_of(whole, obs, f, "single", via), get_p, len(obs), c["pol"],
                                         fields, rtol, atol), " with in_out given")
            else:
                report(label, compare(whole, parts, obs, c["pol"], fields, mode, rtol, atol, via))
                if c.get("history") and not fails and fam != "sphere_dipole" and len(comps) == 1:
                    # call -> public mutation (new polarization on the SAME objects) -> call
                    pol2 = [-2.0 * x for x in c["pol"][::-1]]
                    set_pol(whole, pol2)
                    set_pol(parts, pol2)
                    report(label, compare(whole, parts, obs, pol2, fields, mode, rtol, atol, via),
                           " after assigning a new polarization to the same objects")
    except Exception as e:   # pylint: disable=broad-except
        fails.append({"clause": clause_of(c), "field": "raises", "region": type(e).__name__, "rel": float("inf"),
                      "obs_index": 0, "detail": f"valid construction/evaluation raised {type(e).__name__}: {e}"[:300]})
    return fails


def compare_path(whole, parts, obs, pol, fields, rtol, atol):
    """objects with a path of length m: outputs (m, n, 3); compare every path position"""
    out = []
    jn = float(np.linalg.norm(pol)) or 1.0
    for f in fields:
        scale = jn if f in "BJ" else jn / MU0
        W = np.array(GET[f](whole, obs))
        P = np.array(GET[f](parts, obs))
        if W.shape != P.shape:
            out.append((f, float("inf"), 0))
            continue
        W, P = W.reshape(-1, len(obs), 3), P.reshape(-1, len(obs), 3)
        d = np.linalg.norm(W - P, axis=2)
        ref = np.maximum(np.linalg.norm(W, axis=2), np.linalg.norm(P, axis=2))
        rel = (d / (rtol * ref + atol * scale)).max(axis=0)
        i = int(np.argmax(rel))
        out.append((f, float(rel[i]) if np.isfinite(rel[i]) else float("inf"), i))
    return out


NGON = (64, 128, 256, 512, 1024)


def eval_polyline_circle(c, obs):
    """inscribed regular n-gon -> circle: error = C/n^2 (ratio 4 per doubling), C bounded by the distance to the wire"""
    wp = whole_pose(c["pose"])
    circ = magpy.current.Circle(current=c["cur"], diameter=c["d"], **wp)
    fails = []
    for f in ("H", "B"):
        get = GET[f]
        Hc = np.reshape(get(circ, obs), (-1, 3))
        scale = abs(c["cur"]) / c["d"] * (MU0 if f == "B" else 1.0)
        if c["cur"] == 0:         # no current: both fields vanish exactly
            pl = magpy.current.Polyline(current=0.0, vertices=ngon(c["d"], 64, c["phase"]), **wp)
            if np.any(Hc != 0) or np.any(np.reshape(get(pl, obs), (-1, 3)) != 0):
                fails.append({"clause": "Polyline->Circle", "field": f, "region": "zero-current", "rel": float("inf"),
                              "obs_index": 0, "detail": "non-zero field of a conductor without current"})
            continue
        errs = []
        for n in NGON:
            pl = magpy.current.Polyline(current=c["cur"], vertices=ngon(c["d"], n, c["phase"]), **wp)
            errs.append(np.linalg.norm(np.reshape(get(pl, obs), (-1, 3)) - Hc, axis=1))
        errs = np.array(errs)
        loc = np.array(c["obs"], dtype=float)
        dw = np.hypot(np.hypot(loc[:, 0], loc[:, 1]) - c["d"] / 2, loc[:, 2]) / c["d"]
        if not np.all(np.isfinite(errs)):
            fails.append({"clause": "Polyline->Circle", "field": f, "region": "nonfinite", "rel": float("inf"),
                          "obs_index": 0, "detail": "non-finite field"})
            continue
        # (a) absolute bound (measured constant <= 0.8; 8 leaves a factor 10)
        bound = 8.0 * scale / (np.array(NGON)[:, None] ** 2 * dw[None, :] ** 2) + 1e-11 * scale
        rel = errs / bound
        k, i = np.unravel_index(np.argmax(rel), rel.shape)
        if rel[k, i] > 1.0:
            fails.append({"clause": "Polyline->Circle", "field": f, "region": "bound", "rel": float(rel[k, i]),
                          "obs_index": int(i),
                          "detail": f"{NGON[k]}-gon differs from the Circle by {errs[k, i] / scale:.3g} x I/d "
                                    f"(bound {bound[k, i] / scale:.3g}) at local observer {c['obs'][i]}"})
            continue
        # (b) second-order convergence: error ratio per doubling near 4 while above the rounding floor
        for k in range(2, len(NGON) - 1):      # from 256 -> 512 on: higher-order terms are negligible there
            ok = errs[k + 1] > 1e-9 * scale
            ratio = errs[k][ok] / errs[k + 1][ok]
            if ratio.size and (ratio.min() < 3.0 or ratio.max() > 5.5):
                i = int(np.flatnonzero(ok)[int(np.argmax(np.abs(ratio - 4)))])
                fails.append({"clause": "Polyline->Circle", "field": f, "region": "rate", "rel": float(ratio.max()),
                              "obs_index": i,
                              "detail": f"error ratio {NGON[k]}->{NGON[k + 1]}-gon is {errs[k][i] / errs[k + 1][i]:.3g}, "
                                        f"expected 4 (second order) at local observer {c['obs'][i]}"})
                break
    return fails


# ------------------------------------------------------------------ shrinking + signature
def _variants(c):
    """simpler variants of a case (each a full case dict), most aggressive first"""
    import copy
    out = []

    def v(**kw):
        d = copy.deepcopy(c)
        d.update(kw)
        out.append(d)

    if c["pose"]["rotvec"] != [0.0, 0.0, 0.0] or c["pose"]["pos"] != [0.0, 0.0, 0.0]:
        v(pose={"pos": [0.0, 0.0, 0.0], "rotvec": [0.0, 0.0, 0.0]})
        v(pose={"pos": c["pose"]["pos"], "rotvec": [0.0, 0.0, 0.0]})
        v(pose={"pos": [0.0, 0.0, 0.0], "rotvec": c["pose"]["rotvec"]})
    if c.get("phishift"):
        v(phishift=0.0)
    if c.get("scale", 1.0) != 1.0:
        v(scale=1.0)
    if c.get("prot") or c.get("pmove"):
        v(prot=None, pmove=None)
    if c.get("history"):
        v(history=False)
    if c.get("inout"):
        v(inout=False)
    if c.get("via", "toplevel") != "toplevel":
        v(via="toplevel")
    if c.get("as_array"):
        v(as_array=False)
    if c.get("voff") and any(c["voff"]):
        v(voff=[0.0, 0.0, 0.0])
    if str(c.get("mode", "")).startswith("decoy") or c.get("mode") == "nested":
        v(mode="sumup")
    if c.get("mode") not in ("loop", "single"):
        v(mode="loop")
    if c.get("each") and len(c["obs"]) > 1:
        v(each=False)
    if "pol" in c:
        for k in range(3):
            if c["pol"][k] != 0 and sum(1 for x in c["pol"] if x != 0) > 1:
                p = list(c["pol"])
                p[k] = 0.0
                v(pol=p)
        if any(x not in (0.0, 1.0) for x in c["pol"]):
            v(pol=[1.0 if x else 0.0 for x in c["pol"]])
    if c["family"] == "cuboid_partition":
        for ax in range(3):
            e = c["edges"][ax]
            for j in range(1, len(e) - 1):
                ee = [list(x) for x in c["edges"]]
                del ee[ax][j]
                if sum(len(x) - 2 for x in ee) >= 1:
                    v(edges=ee)
    if c["family"] == "cylinder_partition":
        for key in ("r", "phi", "z"):
            e = c[key]
            for j in range(1, len(e) - 1):
                ee = list(e)
                del ee[j]
                d = {key: ee}
                tot = sum(len(d.get(k2, c[k2])) - 2 for k2 in ("r", "phi", "z"))
                if tot >= 1 or c["kind"] in ("full_segment", "segment"):
                    v(**d)
    if c["family"] == "mixed_partition":
        for k, r in enumerate(c["reps"]):
            if r != "cuboid" and sum(1 for x in c["reps"] if x != "cuboid") > 1:
                rr = list(c["reps"])
                rr[k] = "cuboid"
                v(reps=rr)
        for k in range(1, len(c["edges"]) - 1):
            if len(c["edges"]) > 3:
                v(edges=c["edges"][:k] + c["edges"][k + 1:], reps=c["reps"][:k] + c["reps"][k + 1:])
    if c["family"] == "mesh_convert" and c.get("path"):
        v(path=[])
    return out


def shrink(c, same):
    """greedy: keep the failing observer only, then simplify while `same(case)` (still fails, same clause) holds"""
    cur = c
    for _ in range(40):
        for cand in _variants(cur):
            if same(cand):
                cur = cand
                break
        else:
            break
    return cur


def position_tags(c, i):
    """how the (shrunk) observer sits relative to the faces of the whole body (cylinder family): bore / axis /
    on the plane, cylinder or half plane of a face"""
    if c["family"] in ("cuboid_partition", "cuboid_repr", "mixed_partition") or c.get("dim"):
        p, half = c["obs"][i], [d / 2 for d in c["dim"]]
        on = [abs(abs(p[k]) - half[k]) <= 1e-4 * max(half) for k in range(3)]
        out = [abs(p[k]) > half[k] * (1 + 1e-3) for k in range(3)]
        return ["edge-line"] if sum(on) == 2 and sum(out) == 1 and not any(o and q for o, q in zip(on, out)) else []
    if c["family"] != "cylinder_partition":
        return []
    p = c["obs"][i]
    r, z = math.hypot(p[0], p[1]), p[2]
    ph = math.degrees(math.atan2(p[1], p[0]))
    tags = []
    eps = 1e-9 * max(c["r"][-1], c["z"][-1] - c["z"][0])
    rotated = any(c["pose"]["rotvec"]) or bool(c.get("prot"))
    if r < 1e-2 * c["r"][-1] and (r > 0 or rotated):      # the zone of the C01 finding tiny-r: 0 < r/r2 < 1e-2
        # within rounding of the axis but not exactly on it (a rotated pose turns an on-axis observer into one at
        # r ~ 1e-16 .. 1e-13 of the size): the near-axis cancellation of the CylinderSegment closed form
        tags.append("near-axis")
    elif c["r"][0] > 0 and r < c["r"][0] - eps:
        tags.append("bore")
    elif r <= eps:
        tags.append("axis")
    if any(abs(r - x) <= eps for x in c["r"] if x > 0):
        tags.append("r=face")
    if any(abs(z - x) <= eps for x in c["z"]):
        tags.append("z=face")
    if c["phi"][-1] - c["phi"][0] < 360.0 and r > eps and \
            any(abs(math.sin(math.radians(ph - a))) * r <= eps for a in (c["phi"][0], c["phi"][-1])):
        tags.append("phi=face")
    return tags


def signature(c, fl, failed=None):
    """<clause>/<trigger>: the identity that failed / the most basic failing field (J before M before H before B:
    a wrong J means a wrong inside decision, and B follows), the region of the (shrunk) observer, its special
    position tags and, when only the closed forms of the cylinder family disagree, the polarization class"""
    fld = fl["field"]
    for f in ("J", "M", "H", "B"):
        if failed and f in failed:
            fld = f
            break
    trig = [fld, fl["region"]]
    if fld != "raises":
        tags = position_tags(c, min(fl["obs_index"], len(c["obs"]) - 1))
        if "near-axis" in tags and fld in "BH":
            # one mechanism (known finding, cf. the C01 'tiny-r' findings): neither region, polarization class, scale
            # nor the angle description matter; J and M are not affected (a J failure keeps its full signature)
            return fl["clause"] + "/BH:near-axis-rounding"
        if tags:
            trig.append(",".join(tags))
        if c["family"] == "cylinder_partition" and fld in "BH":
            trig.append("pol-" + pol_class(c["pol"]))
        sh = c.get("phishift", 0.0)
        if sh and c["family"] == "cylinder_partition" and (c["phi"][-1] + sh > 360.0 or c["phi"][0] + sh < -360.0):
            trig.append("section-angles-beyond-360")
        if scale_tag(c):
            trig.append(scale_tag(c))
    return fl["clause"] + "/" + ":".join(trig)


def find_and_shrink(c):
    """evaluate; on failure return (signature, what, shrunk case) for the first failing clause"""
    fls = evaluate(c)
    if not fls:
        return None
    fl = max(fls, key=lambda x: (x["field"] in "BH", x["rel"]))
    c1 = dict(c)
    if fl["field"] != "raises":
        c1["obs"] = [c["obs"][fl["obs_index"]]]

    def same(cand):
        r = evaluate(cand)
        return any(x["clause"] == fl["clause"] and x["field"] == fl["field"] for x in r)

    if not same(c1):
        c1 = dict(c)
    c2 = shrink(c1, same)
    allf = [x for x in evaluate(c2) if x["clause"] == fl["clause"]]
    r = [x for x in allf if x["field"] == fl["field"]]
    fl2 = r[0] if r else fl
    failed = {x["field"] for x in allf if x["obs_index"] == fl2["obs_index"]}
    return signature(c2, fl2, failed), fl2["detail"], c2
