"""entry point: ./check Cxx --tier quick|thorough [--replay path]"""
import argparse
import importlib
import json
import os
import sys

from harness.common import Ctx, BASE_TRUST


def main():
    ap = argparse.ArgumentParser()
    ap.add_argument("prop")
    ap.add_argument("--tier", default=os.environ.get("VERIF_TIER", "quick"), choices=["quick", "thorough"])
    ap.add_argument("--replay", default=None)
    a = ap.parse_args()
    seed = int(os.environ.get("VERIF_SEED", "0") or 0)
    mod = importlib.import_module(f"harness.props.{a.prop}")
    ctx = Ctx(a.prop, a.tier, seed)
    ctx.trusted = list(BASE_TRUST)
    if a.replay:
        obj = json.load(open(a.replay))
        rc = mod.replay(ctx, obj)
        sys.exit(rc)
    mod.run(ctx)
    sys.exit(ctx.finish())


if __name__ == "__main__":
    main()
