"""Exact drivers for the level-2 data flow (getBH_level2): harness-defined sources whose field
functions are integer polynomials of the local observer, so that the implementation's float
arithmetic is exact and can be compared with the Coq model (Model/Level2Model.v) on Z.

Shared by C03, C04, C05, C06, C08."""
import numpy as np

import magpylib as magpy
from magpylib._src.obj_classes.class_BaseExcitations import BaseSource

from harness import octa
from harness.octa import cz, cv, coct, clist


# ------------------------------------------------------------------ stub sources
def _poly(k, obs, t, n):
    x, y, z = obs[:, 0], obs[:, 1], obs[:, 2]
    return np.stack([x + 2 * y * t + k, y * z + t + n, z * x - 3 * k + t * x], axis=1)


def make_stub(k):
    def stub(field, observers, tag):   # pylint: disable=unused-argument
        t = np.array([float(np.sum(x)) for x in tag])
        n = np.array([float(len(x)) for x in tag])
        return _poly(k, observers, t, n)
    return stub


def make_custom(k):
    def custom(field, observers):      # pylint: disable=unused-argument
        obs = np.asarray(observers, dtype=float)
        return _poly(k, obs, np.zeros(len(obs)), np.zeros(len(obs)))
    return custom


class _StubBase(BaseSource):
    _field_func_kwargs_ndim = {"tag": 2}

    def __init__(self, tag, position=(0, 0, 0), orientation=None, **kwargs):
        self.tag = np.array(tag, dtype=float)
        super().__init__(position, orientation, **kwargs)


class Stub0(_StubBase):
    _field_func = staticmethod(make_stub(0))


class Stub1(_StubBase):
    _field_func = staticmethod(make_stub(1))


class Stub2(_StubBase):
    _field_func = staticmethod(make_stub(2))


STUBS = [Stub0, Stub1, Stub2]
CUSTOM = {k: make_custom(k) for k in range(10, 14)}


# ------------------------------------------------------------------ generators
def g_path(rng, maxlen=4):
    n = rng.choice([1, 1, 2, 3, maxlen])
    return ([[rng.randint(-3, 3) for _ in range(3)] for _ in range(n)],
            [rng.randrange(24) if rng.random() < 0.7 else octa.IDENT for _ in range(n)])


def g_leaf(rng, maxlen=4):
    pos, ori = g_path(rng, maxlen)
    if rng.random() < 0.7:
        k = rng.randrange(3)
        tag = [rng.randint(-2, 2) for _ in range(rng.randint(1, 3))]
        return {"key": k, "tag": tag, "pos": pos, "ori": ori}
    return {"key": rng.randrange(10, 14), "tag": None, "pos": pos, "ori": ori,
            "fresh": rng.random() < 0.4}


def g_sensor(rng, maxlen=4, shape="rand"):
    pos, ori = g_path(rng, maxlen)
    kind = rng.random()
    if kind < 0.25:
        ori = [octa.IDENT] * len(pos)              # unrotated
    elif kind < 0.5:
        ori = [ori[0]] * len(pos)                  # static orientation / translation path
    if shape == "rand":
        shape = rng.choice([None, (), (2,), (3,), (2, 2), (1, 3)])
    if shape is None:
        pixel = None
    else:
        pixel = np.array([rng.randint(-2, 2) for _ in range(int(np.prod(shape)) * 3)]).reshape(*shape, 3).tolist()
    return {"pos": pos, "ori": ori, "pixel": pixel, "left": rng.random() < 0.3}


def g_tree(rng, depth, maxlen):
    kids = []
    for _ in range(rng.randint(1, 3)):
        x = rng.random()
        if x < 0.2 and depth > 0:
            kids.append(g_tree(rng, depth - 1, maxlen))
        elif x < 0.3:
            kids.append({"sensor": g_sensor(rng, maxlen)})
        else:
            kids.append(g_leaf(rng, maxlen))
    if not any("key" in k for k in flatten_tree({"children": kids})):
        kids.append(g_leaf(rng, maxlen))
    pos, ori = g_path(rng, 2)
    return {"children": kids, "pos": pos, "ori": ori}


def flatten_tree(t):
    out = []
    for c in t["children"]:
        if "children" in c:
            out += flatten_tree(c)
        elif "key" in c:
            out.append(c)
    return out


def g_case(rng, max_src=4, max_sens=3, maxlen=4):
    srcs = []
    for i in range(rng.randint(1, max_src)):
        x = rng.random()
        if x < 0.1 and srcs:
            srcs.append({"dup": rng.randrange(len(srcs))})
        elif x < 0.45:
            srcs.append({"tree": g_tree(rng, 1, maxlen)})
        else:
            srcs.append({"leaf": g_leaf(rng, maxlen)})
    agg = rng.choice([0, 0, 0, 1, 2, 3])
    nsens = rng.randint(1, max_sens)
    sens = []
    shape0 = rng.choice([None, (), (2,), (3,), (2, 2)])
    for i in range(nsens):
        if sens and rng.random() < 0.1:
            sens.append({"dup": rng.randrange(len(sens))})
        else:
            # without pixel_agg all pixel SHAPES must agree (None and (3,) both count as (1,3))
            sens.append(g_sensor(rng, maxlen, shape="rand" if agg else shape0))
    return {"sources": srcs, "sensors": sens, "agg": agg, "sumup": rng.random() < 0.2}


# ------------------------------------------------------------------ build real objects
def build_leaf(l):
    rot = octa.rot(l["ori"])
    if l["key"] < 10:
        return STUBS[l["key"]](l["tag"], position=l["pos"], orientation=rot)
    ff = make_custom(l["key"]) if l.get("fresh") else CUSTOM[l["key"]]
    return magpy.misc.CustomSource(field_func=ff, position=l["pos"], orientation=rot)


def build_sensor(s):
    return magpy.Sensor(position=s["pos"], orientation=octa.rot(s["ori"]), pixel=s["pixel"],
                        handedness="left" if s["left"] else "right")


def build_tree(t):
    kids = []
    for c in t["children"]:
        if "children" in c:
            kids.append(build_tree(c))
        elif "sensor" in c:
            kids.append(build_sensor(c["sensor"]))
        else:
            kids.append(build_leaf(c))
    col = magpy.Collection(*kids)
    col._position = np.array(t["pos"], dtype=float)       # own pose is irrelevant for the field
    from scipy.spatial.transform import Rotation as R
    col._orientation = octa.rot(t["ori"])
    return col


def build(case):
    srcs = []
    for s in case["sources"]:
        if "dup" in s:
            srcs.append(srcs[s["dup"]])
        elif "tree" in s:
            srcs.append(build_tree(s["tree"]))
        else:
            srcs.append(build_leaf(s["leaf"]))
    sens = []
    for s in case["sensors"]:
        sens.append(sens[s["dup"]] if "dup" in s else build_sensor(s))
    return srcs, sens


AGG = {0: None, 1: "sum", 2: "min", 3: "max"}


def impl_run(case, field="B"):
    srcs, sens = build(case)
    B = magpy.getB(srcs, sens, squeeze=False, sumup=case["sumup"], pixel_agg=AGG[case["agg"]]) \
        if field == "B" else magpy.getH(srcs, sens, squeeze=False, sumup=case["sumup"], pixel_agg=AGG[case["agg"]])
    sh = B.shape
    B = B.reshape(sh[0], sh[1], sh[2], -1, 3)
    return octa.ints(B)


# ------------------------------------------------------------------ Coq text
def c_leaf(l):
    tag = clist([cz(t) for t in (l["tag"] or [])])
    return "(mkLeaf %s %s %d%%nat %s)" % (clist([cv(p) for p in l["pos"]]), clist([coct(i) for i in l["ori"]]),
                                         l["key"], tag)


def resolve(items):
    out = []
    for s in items:
        out.append(out[s["dup"]] if "dup" in s else s)
    return out


def c_src(s):
    if "tree" in s:
        return "(Coll " + clist([c_leaf(l) for l in flatten_tree(s["tree"])]) + ")"
    return "(Bare " + c_leaf(s["leaf"]) + ")"


def pix_flat(s):
    if s["pixel"] is None:
        return [[0, 0, 0]], [1, 3]
    a = np.array(s["pixel"])
    shape = [1, 3] if a.shape == (3,) else list(a.shape)
    return a.reshape(-1, 3).tolist(), shape


def c_sens(s):
    flat, shape = pix_flat(s)
    return "(mkSens %s %s %s %s %s)" % (
        clist([cv(p) for p in s["pos"]]), clist([coct(i) for i in s["ori"]]),
        clist([cv(p) for p in flat]), clist([f"{n}%nat" for n in shape]), "true" if s["left"] else "false")


def c_out(out):
    return clist([clist([clist([clist([cv(v) for v in px]) for px in row]) for row in blk]) for blk in out])


def c_case(case, out):
    return "(mkL2 %s %s %d%%nat %s %s)" % (
        clist([c_src(s) for s in resolve(case["sources"])]), clist([c_sens(s) for s in resolve(case["sensors"])]),
        case["agg"], "true" if case["sumup"] else "false", c_out(out))


HEADER = """From Coq Require Import ZArith List Bool.
From MV Require Import Lib.ListZ Lib.Rigid Lib.OctZ Model.Level2Model Model.Level2Exec.
Import ListNotations. Open Scope Z_scope.
"""


def model_check(ctx, tag, cases_outs, chunk=60):
    """indices of cases where the Coq model (or the declarative spec) differs from the implementation"""
    bad = []
    for ci in range(0, len(cases_outs), chunk):
        part = cases_outs[ci:ci + chunk]
        txt = HEADER + "Definition cases : list l2case :=\n" + \
            "[" + ";\n ".join(c_case(c, o) for c, o in part) + "].\nEval vm_compute in (failing_l2 cases).\n"
        ok, out = ctx.coq_eval(f"l2_{tag}_{ci}", txt)
        res = octa.parse_z_list(out) if ok else None
        if res is None:
            ctx.add_broken("broken-correspondence", f"l2_{tag}_{ci}", "model evaluation failed:\n" + out[-1500:])
            return None
        bad += [ci + i for i in res]
    return bad


# ------------------------------------------------------------------ python oracle = the property itself, element by element
def oracle_element(case, field="B"):
    """expected (L, M, K, pix, 3) by evaluating each source leaf alone, at each path index, at each
    pixel of each sensor alone, through the public API with single static objects"""
    from scipy.spatial.transform import Rotation as R
    srcs = resolve(case["sources"])
    sens = resolve(case["sensors"])
    leaves = [flatten_tree(s["tree"]) if "tree" in s else [s["leaf"]] for s in srcs]
    M = max([len(l["pos"]) for ls in leaves for l in ls] + [len(s["pos"]) for s in sens])
    out = []
    for ls in leaves:
        blk = []
        for m in range(M):
            row = []
            for s in sens:
                sm = min(m, len(s["pos"]) - 1)
                Rs = octa.ROT_MATS[s["ori"][sm]]
                flat, _ = pix_flat(s)
                vals = []
                for pix in flat:
                    o = Rs @ np.array(pix) + np.array(s["pos"][sm])
                    tot = np.zeros(3)
                    for l in ls:
                        lm = min(m, len(l["pos"]) - 1)
                        one = dict(l, pos=[l["pos"][lm]], ori=[l["ori"][lm]])
                        src = build_leaf(one)
                        tot = tot + (src.getB(o) if field == "B" else src.getH(o))
                    v = Rs.T @ tot
                    if s["left"]:
                        v = v * np.array([-1, 1, 1])
                    vals.append(v)
                vals = np.array(vals)
                if case["agg"]:
                    vals = getattr(np, AGG[case["agg"]])(vals, axis=0, keepdims=True)
                row.append(vals.tolist())
            blk.append(row)
        out.append(blk)
    if case["sumup"]:
        out = [np.sum(np.array(out, dtype=float), axis=0).tolist()]
    return out
