"""delta-debugging style shrinking of a list while a predicate keeps failing"""


def shrink_list(items, fails, max_steps=200):
    items = list(items)
    steps = 0
    chunk = max(1, len(items) // 2)
    while chunk >= 1 and steps < max_steps:
        i, progressed = 0, False
        while i < len(items) and steps < max_steps:
            cand = items[:i] + items[i + chunk:]
            steps += 1
            if fails(cand):
                items, progressed = cand, True
            else:
                i += chunk
        if not progressed:
            chunk //= 2
    return items
