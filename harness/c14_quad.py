"""C14 -- globally adaptive Gauss-Legendre quadrature on unions of parameter boxes, vectorised.

The domain is a list of patches, each [0,1]^dim (dim 1: pieces of a closed loop, dim 2: pieces of
a closed surface).  `f(pid, U)` gets patch ids (m,) and parameters (m,dim) and returns
(integrand (m,), |field| (m,)): the integrand already contains the Jacobian (F.n dA/du dv or
F.dl/du).

Tree: a *node* is a box with the n^dim-point Gauss-Legendre value V of the integrand on it.  A
*leaf* is a node whose 2^dim children have been evaluated: value = sum of the children's V,
error estimate = |value - V|.  The global estimate is the sum over leaves, the global error
estimate E the sum of the leaf estimates.  Each round refines the leaves that exceed their fair
share of the target, largest first, within the evaluation budget.  E is what the caller's alarm
threshold is built from, so a case that did not converge can never raise an alarm: it only
makes the threshold large (and is reported as inconclusive beyond a limit).
"""
import numpy as np

_GL = {}


def gl(n):
    if n not in _GL:
        x, w = np.polynomial.legendre.leggauss(n)
        _GL[n] = (0.5 * (x + 1.0), 0.5 * w)
    return _GL[n]


class Result:
    __slots__ = ("value", "err", "maxmag", "l1", "evals", "leaves", "finite", "rounds")

    def __repr__(self):
        return (f"Result(value={self.value:.6e}, err={self.err:.3e}, maxmag={self.maxmag:.3e}, "
                f"evals={self.evals}, leaves={self.leaves}, finite={self.finite})")


def _corners(dim):
    if dim == 1:
        return np.array([[0.0], [1.0]])
    return np.array([[0.0, 0.0], [0.0, 1.0], [1.0, 0.0], [1.0, 1.0]])


def _rule(f, pid, lo, hi, n, dim, stat, flagf=None):
    """GL value on each box: pid (k,), lo/hi (k,dim) -> (k,), and the jump bound of each box:
    0 where the flag function (the polarization J seen at the point, i.e. which magnets contain it)
    is constant over the box's nodes and corners, else (max - min of the integrand density over the
    nodes) * measure of the box -- the integrand jumps where the surface / loop crosses a magnet
    boundary, and |fine - coarse| can be accidentally tiny on such a box"""
    x, w = gl(n)
    k = len(pid)
    if dim == 1:
        g = x[:, None]
        ww = w
    else:
        gx, gy = np.meshgrid(x, x, indexing="ij")
        g = np.stack([gx.ravel(), gy.ravel()], axis=1)
        ww = (w[:, None] * w[None, :]).ravel()
    m = len(ww)
    U = lo[:, None, :] + (hi - lo)[:, None, :] * g[None, :, :]
    P = np.repeat(pid, m)
    vals, mag = f(P, U.reshape(k * m, dim))
    stat["evals"] += k * m
    if not (np.all(np.isfinite(vals)) and np.all(np.isfinite(mag))):
        stat["finite"] = False
        vals = np.nan_to_num(vals, nan=0.0, posinf=0.0, neginf=0.0)
        mag = np.nan_to_num(mag, nan=0.0, posinf=0.0, neginf=0.0)
    if len(mag):
        stat["maxmag"] = max(stat["maxmag"], float(np.max(mag)))
    vol = np.prod(hi - lo, axis=1)
    V = (vals.reshape(k, m) * ww[None, :]).sum(axis=1) * vol
    A = (np.abs(vals).reshape(k, m) * ww[None, :]).sum(axis=1) * vol      # integral of |integrand|
    bound = np.zeros(k)
    if flagf is not None and k:
        cg = _corners(dim)
        gg = np.concatenate([g, cg])
        mm = len(gg)
        Uf = lo[:, None, :] + (hi - lo)[:, None, :] * gg[None, :, :]
        fl = np.asarray(flagf(np.repeat(pid, mm), Uf.reshape(k * mm, dim)), dtype=float).reshape(k, mm, -1)
        stat["flag_evals"] = stat.get("flag_evals", 0) + k * mm
        cut = np.any(fl.max(axis=1) != fl.min(axis=1), axis=1)
        vv = vals.reshape(k, m)
        bound = np.where(cut, (vv.max(axis=1) - vv.min(axis=1)) * vol, 0.0)
    return V, bound, A


def _split(pid, lo, hi, dim):
    """children of each box, child-major: returns pid (k*C,), lo, hi with C = 2^dim, box i's
    children at rows i*C .. i*C+C-1"""
    mid = 0.5 * (lo + hi)
    k = len(pid)
    if dim == 1:
        clo = np.stack([lo, mid], axis=1)
        chi = np.stack([mid, hi], axis=1)
        C = 2
    else:
        C = 4
        clo = np.empty((k, 4, 2))
        chi = np.empty((k, 4, 2))
        j = 0
        for ix in (0, 1):
            for iy in (0, 1):
                clo[:, j, 0] = lo[:, 0] if ix == 0 else mid[:, 0]
                chi[:, j, 0] = mid[:, 0] if ix == 0 else hi[:, 0]
                clo[:, j, 1] = lo[:, 1] if iy == 0 else mid[:, 1]
                chi[:, j, 1] = mid[:, 1] if iy == 0 else hi[:, 1]
                j += 1
    return np.repeat(pid, C), clo.reshape(k * C, dim), chi.reshape(k * C, dim), C


def integrate(f, dim, npatch, init, measure, target_rel, max_evals, n=5, max_rounds=60, flagf=None):
    """integrate f over `npatch` patches [0,1]^dim, each first cut into init^dim boxes.
    `measure`: total length / area (for the scale max|F| * measure)."""
    stat = {"evals": 0, "finite": True, "maxmag": 0.0}
    ax = np.linspace(0.0, 1.0, init + 1)
    if dim == 1:
        lo0 = ax[:-1, None]
        hi0 = ax[1:, None]
    else:
        a, b = np.meshgrid(ax[:-1], ax[:-1], indexing="ij")
        lo0 = np.stack([a.ravel(), b.ravel()], axis=1)
        hi0 = lo0 + 1.0 / init
    nb = len(lo0)
    pid = np.repeat(np.arange(npatch), nb)
    lo = np.tile(lo0, (npatch, 1))
    hi = np.tile(hi0, (npatch, 1))
    V, _, _ = _rule(f, pid, lo, hi, n, dim, stat, flagf)

    def expand(pid, lo, hi, V):
        cp, clo, chi, C = _split(pid, lo, hi, dim)
        cV, cB, cA = _rule(f, cp, clo, chi, n, dim, stat, flagf)
        val = cV.reshape(-1, C).sum(axis=1)
        return {"cp": cp.reshape(-1, C), "clo": clo.reshape(-1, C, dim), "chi": chi.reshape(-1, C, dim),
                "cV": cV.reshape(-1, C), "val": val, "abs": cA.reshape(-1, C).sum(axis=1),
                "err": np.abs(val - V) + cB.reshape(-1, C).sum(axis=1)}

    L = expand(pid, lo, hi, V)
    C = L["cV"].shape[1]
    per_leaf = C * C * (n ** dim)
    rounds = 0
    while True:
        E = float(L["err"].sum())
        # the target is relative to the integral of |integrand| (the conditioning scale of the sum), not to
        # max|F| * measure: a long loop that comes close to a wire has a tiny integral of |H.dl| compared
        # with max|H| * length
        target = target_rel * float(L["abs"].sum())
        rounds += 1
        if E <= target or rounds > max_rounds or not stat["finite"]:
            break
        room = (max_evals - stat["evals"]) // per_leaf
        if room < 1:
            break
        k = len(L["err"])
        cand = np.nonzero(L["err"] > target / (2.0 * k))[0]
        if len(cand) == 0:
            break
        if len(cand) > room:
            order = np.argsort(-L["err"][cand], kind="stable")
            cand = cand[order[:room]]
        keep = np.ones(k, dtype=bool)
        keep[cand] = False
        # children of the refined leaves become nodes, then leaves
        npid = L["cp"][cand].reshape(-1)
        nlo = L["clo"][cand].reshape(-1, dim)
        nhi = L["chi"][cand].reshape(-1, dim)
        nV = L["cV"][cand].reshape(-1)
        N = expand(npid, nlo, nhi, nV)
        L = {key: np.concatenate([L[key][keep], N[key]]) for key in L}
    r = Result()
    r.value = float(L["val"].sum())
    r.err = float(L["err"].sum())
    r.maxmag = stat["maxmag"]
    r.l1 = float(L["abs"].sum())
    r.evals = stat["evals"]
    r.leaves = len(L["val"])
    r.finite = stat["finite"]
    r.rounds = rounds
    return r
