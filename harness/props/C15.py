"""C15 -- every finite input yields a finite field in bounded time.

stage 1  translate/gen_loop.py regenerates Gen/GenLoop.v (loop tests, bodies, returns of special_cel.py)
stage 2  Props/C15.v: termination of the AGM-type loops over R with explicit N, guards of the circle /
         cylinder-axial wrappers, and the binary64 refutation (C15_cel_iter_terminates_refuted)
stage 3  bit-exact correspondence of the fuelled float model (vm_compute, primitive binary64) with the
         real cel0 / celv / cel / cel_iter0 / cel_iterv / cel_iter / current_circle_Hfield /
         magnet_cylinder_axial_Bfield / BHJM_circle: values AND iteration counts (the real loops are
         counted by instrumenting their `while` statements at run time)
stage 4  search on the implementation: exact special sets of every geometry +- ulp / sub-normal offsets,
         zero-size and zero-excitation sources, distances to 1e12 sizes, B and H, every call under a
         watchdog; oracle: returns, shape (n,3), finite (documented singular points excepted)
"""
import ast
import inspect
import json
import math
import re
import signal
import struct
import time

import numpy as np

from harness.common import run_guarded, REPO

import magpylib as magpy
from magpylib._src.fields import special_cel
from magpylib._src.fields.field_BH_circle import BHJM_circle

FUEL = 400          # far above any iteration count of a terminating binary64 run (<= ~12)


# ====================================================================== watchdog
class Hang(Exception):
    pass


def _alarm(signum, frame):
    raise Hang()


def guarded(fn, seconds):
    """run fn() under a wall-clock watchdog; returns ('ok', value) | ('hang', None) | ('raise', exc)"""
    old = signal.signal(signal.SIGALRM, _alarm)
    signal.setitimer(signal.ITIMER_REAL, seconds)
    try:
        return "ok", fn()
    except Hang:
        return "hang", None
    except Exception as e:   # pylint: disable=broad-except
        return "raise", e
    finally:
        signal.setitimer(signal.ITIMER_REAL, 0)
        signal.signal(signal.SIGALRM, old)


def guarded_confirm(fn, seconds, confirm=12.0):
    """a hang is only reported after a second, much longer, attempt also fails to return"""
    st, v = guarded(fn, seconds)
    if st == "hang":
        st, v = guarded(fn, confirm)
    return st, v


# ====================================================================== float <-> Coq text
def cf(x):
    x = float(x)
    if not math.isfinite(x):
        raise ValueError("non-finite model input")
    h = float.hex(x)
    return f"({h})%float"


def ctuple(xs):
    return "(" + ", ".join(cf(x) for x in xs) + ")"


def clist(items):
    return "[" + "; ".join(items) + "]"


def bits(x):
    return struct.pack("<d", float(x))


def same_float(a, b):
    a, b = float(a), float(b)
    if math.isnan(a) or math.isnan(b):
        return math.isnan(a) and math.isnan(b)
    return bits(a) == bits(b)


def parse_results(out):
    """all `= <value>` blocks of a coqc run -> python objects ((code, [floats]) tuples or lists of them)"""
    res = []
    for m in re.finditer(r"^\s*=\s(.*?)^\s*:\s", out, flags=re.S | re.M):
        t = m.group(1)
        t = t.replace("%float", "").replace("%Z", "")
        t = re.sub(r"\(-0\)", "(-0.0)", t)
        t = t.replace("neg_infinity", "'-inf'").replace("infinity", "'inf'").replace("nan", "'nan'")
        t = t.replace(";", ",").replace("true", "True").replace("false", "False")
        res.append(ast.literal_eval(" ".join(t.split())))
    return res


def fl(v):
    return float(v)


HEADER = """From Coq Require Import ZArith List Bool.
From Coq Require Import Floats.PrimFloat.
From MV Require Import Model.LoopNum Gen.GenLoop Model.LoopModel Model.LoopExec.
Import ListNotations.
"""


# ====================================================================== the real loops, counted
def instrumented():
    """the four loop functions of the CURRENT special_cel.py with a counter in every `while` body"""
    src = inspect.getsource(special_cel)
    tree = ast.parse(src)
    for node in ast.walk(tree):
        if isinstance(node, ast.While):
            inc = ast.parse("__n[0] += 1").body[0]
            node.body.insert(0, inc)
    ast.fix_missing_locations(tree)
    ns = {"__n": [0]}
    exec(compile(tree, "<special_cel instrumented>", "exec"), ns)   # pylint: disable=exec-used
    return ns


def counted(ns, name, *args):
    ns["__n"][0] = 0
    st, v = guarded_confirm(lambda: ns[name](*args), 1.0, 6.0)
    return st, v, ns["__n"][0]


# ====================================================================== generators of loop inputs
def ulp_step(x, k):
    y = float(x)
    for _ in range(abs(k)):
        y = math.nextafter(y, math.inf if k > 0 else -math.inf)
    return y


def circle_inputs(rng, n):
    """(r0, r, z, i0) rows, general-case style, many near the wire"""
    out = []
    for _ in range(n):
        r0 = rng.choice([1.0, 0.5, 2.0, 3.7, 1e-3, 1e3, rng.uniform(0.1, 10)])
        kind = rng.random()
        if kind < 0.35:
            r = r0 * rng.choice([1.0, 1 + 1e-14, 1 - 1e-14, 1 + 1e-9, 1 - 1e-6, 1 + 1e-3])
            z = r0 * rng.choice([1e-14, -1e-12, 1e-9, 1e-6, 1e-3, 1e-100, 1e-150, -1e-140])
        elif kind < 0.5:
            r = r0 * rng.choice([1e-12, 1e-6, 1e-3, 0.05, 0.5])
            z = r0 * rng.choice([0.0, 1e-9, 0.3, -2.0])
        elif kind < 0.65:
            r = r0 * rng.choice([1e3, 1e6, 1e12])
            z = r0 * rng.choice([0.0, 1.0, -1e6, 1e12])
        else:
            r = r0 * rng.uniform(0.01, 3)
            z = r0 * rng.uniform(-3, 3)
        out.append((r0, r, z, rng.choice([1.0, -2.5, 1e3, 0.0, 1e-6])))
    return out


def circle_mid_py(r0, r, z):
    """start values exactly as current_circle_Hfield computes them (numpy float64 scalar arithmetic)"""
    r0, r, z = np.float64(r0), np.float64(r), np.float64(z)
    with np.errstate(all="ignore"):
        r = r / r0
        z = z / r0
        z2 = z ** 2
        x0 = z2 + (r + 1) ** 2
        k2 = 4 * r / x0
        q2 = (z2 + (r - 1) ** 2) / x0
        q = np.sqrt(q2)
        p = 1 + q
        cc = k2 * k2
        ss = 2 * cc * q / p
        cc2 = k2 * (k2 - (q2 + 1) / r)
        ss2 = 2 * k2 * q * (k2 / p - p / r)
    return [(q, p, np.float64(1.0), cc, ss, p, q), (q, p, np.float64(1.0), cc2, ss2, p, q)]


def cel_inputs(rng, n):
    out = []
    for _ in range(n):
        kc = rng.choice([1.0, 0.5, 1e-3, 1e-8, 1e-15, 1e-100, 1e-300, rng.uniform(1e-6, 1), -rng.uniform(0.01, 1)])
        p = rng.choice([1.0, 0.25, 1e-6, 0.0, -0.5, -3.0, rng.uniform(0.01, 4), 1e4])
        c = rng.choice([1.0, 0.0, rng.uniform(-2, 2)])
        s = rng.choice([1.0, -1.0, 0.3, rng.uniform(-2, 2)])
        out.append((kc, p, c, s))
    return out


def cyl_inputs(rng, n):
    """(z0, r, z) dimensionless rows off the edge"""
    out = []
    for _ in range(n):
        z0 = rng.choice([1.0, 0.5, 2.0, 1e-3, 1e3, rng.uniform(0.1, 5)])
        kind = rng.random()
        if kind < 0.4:
            r = rng.choice([1.0, 1 + 1e-14, 1 - 1e-14, 1 + 1e-9, 1 - 1e-6])
            z = z0 * rng.choice([1 + 1e-14, 1 - 1e-12, 1 + 1e-9, -1 - 1e-6, 1 + 1e-3, 0.5, 0.0])
        elif kind < 0.55:
            r = rng.choice([0.0, 1e-12, 1e-6, 0.05])
            z = z0 * rng.choice([0.0, 1.0, -1.0, 0.3, 3.0])
        elif kind < 0.7:
            r = rng.choice([1e3, 1e6, 1e12])
            z = rng.choice([0.0, z0, -1e6, 1e12])
        else:
            r = rng.uniform(0.01, 3)
            z = rng.uniform(-3, 3) * z0
        out.append((z0, r, z))
    return out


# ====================================================================== correspondence
def cmp_scalar(ctx, kind, inp, model, st, val, cnt, bad):
    """model = (code, [v]); real = status / value / loop count"""
    code, vals = model
    if st == "hang":
        ok = code == -1
    elif st == "raise":
        ok = code == -2
    else:
        ok = code == cnt and len(vals) == 1 and same_float(vals[0], val)
    ctx.case((kind, [float(x) for x in inp]), True)
    ctx.bump(f"{kind}:{'hang' if st == 'hang' else 'raise' if st == 'raise' else 'iters=' + str(cnt)}")
    if ok:
        ctx.count("traces_validated_against_impl")
    else:
        bad.append({"kind": kind, "input": [float.hex(float(x)) for x in inp], "model": repr(model),
                    "impl": f"{st} value={val!r} loop_count={cnt}"})
    return ok


def cmp_vector(ctx, kind, inp, model, st, val, cnt, bad, flat=None):
    code, vals = model
    if st == "hang":
        ok = code == -1
    elif st == "raise":
        ok = code == -2
    else:
        real = list(np.asarray(val, dtype=float).ravel()) if flat is None else flat(val)
        ok = (cnt is None or code == cnt) and len(vals) == len(real) and all(same_float(a, b) for a, b in zip(vals, real))
    ctx.case((kind, json.dumps([[float(x) for x in row] for row in inp])), True)
    ctx.bump(f"{kind}:n={len(inp)}:{'hang' if st == 'hang' else 'raise' if st == 'raise' else 'ok'}")
    if ok:
        ctx.count("traces_validated_against_impl")
    else:
        bad.append({"kind": kind, "input": [[float.hex(float(x)) for x in row] for row in inp], "model": repr(model)[:600],
                    "impl": f"{st} value={np.asarray(val).tolist() if st == 'ok' else val!r} loop_count={cnt}"})
    return ok


def correspondence(ctx, built):
    rng = ctx.rng
    ns = instrumented()
    bad = []
    nsc = ctx.n(150, 1500)
    # ---------------- inputs
    it0 = []
    for row in circle_inputs(rng, nsc):
        it0 += circle_mid_py(*row[:3])
    it0.append(circle_mid_py(1.0, 1.0, 1e-170)[0])              # the known non-terminating start values
    it0 = [s for s in it0 if all(math.isfinite(float(x)) for x in s)]
    c0 = cel_inputs(rng, nsc) + [(0.0, 1.0, 1.0, 1.0)]
    nb = ctx.n(40, 400)
    itv = []
    for _ in range(nb):
        k = rng.choice([1, 2, 5, 14, 15, 16, 23])
        rows = [rng.choice(it0[:-1]) for _ in range(k)]
        itv.append(rows)
    cv = []
    for _ in range(nb):
        k = rng.choice([1, 3, 9, 10, 11, 17])
        cv.append([rng.choice(c0[:-1]) for _ in range(k)])
    circ = []
    for _ in range(nb):
        k = rng.choice([1, 2, 7, 14, 15, 20])
        circ.append(circle_inputs(rng, k))
    cyl = []
    for _ in range(nb):
        k = rng.choice([1, 2, 9, 10, 12])
        cyl.append(cyl_inputs(rng, k))
    wrap = []
    for _ in range(nb):
        k = rng.choice([1, 4, 16])
        rows = []
        for _ in range(k):
            d = rng.choice([2.0, 1.0, -3.0, 0.0, 7.4])
            r0 = abs(d / 2)
            x = rng.choice([0.0, r0, ulp_step(r0, 1), ulp_step(r0, -3), r0 * (1 + 3e-15), r0 * 0.4, r0 * 5, 1.0])
            z = rng.choice([0.0, 1e-9, -0.7, 2.0, 1e-20])
            rows.append((x, z, d, rng.choice([1.0, -2.0, 0.0])))
        wrap.append(rows)

    # ---------------- the implementation
    real_it0 = [counted(ns, "cel_iter0", *s) for s in it0]
    real_c0 = [counted(ns, "cel0", *s) for s in c0]
    with np.errstate(all="ignore"):
        real_itv = [counted(ns, "cel_iterv", *[np.array(c, dtype=float) for c in zip(*rows)]) for rows in itv]
        real_it = [guarded_confirm(lambda rows=rows: special_cel.cel_iter(*[np.array(c, dtype=float) for c in zip(*rows)]), 2.0)
                   for rows in itv]
        real_cv = [counted(ns, "celv", *[np.array(c, dtype=float) for c in zip(*rows)]) for rows in cv]
        real_c = [guarded_confirm(lambda rows=rows: special_cel.cel(*[np.array(c, dtype=float) for c in zip(*rows)]), 2.0)
                  for rows in cv]
        real_circ = [guarded_confirm(lambda rows=rows: magpy.core.current_circle_Hfield(
            *[np.array(c, dtype=float) for c in zip(*rows)]), 2.0) for rows in circ]
        real_cyl = [guarded_confirm(lambda rows=rows: magpy.core.magnet_cylinder_axial_Bfield(
            *[np.array(c, dtype=float) for c in zip(*rows)]), 2.0) for rows in cyl]
        real_wrap = []
        for rows in wrap:
            obs = np.array([(x, 0.0, z) for x, z, _, _ in rows], dtype=float)
            dia = np.array([d for _, _, d, _ in rows], dtype=float)
            cur = np.array([i for _, _, _, i in rows], dtype=float)
            real_wrap.append(guarded_confirm(lambda o=obs, d=dia, c=cur: BHJM_circle("H", o, d, c), 2.0))
    # the instrumented copies must be the same functions as the real ones
    for s, (st, v, _) in list(zip(it0, real_it0))[:40]:
        if st == "ok" and not same_float(v, special_cel.cel_iter0(*s)):
            ctx.add_broken("broken-correspondence", "instrumented cel_iter0 differs from the real one", repr(s))
    for s, (st, v, _) in list(zip(c0, real_c0))[:40]:
        if st == "ok" and not same_float(v, special_cel.cel0(*s)):
            ctx.add_broken("broken-correspondence", "instrumented cel0 differs from the real one", repr(s))
    if not built:
        return

    # ---------------- the model on the same inputs
    txt = HEADER
    txt += f"Eval vm_compute in (map (run_cel_iter0 {FUEL}) {clist([ctuple(s) for s in it0])}).\n"
    txt += f"Eval vm_compute in (map (run_cel0 {FUEL}) {clist([ctuple(s) for s in c0])}).\n"
    txt += f"Eval vm_compute in (map (run_cel_iterv {FUEL}) {clist([clist([ctuple(s) for s in rows]) for rows in itv])}).\n"
    txt += f"Eval vm_compute in (map (run_cel_iter {FUEL}) {clist([clist([ctuple(s) for s in rows]) for rows in itv])}).\n"
    txt += f"Eval vm_compute in (map (run_celv {FUEL}) {clist([clist([ctuple(s) for s in rows]) for rows in cv])}).\n"
    txt += f"Eval vm_compute in (map (run_cel {FUEL}) {clist([clist([ctuple(s) for s in rows]) for rows in cv])}).\n"
    txt += f"Eval vm_compute in (map (run_circle_core {FUEL}) {clist([clist([ctuple(s) for s in rows]) for rows in circ])}).\n"
    txt += f"Eval vm_compute in (map (run_cyl_axial {FUEL}) {clist([clist([ctuple(s) for s in rows]) for rows in cyl])}).\n"
    txt += f"Eval vm_compute in (map (fun rows => (run_circle_masks rows, run_circle_general {FUEL} rows)) " \
           f"{clist([clist([ctuple(s) for s in rows]) for rows in wrap])}).\n"
    ok, out = ctx.coq_eval(f"c15_{ctx.tier}", txt, timeout=900)
    res = parse_results(out) if ok else None
    if res is None or len(res) != 9:
        ctx.add_broken("broken-correspondence", "c15 model evaluation", out[-2500:])
        return
    m_it0, m_c0, m_itv, m_it, m_cv, m_c, m_circ, m_cyl, m_wrap = res
    for s, m, (st, v, n) in zip(it0, m_it0, real_it0):
        cmp_scalar(ctx, "cel_iter0", s, m, st, v, n, bad)
    for s, m, (st, v, n) in zip(c0, m_c0, real_c0):
        cmp_scalar(ctx, "cel0", s, m, st, v, n, bad)
    for rows, m, (st, v, n) in zip(itv, m_itv, real_itv):
        cmp_vector(ctx, "cel_iterv", rows, m, st, v, n, bad)
    for rows, m, (st, v) in zip(itv, m_it, real_it):
        cmp_vector(ctx, "cel_iter", rows, m, st, v, None, bad)
    for rows, m, (st, v, n) in zip(cv, m_cv, real_cv):
        cmp_vector(ctx, "celv", rows, m, st, v, n, bad)
    for rows, m, (st, v) in zip(cv, m_c, real_c):
        cmp_vector(ctx, "cel", rows, m, st, v, None, bad)
    for rows, m, (st, v) in zip(circ, m_circ, real_circ):
        cmp_vector(ctx, "current_circle_Hfield", rows, m, st, v, None, bad,
                   flat=lambda a: [x for hr, hz in zip(a[0], a[2]) for x in (hr, hz)])
    for rows, m, (st, v) in zip(cyl, m_cyl, real_cyl):
        cmp_vector(ctx, "magnet_cylinder_axial_Bfield", rows, m, st, v, None, bad,
                   flat=lambda a: [x for br, bz in zip(a[0], a[2]) for x in (br, bz)])
    for rows, (masks, gen), (st, v) in zip(wrap, m_wrap, real_wrap):
        ctx.case(("BHJM_circle", json.dumps(rows)), True)
        okw = True
        if st == "hang":
            okw = gen[0] == -1
        elif st == "raise":
            okw = False
        else:
            gi = 0
            for row, mk, h in zip(rows, masks, v):
                ctx.bump(f"BHJM_circle:mask{mk}")
                if mk in (1, 2):
                    okw &= bool(np.all(h == 0))
                elif mk == 3:
                    okw &= bool(h[0] == 0 and h[1] == 0)
                else:
                    okw &= gen[0] >= 0 and 2 * gi + 1 < len(gen[1]) and same_float(h[0], gen[1][2 * gi]) \
                        and same_float(h[2], gen[1][2 * gi + 1]) and h[1] == 0
                    gi += 1
        if okw:
            ctx.count("traces_validated_against_impl")
        else:
            bad.append({"kind": "BHJM_circle", "input": rows, "model": repr((masks, gen))[:600],
                        "impl": f"{st} {np.asarray(v).tolist() if st == 'ok' else v!r}"})
    ctx.samples.append({"cel_iter0_start": [float(x) for x in it0[0]], "model": repr(m_it0[0]),
                        "impl": repr(real_it0[0])})
    ctx.samples.append({"known_divergent_start": [float(x) for x in it0[-1]], "model": repr(m_it0[-1]),
                        "impl": repr(real_it0[-1][0])})
    for b in bad[:5]:
        ctx.add_broken("broken-correspondence", f"LoopModel vs implementation ({b['kind']})", json.dumps(b, default=str))


# ====================================================================== search on the implementation
# Every special coordinate ("base") of a geometry is visited exactly and at fixed offsets of five KINDS:
#   exact | ulp (1..4 ulp) | sub (offset whose square underflows) | tiny (<= 1e-30 sizes) | near (1e-15 .. 1e-9 sizes)
# The enumeration is deterministic (full product over the axes); the seed only selects the extra length scale.
def offsets(base, scale, rich):
    out = [("exact", base)]
    for k in ((1, -1, 4, -4, 2, -2) if rich else (1, -1, 4, -4)):
        out.append(("ulp", ulp_step(base, k)))
    subs = (5e-324, -1e-170, -5e-324, 1e-170, 1e-300, -1e-160) if rich else (5e-324, -1e-170)
    for sv in subs:
        if base + sv != base:
            out.append(("sub", base + sv))
    tinys = (1e-100, -1e-100, 1e-30, -1e-30) if rich else (1e-100, -1e-30)
    for rel in tinys:
        if base + rel * scale != base:
            out.append(("tiny", base + rel * scale))
    nears = (3e-15, -1e-12, 1e-9, -3e-15, 1e-12, -1e-9, 1e-15, -1e-15) if rich else (3e-15, -1e-12, 1e-9)
    for rel in nears:
        if base + rel * scale != base:
            out.append(("near", base + rel * scale))
    return out


def coord_set(bases, scale, rich, nonneg=False):
    """(tag, value, exact base value or None) for one generation axis"""
    out, seen = [], set()
    for name, b in bases:
        for kind, v in offsets(b, scale, rich):
            if (nonneg and v < 0) or v in seen:
                continue
            seen.add(v)
            if b == 0.0 and kind == "ulp":
                kind = "sub"                      # a few ulp of 0 are sub-normal offsets
            out.append((f"{name}:{kind}", v, b))
    out.append(("generic", 0.37 * scale, None))
    out.append(("generic", (1.21 if nonneg else -1.21) * scale, None))
    for m in (1e3, -1e6, 1e12):
        if not (nonneg and m < 0):
            out.append(("far", m * scale, None))
    return out


def product_points(axes):
    """full product: (tags, values, bases)"""
    pts = [((), (), ())]
    for ax in axes:
        pts = [(t + (tag,), v + (val,), bs + (bv,)) for t, v, bs in pts for tag, val, bv in ax]
    return pts


def cart_points(axes, sc):
    return [(t, v, {"kind": "cart", "coords": list(v), "bases": list(bs), "sc": sc}) for t, v, bs in product_points(axes)]


def cyl_points(raxis, zaxis, phis, sc, section=False):
    """phis: [(tag, angle)]; for sections the azimuth tag is part of the special set"""
    out = []
    for (tr, tz), (r, z), (rb, zb) in product_points([raxis, zaxis]):
        for tp, ph in phis:
            out.append(((tr, tz, tp), cyl_to_cart(r, ph, z),
                        {"kind": "cyl", "coords": [r, z], "bases": [rb, zb], "phi": ph, "sc": sc,
                         "alt_phis": [a for t, a in phis if t in ("phi-inside", "phi-outside")] if section else []}))
    return out


def to_xyz(gen, coords, phi=None):
    if gen["kind"] == "cart":
        q = tuple(coords)
    else:
        q = cyl_to_cart(coords[0], gen["phi"] if phi is None else phi, coords[1])
    sh = gen.get("shift")
    return q if sh is None else tuple(a + b for a, b in zip(q, sh))


def shifted(pts, pos):
    """the battery of a source that sits at `pos`: observers pos + p, kept where the sum is exact"""
    out = []
    for tags, p, gen in pts:
        q = tuple(a + b for a, b in zip(p, pos))
        if all(qq - b == a for qq, a, b in zip(q, p, pos)):
            g = dict(gen)
            g["shift"] = pos
            out.append((tags, q, g))
    return out


def cyl_to_cart(r, phi, z):
    if phi == 0.0:
        return (r, 0.0, z)
    if phi == "y":
        return (0.0, r, z)
    if phi == "-x":
        return (-r, 0.0, z)
    if phi == "-x-0":                      # azimuth -pi (arctan2(-0.0, -r)) instead of +pi
        return (-r, -0.0, z)
    if phi == "-y":
        return (0.0, -r, z)
    return (r * math.cos(phi), r * math.sin(phi), z)


def az(deg):
    """azimuth in degrees -> exact axis token where the direction is a coordinate axis (so that the observer's
    computed azimuth is EXACTLY that angle; -180 gives y = -0.0, i.e. arctan2 = -pi), else radians"""
    d = deg % 360.0
    if d == 0.0:
        return 0.0
    if d == 90.0:
        return "y"
    if d == 180.0:
        return "-x-0" if deg < 0 else "-x"
    if d == 270.0:
        return "-y"
    return math.radians(deg)


def near_vertex(verts, sc):
    """documented singular points of Triangle-based sources: the vertices; observers within 2e-9 sizes of
    a vertex are counted to the singular point (the exact field diverges there)"""
    va = np.array(verts, dtype=float)
    return lambda p: bool(np.any(np.max(np.abs(va - np.array(p, dtype=float)), axis=1) <= 2e-9 * sc))


def geometries(ctx):
    """yields (class name, variant label, source factory, points [(tags, xyz)], singular predicate, shrinkable)"""
    rich = ctx.tier == "thorough"
    scales = [1.0] + ([1e-3, 1e3, 1e-6] if rich else [ctx.rng.choice([1e-3, 1e3, 1e-6])])

    for sc in scales:
        first = sc == 1.0
        # ---- Cuboid
        a, b, c = 0.5 * sc, 1.0 * sc, 1.5 * sc
        axes = [coord_set([("0", 0.0), ("+face", h), ("-face", -h)], sc, rich and first) for h in (a, b, c)]
        pts = cart_points(axes, sc)
        for pol in ((0, 0, 1), (1, 1, 1), (0, 0, 0)):
            yield ("Cuboid", f"pol={pol},scale={sc:g}",
                   lambda pol=pol, dim=(2 * a, 2 * b, 2 * c): magpy.magnet.Cuboid(dimension=dim, polarization=pol), pts, None, True)
        if first:
            # every axis the long one, negative / single-axis polarizations, a body off its local origin
            for dims, pol in (((3.0, 1.0, 2.0), (-1, 0, 0)), ((2.0, 3.0, 1.0), (0, -1, 0)), ((1.0, 2.0, 3.0), (0.5, -1, 0))):
                ax2 = [coord_set([("0", 0.0), ("+face", h / 2), ("-face", -h / 2)], sc, False) for h in dims]
                yield ("Cuboid", f"dims={dims},pol={pol}",
                       lambda pol=pol, dim=dims: magpy.magnet.Cuboid(dimension=dim, polarization=pol), cart_points(ax2, sc), None, "lite")
            pos = (3.0, -2.0, 5.0)
            yield ("Cuboid", f"pol=(0, 0, 1),at={pos}",
                   lambda dim=(2 * a, 2 * b, 2 * c), pos=pos: magpy.magnet.Cuboid(dimension=dim, polarization=(0, 0, 1), position=pos),
                   shifted(pts, pos), None, "lite")
        # ---- Cylinder: (r, z) x azimuth; r == r0 exactly is reached at phi = 0, y, -x, -y
        r0, z0 = 1.0 * sc, 0.75 * sc
        raxis = coord_set([("axis", 0.0), ("hull", r0), ("r=0.05r0", 0.05 * r0)], sc, rich, nonneg=True)
        zaxis = coord_set([("0", 0.0), ("+base", z0), ("-base", -z0)], sc, rich)
        zaxis += [("inside", 0.3 * z0, None), ("inside", -0.9 * z0, None), ("above", 2.0 * z0, None), ("above", -3.0 * z0, None)]
        cpts = cyl_points(raxis, zaxis, [(f"phi={ph}", ph) for ph in (0.0, "y", "-x", "-y", 0.7)], sc)
        for pol in ((0, 0, 1), (1, 0, 0), (0.3, -0.4, 0.5), (0, 0, 0)):
            yield ("Cylinder", f"pol={pol},scale={sc:g}",
                   lambda pol=pol, dim=(2 * r0, 2 * z0): magpy.magnet.Cylinder(dimension=dim, polarization=pol), cpts, None, True)
        if first:
            pos = (3.0, -2.0, 5.0)
            yield ("Cylinder", f"pol=(0.3, -0.4, 0.5),at={pos}",
                   lambda dim=(2 * r0, 2 * z0), pos=pos: magpy.magnet.Cylinder(dimension=dim, polarization=(0.3, -0.4, 0.5), position=pos),
                   shifted(cpts, pos), None, "lite")
            for (dd, hh), pol in (((1.0, 6.0), (0, 0, -1)), ((6.0, 0.5), (0, -1, 1))):       # long rod, flat disc
                ra = coord_set([("axis", 0.0), ("hull", dd / 2), ("r=0.05r0", 0.05 * dd / 2)], sc, False, nonneg=True)
                za = coord_set([("0", 0.0), ("+base", hh / 2), ("-base", -hh / 2)], sc, False)
                za += [("inside", 0.3 * hh / 2, None), ("above", 2.0 * hh / 2, None)]
                yield ("Cylinder", f"dims={(dd, hh)},pol={pol}",
                       lambda pol=pol, dim=(dd, hh): magpy.magnet.Cylinder(dimension=dim, polarization=pol),
                       cyl_points(ra, za, [(f"phi={ph}", ph) for ph in (0.0, "y", "-x", "-y", 0.7)], sc), None, "lite")
        # ---- Circle
        raxis = coord_set([("axis", 0.0), ("wire", r0)], sc, rich, nonneg=True)
        zaxis = coord_set([("plane", 0.0)], sc, rich)
        cpts = cyl_points(raxis, zaxis, [(f"phi={ph}", ph) for ph in (0.0, "y", "-x", 2.1)], sc)
        for cur in (1.0, 0.0):
            yield ("Circle", f"current={cur},scale={sc:g}",
                   lambda cur=cur, dia=2 * r0: magpy.current.Circle(diameter=dia, current=cur), cpts, None, True)
        if first:
            yield ("Circle", "current=-2.5,negative-diameter",
                   lambda dia=2 * r0: magpy.current.Circle(diameter=dia, current=-2.5), cpts, None, "lite")
            pos = (3.0, -2.0, 5.0)
            yield ("Circle", f"current=1.0,at={pos}",
                   lambda dia=2 * r0, pos=pos: magpy.current.Circle(diameter=dia, current=1.0, position=pos), shifted(cpts, pos), None, "lite")
        # ---- Sphere
        axes = [coord_set([("0", 0.0), ("surface", r0), ("-surface", -r0)], sc, False) for _ in range(3)]
        pts = cart_points(axes, sc)
        sq = r0 / math.sqrt(3.0)
        for v in ((sq, sq, sq), (ulp_step(sq, 1), sq, -sq)):
            pts.append((("diag-surface",) * 3, v, {"kind": "cart", "coords": list(v), "bases": [None] * 3, "sc": sc}))
        for pol in ((0, 0, 1), (0, 0, 0)):
            yield ("Sphere", f"pol={pol},scale={sc:g}",
                   lambda pol=pol, dia=2 * r0: magpy.magnet.Sphere(diameter=dia, polarization=pol), pts, None, True)
        # ---- Dipole (singular point: its location)
        axes = [coord_set([("0", 0.0)], sc, rich) for _ in range(3)]
        pts = cart_points(axes, sc)
        for mom in ((0, 0, 1), (1, -2, 3), (0, 0, 0)):
            yield ("Dipole", f"moment={mom},scale={sc:g}",
                   lambda mom=mom: magpy.misc.Dipole(moment=mom), pts,
                   lambda p: p[0] == 0 and p[1] == 0 and p[2] == 0, True)
        # ---- CylinderSegment: apex on the axis (r1 = 0), a ring section, and full 360 degree sections
        if first or rich:
            segdims = [(0.0, 1.0 * sc, 1.0 * sc, 0.0, 90.0), (0.5 * sc, 1.0 * sc, 1.0 * sc, -30.0, 120.0),
                       (0.0, 1.0 * sc, 1.0 * sc, 0.0, 360.0), (0.5 * sc, 1.0 * sc, 1.0 * sc, 0.0, 360.0)]
            if first:
                segdims += [(0.5, 1.0, 1.0, -270.0, -100.0), (0.2, 1.0, 1.0, -200.0, 159.5), (0.96875, 1.0, 1.0, 0.0, 90.0)]
            for (r1, r2, h, p1, p2) in segdims:
                raxis = coord_set([("axis", 0.0), ("r1", r1), ("r2", r2)], sc, False, nonneg=True)
                zaxis = coord_set([("0", 0.0), ("+base", h / 2), ("-base", -h / 2)], sc, False)
                zaxis += [("inside", 0.15 * h, None), ("above", 1.0 * h, None)]
                full = p2 - p1 >= 360
                if full:
                    phis = [("phi=0", 0.0), ("phi=y", "y"), ("phi=-x", "-x"), ("phi=gen", 0.7)]
                else:
                    phis = [("phiface:exact", az(p1)), ("phiface:exact", az(p2)),
                            ("phi-inside", math.radians((p1 + p2) / 2)), ("phi-outside", math.radians((p1 + p2) / 2 + 180)),
                            ("phiface:ulp", ulp_step(math.radians(p1), 2)), ("phiface:near", math.radians(p2) - 1e-12),
                            # azimuth exactly opposite a side face, reached as +180 and as -180 degrees
                            ("phiopp:exact", az(p1 + 180)), ("phiopp:exact", az(p1 - 180)),
                            ("phiopp:exact", az(p2 + 180)), ("phiopp:exact", az(p2 - 180)),
                            ("phiopp:near", math.radians(p1 + 180) + 1e-12)]
                spts = cyl_points(raxis, zaxis, phis, sc, section=not full)
                kind = ("full" if full else "section") + ("-r1=0" if r1 == 0 else "-ring")
                extra = {-270.0: "section-phi1<-180", -200.0: "section-span359.5", 0.96875: "section-thin-shell"}.get(p1 if p1 < -100 else r1)
                if extra:
                    yield ("CylinderSegment", f"{extra},pol=(0.2, 0.1, -1)",
                           lambda d=(r1, r2, h, p1, p2): magpy.magnet.CylinderSegment(dimension=d, polarization=(0.2, 0.1, -1)),
                           spts, None, "lite")
                    continue
                for pol in (((0, 0, 1), (1, 0.5, 0)) if rich else ((0.2, 0.1, 1),)):
                    yield ("CylinderSegment", f"{kind},pol={pol},scale={sc:g}",
                           lambda pol=pol, d=(r1, r2, h, p1, p2): magpy.magnet.CylinderSegment(dimension=d, polarization=pol),
                           spts, None, True)
        # ---- Polyline: on the segments, on their extension lines, at the kink
        verts = [(0.0, 0.0, 0.0), (1.0 * sc, 0.0, 0.0), (1.0 * sc, 2.0 * sc, 0.0)]
        xaxis = coord_set([("v0", 0.0), ("v1", 1.0 * sc), ("mid", 0.5 * sc), ("ext", 3.0 * sc), ("-ext", -2.0 * sc)], sc, False)
        yaxis = coord_set([("line", 0.0), ("v2", 2.0 * sc), ("ymid", 1.0 * sc)], sc, False)
        zaxis = coord_set([("plane", 0.0)], sc, rich)
        pts = cart_points([xaxis, yaxis, zaxis], sc)
        yield ("Polyline", f"L,scale={sc:g}", lambda verts=verts: magpy.current.Polyline(vertices=verts, current=1.5), pts, None, True)
        yield ("Polyline", f"L,current=0,scale={sc:g}", lambda verts=verts: magpy.current.Polyline(vertices=verts, current=0.0), pts, None, True)
        if first:
            yield ("Polyline", "L,current=-3,reversed", lambda verts=verts[::-1]: magpy.current.Polyline(vertices=verts, current=-3.0), pts, None, "lite")
        dv = [(0.0, 0.0, 0.0), (0.0, 0.0, 0.0), (1.0 * sc, 2.0 * sc, 3.0 * sc)]
        dpts = [((f"extension-line*{m:g}",), tuple(m * x for x in dv[2]), None) for m in (0.5, 2.0, 100.3, -7.7, 1e6, 1e12)]
        yield ("Polyline", f"zero-length-segment,scale={sc:g}",
               lambda dv=dv: magpy.current.Polyline(vertices=dv, current=1.0), dpts, None, False)
        # ---- Triangle / Tetrahedron / TriangularMesh: faces, edges, in-plane, edge extension lines
        tv = [(0.0, 0.0, 0.0), (1.0 * sc, 0.0, 0.0), (0.0, 1.0 * sc, 0.0)]
        xaxis = coord_set([("v0", 0.0), ("v1", 1.0 * sc), ("mid", 0.5 * sc), ("in", 0.25 * sc), ("ext", 2.0 * sc)], sc, False)
        zaxis = coord_set([("plane", 0.0)], sc, rich)
        pts = cart_points([xaxis, xaxis, zaxis], sc)
        yield ("Triangle", f"scale={sc:g}", lambda tv=tv: magpy.misc.Triangle(vertices=tv, polarization=(0.2, -0.3, 1.0)), pts,
               near_vertex(tv, sc), True)
        yield ("Triangle", f"pol=0,scale={sc:g}", lambda tv=tv: magpy.misc.Triangle(vertices=tv, polarization=(0, 0, 0)), pts,
               near_vertex(tv, sc), True)
        tet = tv + [(0.0, 0.0, 1.0 * sc)]
        axes = [coord_set([("v0", 0.0), ("v1", 1.0 * sc), ("mid", 0.5 * sc), ("in", 0.2 * sc)], sc, False) for _ in range(3)]
        pts3 = cart_points(axes, sc)
        yield ("Tetrahedron", f"scale={sc:g}", lambda tet=tet: magpy.magnet.Tetrahedron(vertices=tet, polarization=(0.1, 0.2, 1.0)),
               pts3, near_vertex(tet, sc), True)
        if first:
            # the other chirality / vertex order, polarization along -y
            yield ("Tetrahedron", "other-vertex-order", lambda tet=[tet[0], tet[2], tet[1], tet[3]]: magpy.magnet.Tetrahedron(
                vertices=tet, polarization=(0, -1, 0)), pts3, near_vertex(tet, sc), "lite")
            yield ("Triangle", "other-vertex-order", lambda tv=tv[::-1]: magpy.misc.Triangle(vertices=tv, polarization=(0, 0, -1)), pts,
                   near_vertex(tv, sc), "lite")
        if first or rich:
            cube = [(x * sc, y * sc, z * sc) for x in (0.0, 1.0) for y in (0.0, 1.0) for z in (0.0, 1.0)]
            axes = [[c for c in coord_set([("v0", 0.0), ("v1", 1.0 * sc), ("mid", 0.5 * sc)], sc, False)
                     if not c[0].endswith((":tiny",)) and c[0] != "far" or c[1] == 1e3 * sc] for _ in range(3)]
            ptsm = cart_points(axes, sc)
            yield ("TriangularMesh", f"cube,scale={sc:g}",
                   lambda cube=cube: magpy.magnet.TriangularMesh.from_ConvexHull(points=cube, polarization=(0, 0, 1.0)),
                   ptsm, near_vertex(cube, sc), True)

    # ---- zero-size sources (documented valid): observers named by where they are
    gen = [(("at-source",), (0.0, 0.0, 0.0), None), (("unit-x",), (1.0, 0.0, 0.0), None), (("z-sub",), (0.0, 0.0, 1e-170), None),
           (("generic",), (1.0, 2.0, 3.0), None), (("x-sub",), (5e-324, 0.0, 0.0), None), (("far",), (1e12, 0.0, -1e12), None)]
    yield ("Circle", "diameter=0", lambda: magpy.current.Circle(diameter=0.0, current=1.0), gen, None, False)
    yield ("Sphere", "diameter=0", lambda: magpy.magnet.Sphere(diameter=0.0, polarization=(0, 0, 1)), gen, None, False)
    yield ("Polyline", "all-equal-vertices",
           lambda: magpy.current.Polyline(vertices=[(1.0, 0, 0), (1.0, 0, 0)], current=1.0), gen, None, False)
    # ---- sources of sub-normal-square size (valid inputs; every squared length underflows)
    yield ("CylinderSegment", "size=1e-150,r1=0",
           lambda: magpy.magnet.CylinderSegment(dimension=(0, 1e-150, 1e-150, 0, 90), polarization=(0, 0, 1)), gen, None, False)
    for d in (1e-150, 1e-300):
        tiny = [(("center",), (0.0, 0.0, 0.0), None), (("rim",), (d / 2, 0.0, d / 2), None), (("hull,z-sub",), (d / 2, 0.0, 1e-170), None),
                (("unit-x",), (1.0, 0.0, 0.0), None), (("corner",), (d / 2, d / 2, d / 2), None), (("above",), (0.0, 0.0, d), None),
                (("generic",), (1.0, 2.0, 3.0), None)]
        yield ("Cuboid", f"size={d:g}", lambda d=d: magpy.magnet.Cuboid(dimension=(d, d, d), polarization=(0, 0, 1)), tiny, None, False)
        yield ("Cylinder", f"size={d:g}", lambda d=d: magpy.magnet.Cylinder(dimension=(d, d), polarization=(0.5, 0, 1)), tiny, None, False)
        yield ("Sphere", f"size={d:g}", lambda d=d: magpy.magnet.Sphere(diameter=d, polarization=(0, 0, 1)), tiny, None, False)
        yield ("Circle", f"size={d:g}", lambda d=d: magpy.current.Circle(diameter=d, current=1.0), tiny, None, False)
    # flat cylinders / thin cuboids: one size far below the others
    flat = [(("hull,z-sub",), (1.0, 0.0, 1e-170), None), (("hull,z=0",), (1.0, 0.0, 0.0), None), (("hull,z-inside",), (1.0, 0.0, 1e-200), None),
            (("inside,z-sub",), (0.5, 0.0, 1e-170), None), (("hull,-z-sub",), (1.0, 0.0, -1e-160), None), (("outside,z-sub",), (2.0, 0.0, 1e-170), None),
            (("hull-y,z-sub",), (0.0, 1.0, 1e-170), None)]
    for h in (2e-200, 2e-170):
        for pol in ((0, 0, 1), (1, 0, 0)):
            yield ("Cylinder", f"flat,h={h:g},pol={'axial' if pol[2] else 'diametral'}",
                   lambda h=h, pol=pol: magpy.magnet.Cylinder(dimension=(2.0, h), polarization=pol), flat, None, False)
    yield ("Cuboid", "flat,h=2e-200", lambda: magpy.magnet.Cuboid(dimension=(2.0, 2.0, 2e-200), polarization=(0, 0, 1)), flat, None, False)


def coarse(tags):
    """group key of a point: per-axis special set, its sign, and kind of offset; azimuth of round classes dropped"""
    return ",".join(t for t in tags if not t.startswith("phi="))


def evaluate(src, field, pts, seconds):
    obs = np.array(pts, dtype=float)
    fn = getattr(src, "get" + field)
    with np.errstate(all="ignore"):
        return guarded(lambda: fn(obs), seconds)


def check_one(mk, field, p, singular, n=1, confirm=8.0):
    """one observer (n = 1) or the same observer n times in one call; returns (clause, what) or None"""
    src = mk()
    obs = np.array(p, dtype=float) if n == 1 else np.tile(np.array(p, dtype=float), (n, 1))
    with np.errstate(all="ignore"):
        fn = getattr(src, "get" + field)
        st, v = guarded_confirm(lambda: fn(obs), 2.0, confirm)
    if st == "hang":
        return "terminates", f"does not return (watchdog 2 s, then {confirm:g} s)"
    if st == "raise":
        return f"returns[{type(v).__name__}]", f"raises {type(v).__name__}: {str(v)[:80]}"
    v = np.asarray(v)
    if v.shape != obs.shape:
        return "shape", f"shape {v.shape} instead of {obs.shape}"
    if not np.all(np.isfinite(v)):
        if singular is not None and singular(p):
            return None
        return "finite", f"non-finite result {v.reshape(-1, 3)[0].tolist()}"
    return None


def norm_tag(t):
    """'+face:near' -> 'face:near' (sign dropped, kind kept); generic / inside / above / azimuth tags -> None"""
    if t in ("generic", "inside", "above", "phi-inside", "phi-outside") or t.startswith("phi="):
        return None
    return t.lstrip("+-")


def shrink_point(mk, field, tags, gen, singular, clause, n):
    """in the generation coordinates (x, y, z) or (r, z | azimuth):
       1. every coordinate that is not needed for the failure is replaced by a generic value (its tag is dropped);
       2. an essential coordinate whose offset is sub-normal / tiny is moved onto the special set itself when the
          failure stays (the offset was not the cause): its kind becomes `exact`;
       3. for a CylinderSegment section the azimuth is moved inside / outside the section; kept only when needed.
    returns (essential tags with kinds, multiplicity kept, sorted; shrunk Cartesian point)"""
    coords = list(gen["coords"])
    sc = gen["sc"]
    phi = gen.get("phi")
    tags = list(tags)

    def fails(cs, ph=None):
        q = to_xyz(gen, cs, ph)
        if singular is not None and singular(q):
            return False
        r = check_one(mk, field, q, singular, n, confirm=4.0)
        return r is not None and r[0] == clause

    ess, ess_orig = [], []
    for i in range(len(coords)):
        gens = (0.37 * sc, -1.21 * sc) if gen["kind"] == "cart" or i == 1 else (0.37 * sc, 1.21 * sc)
        for g in gens:
            cs = list(coords)
            cs[i] = g
            if fails(cs, phi):
                coords = cs
                break
        else:
            t = tags[i]
            ess_orig.append(t)
            base = gen["bases"][i]
            if base is not None and t.rsplit(":", 1)[-1] in ("sub", "tiny"):
                cs = list(coords)
                cs[i] = base
                if fails(cs, phi):
                    coords, t = cs, t.rsplit(":", 1)[0] + ":exact"
            ess.append(t)
    if gen["kind"] == "cyl" and len(tags) == 3 and norm_tag(tags[2]) and gen.get("alt_phis"):
        keep = coords[0] != 0.0                      # the azimuth means nothing exactly on the axis
        if keep:
            for alt in gen["alt_phis"]:
                if fails(coords, alt):
                    phi, keep = alt, False
                    break
        if keep:
            ess.append(tags[2])
            ess_orig.append(tags[2])
    return (sorted(t for t in (norm_tag(t) for t in ess) if t), to_xyz(gen, coords, phi),
            sorted(t for t in (norm_tag(t) for t in ess_orig) if t))


def signature(clause, cls, label, ess, shrinkable, n, tags):
    """<clause>/<Class>:<special sets with kind of offset, multiplicity kept>[:batchN]
    e.g. finite/Cuboid:face:exact+face:exact+face:exact (a corner), finite/Cuboid:face:exact+face:near
    (in a face plane, near but outside the on-edge mask)"""
    if not shrinkable:
        reg = "[" + label + "]" + "+".join(tags)
    else:
        variant = label.split(",")[0] if cls == "CylinderSegment" else ""
        if cls == "CylinderSegment":
            ess = sorted(seg_kind(t) for t in ess)
        reg = (variant + ":" if variant else "") + ("+".join(ess) if ess else "generic-point")
    return f"{clause}/{cls}:{reg}" + (f":batch{n}" if n > 1 else "")


def seg_kind(t):
    """CylinderSegment masks use atol 1e-12: exact / ulp / sub / tiny offsets are all ON the surface for them"""
    if ":" not in t:
        return t
    name, kind = t.rsplit(":", 1)
    return name + (":near" if kind == "near" else ":on")


SINGLES = {"Circle": 400, "Cylinder": 400, "CylinderSegment": 60}     # classes with batch-size dependent loops
NB = 16                                                                # cel switches at 10 rows, cel_iter at 15


def multiset_in(small, big_):
    big_ = list(big_)
    for t in small:
        if t in big_:
            big_.remove(t)
        else:
            return False
    return True


def search(ctx, big):
    found = 0
    tstart = time.time()
    budget = ctx.n(120, 900) * (3 if big else 1)
    explained = {}               # class -> list of essential tag multisets already reported (a point whose tags
                                 # contain one of them fails for that reason and is not evaluated again)

    ncache = {}

    def ntags(cls, tags):
        key = (cls == "CylinderSegment", tuple(tags))
        if key not in ncache:
            ts = [t for t in (norm_tag(t) for t in tags) if t]
            ncache[key] = sorted(seg_kind(t) for t in ts) if key[0] else sorted(ts)
        return ncache[key]

    ecache = {}

    def is_explained(cls, tags, shrinkable):
        if not shrinkable:
            return False
        es = explained.get(cls, [])
        key = (cls, tuple(tags), len(es))
        if key not in ecache:
            nt = ntags(cls, tags)
            ecache[key] = any(multiset_in(e, nt) for e in es)
        return ecache[key]

    def report(cls, label, mk, field, tags, p, gen, singular, shrinkable, clause, what, n):
        ess = []
        shr = shrinkable and gen is not None
        if shr:
            ess, q, ess_orig = shrink_point(mk, field, tags, gen, singular, clause, n)
            r2 = check_one(mk, field, q, singular, n, confirm=4.0)
            if r2 is not None and r2[0] == clause:
                p, what = q, r2[1]
            for e in (ess, ess_orig):
                e = sorted(seg_kind(t) for t in e) if cls == "CylinderSegment" else list(e)
                if e and e not in explained.setdefault(cls, []):
                    explained[cls].append(e)
        sig = signature(clause, cls, label, ess, shr, n, tags)
        many = f" (the same observer {n} times in one call; alone it is fine)" if n > 1 else ""
        ctx.impl_fail(sig, f"{cls}({label}).get{field}({tuple(float(x) for x in p)!r}) {what}{many}",
                      {"kind": "point", "class": cls, "label": label, "field": field, "n": n,
                       "point": [float.hex(float(x)) for x in p], "tags": list(tags)})
        return ess

    def eval_pts(mk, field, xs):
        allp = [x[1] for x in xs]
        if len(allp) < NB:
            allp = allp * (NB // len(allp) + 1)
        st, v = evaluate(mk(), field, allp, 4.0 + len(allp) / 1500.0)
        return st, v, allp

    def check_suspect(cls, label, mk, field, x, xs_group, singular, shrinkable):
        """one observer alone, then NB times in one call, else the failing sub-batch itself"""
        tags, p, gen = x
        ctx.case(("search", cls, label, field, tuple(p)), True)
        for n in (1, NB):
            r = check_one(mk, field, p, singular, n)
            if r is not None:
                ess = report(cls, label, mk, field, tags, p, gen, singular, shrinkable, r[0], r[1], n)
                return True, ess
        return False, None

    geos = list(geometries(ctx))
    order = {"CylinderSegment": 2, "TriangularMesh": 1}
    geos.sort(key=lambda g: (order.get(g[0], 0), g[1].startswith("section")))     # slow, unmodelled cores last
    for cls, label, mk, pts, singular, shrinkable in geos:
        if time.time() - tstart > budget:
            ctx.notes.append(f"search stopped at {cls} {label}: time budget {budget}s used")
            ctx.bump("search:stopped-by-budget")
            ctx.log(f"search stopped at {cls} {label}: time budget {budget}s used")
            break
        if singular is not None:
            pts = [x for x in pts if not singular(x[1])]
        if cls == "Dipole":
            # within 1e-60 of the location |H| > 1e180 / overflows legitimately: part of the singular point
            pts = [x for x in pts if max(abs(c) for c in x[1]) >= 1e-60]
        lite = shrinkable == "lite"
        magnet = cls in ("Cuboid", "Cylinder", "CylinderSegment", "Sphere", "Tetrahedron", "TriangularMesh")
        for field in (("B", "H", "J", "M") if magnet and not lite else ("B", "H")):
            if not shrinkable:
                # small hand-picked batteries (zero-size / sub-normal-size sources): every observer alone and NB times
                ctx.count("search_points", len(pts))
                ctx.bump(f"search:{cls}:{field}", len(pts))
                for x in pts:
                    hit, _ = check_suspect(cls, label, mk, field, x, pts, singular, False)
                    found += int(hit)
                continue
            cur = [x for x in pts if not is_explained(cls, x[0], shrinkable)]
            if not cur:
                continue
            # 1. the whole battery in ONE call (>= 16 rows: vectorised celv / cel_iterv paths); while it hangs or
            #    raises, bisect to one failing observer (or minimal failing sub-batch), report, drop what it explains
            v = None
            for _round in range(14):
                st, v, allp = eval_pts(mk, field, cur)
                ctx.count("search_points", len(allp))
                ctx.bump(f"search:{cls}:{field}", len(allp))
                if st == "ok":
                    break
                sub = cur
                while len(sub) > 1:
                    h = len(sub) // 2
                    s1, _, _ = eval_pts(mk, field, sub[:h])
                    if s1 != "ok":
                        sub = sub[:h]
                        continue
                    s2, _, _ = eval_pts(mk, field, sub[h:])
                    if s2 != "ok":
                        sub = sub[h:]
                        continue
                    break
                hit = False
                if len(sub) == 1:
                    hit, ess = check_suspect(cls, label, mk, field, sub[0], sub, singular, shrinkable)
                if hit:
                    found += 1
                    if not ess or not shrinkable:
                        cur = [x for x in cur if x is not sub[0]] if (ess or not shrinkable) else []
                else:
                    s3, v3, tile = eval_pts(mk, field, sub)
                    names = sorted({t.split(":")[0] for x in sub[:4] for t in ntags(cls, x[0])})
                    clause = "terminates" if s3 == "hang" else f"returns[{type(v3).__name__}]" if s3 == "raise" else "finite"
                    variant = label.split(",")[0] + ":" if cls == "CylinderSegment" else ""
                    found += 1
                    ctx.impl_fail(f"{clause}/{cls}:{variant}{'+'.join(names) or 'generic-point'}:mixed-batch",
                                  f"{cls}({label}).get{field} fails on a batch of {len(sub)} different observers "
                                  f"(each half of it, and its observers alone or repeated {NB} times, are fine); "
                                  f"first observer {tuple(sub[0][1])!r}",
                                  {"kind": "batch", "class": cls, "label": label, "field": field,
                                   "points": [[float.hex(float(c)) for c in q] for q in tile[:64]]})
                    drop = {id(x) for x in sub}
                    cur = [x for x in cur if id(x) not in drop]
                cur = [x for x in cur if not is_explained(cls, x[0], shrinkable)]
                if not cur:
                    break
            else:
                ctx.log(f"search: {cls} {label} get{field}: battery still failing after 14 rounds")
            if not cur:
                continue
            if st == "ok":
                v = np.asarray(v)
                if v.shape != (len(allp), 3):
                    ctx.impl_fail(f"shape/{cls}:batch", f"{cls}.get{field} returned shape {v.shape} for {len(allp)} observers",
                                  {"class": cls, "label": label, "field": field})
                else:
                    # 2. non-finite rows: alone, then NB times in one call
                    for i in np.where(~np.all(np.isfinite(v), axis=1))[0]:
                        x = cur[i % len(cur)]
                        if is_explained(cls, x[0], shrinkable):
                            continue
                        hit, ess = check_suspect(cls, label, mk, field, x, cur, singular, shrinkable)
                        if hit:
                            found += 1
                            if shrinkable and not ess:
                                break                       # fails at a generic point: everything is explained
                        else:
                            found += 1
                            names = ntags(cls, x[0])
                            variant = label.split(",")[0] + ":" if cls == "CylinderSegment" else ""
                            explained.setdefault(cls, []).append(names)
                            ctx.impl_fail(f"finite/{cls}:{variant}{'+'.join(names) or 'generic-point'}:mixed-batch",
                                          f"{cls}({label}).get{field} gives a non-finite row for observer {tuple(x[1])!r} only "
                                          f"inside the full battery of {len(allp)} observers",
                                          {"kind": "batch", "class": cls, "label": label, "field": field,
                                           "points": [[float.hex(float(c)) for c in q] for q in allp[:64]]})
            # 3. the scalar paths (cel0 / cel_iter0 below 10 / 15 rows): one observer per call per special set
            if lite or field in "JM":
                continue
            groups = {}
            for x in cur:
                groups.setdefault(coarse(x[0]), x)
            keys = sorted(groups)
            cap = SINGLES.get(cls, 40) * (1 if ctx.tier == "quick" else 6) * (3 if big else 1)
            stride = max(1, -(-len(keys) // cap))
            for g in keys[::stride]:
                tags, p, gen = groups[g]
                if is_explained(cls, tags, shrinkable):
                    continue
                ctx.case(("search", cls, label, field, tuple(p)), True)
                r = check_one(mk, field, p, singular, 1)
                if r is not None:
                    found += 1
                    report(cls, label, mk, field, tags, p, gen, singular, shrinkable, r[0], r[1], 1)
    return found


# ====================================================================== entry points / batch composition
def entry_points(ctx):
    """the same oracle through the other public entry points: several classes interleaved in one call (sumup on/off,
    twins and duplicates, field ratios 1e12 in both orders), Collection, Sensor pixels, functional interface, object
    paths.  Demand: wherever every single-source / single-observer call is finite, the combined call returns, has the
    documented shape and is finite."""
    obs = np.array([(0.5, 0.3, 0.2), (1.0, 0.0, 0.3), (0.0, 0.0, 2.0), (0.0, 1.0, -0.75), (0.5, 1.0, 1.5), (1e6, 0.0, 0.0),
                    (0.25, -0.5, 0.1), (3.0, -2.0, 5.0), (1.0, 0.0, 5e-324), (0.0, 0.0, 0.0), (2.0, 2.0, 0.0), (1e-9, 0.0, 0.75),
                    (-1.0, 0.0, 0.0), (0.0, -1.0, 0.75), (1.0, 2.0, 0.0), (0.3, 0.0, 1e12), (0.5, 0.0, 0.0)], dtype=float)

    def srcs():
        return [
            magpy.magnet.Cuboid(dimension=(1, 2, 3), polarization=(0, 0, 1)),
            magpy.magnet.Cylinder(dimension=(2, 1.5), polarization=(0, 0, 1)),
            magpy.current.Circle(diameter=2, current=1.0),
            magpy.magnet.Cuboid(dimension=(1, 2, 3), polarization=(1e-12, 0, -1e-12)),        # twin, tiny excitation
            magpy.magnet.Sphere(diameter=2, polarization=(0, 1e12, 0)),                        # huge excitation
            magpy.magnet.Cylinder(dimension=(2, 1.5), polarization=(1, 0, 0)),                 # twin, other core
            magpy.current.Polyline(vertices=[(0, 0, 0), (1, 0, 0), (1, 2, 0)], current=-1.5),
            magpy.misc.Dipole(moment=(0, 0, 1), position=(0.1, 0.2, 0.3)),
            magpy.magnet.CylinderSegment(dimension=(0.5, 1, 1, 0, 360), polarization=(0, 0, 1)),
            magpy.current.Circle(diameter=2, current=1.0),                                      # duplicate
            magpy.magnet.Tetrahedron(vertices=[(0, 0, 0), (1, 0, 0), (0, 1, 0), (0, 0, 1)], polarization=(0, 0, 1),
                                     position=(5, 5, 5)),
        ]

    def run(name, fn, want_shape, finite_expected):
        ctx.case(("entry", name), True)
        ctx.bump("entry:" + name.split(":")[0])
        with np.errstate(all="ignore"):
            st, v = guarded_confirm(fn, 4.0, 10.0)
        if st == "hang":
            ctx.impl_fail(f"terminates/entry:{name}", f"{name} does not return", {"kind": "entry", "name": name})
            return None
        if st == "raise":
            ctx.impl_fail(f"returns[{type(v).__name__}]/entry:{name}", f"{name} raises {type(v).__name__}: {str(v)[:80]}",
                          {"kind": "entry", "name": name})
            return None
        v = np.asarray(v, dtype=float)
        if tuple(v.shape) != tuple(want_shape):
            ctx.impl_fail(f"shape/entry:{name}", f"{name} returns shape {v.shape}, documented {tuple(want_shape)}",
                          {"kind": "entry", "name": name})
            return None
        if finite_expected is not None:
            bad = ~np.isfinite(v) & finite_expected
            if bad.any():
                ctx.impl_fail(f"finite/entry:{name}", f"{name} is non-finite at index {tuple(int(i) for i in np.argwhere(bad)[0])} "
                              f"where the single-source single-observer call is finite", {"kind": "entry", "name": name})
        return v

    n = len(obs)
    for field in ("B", "H"):
        get = magpy.getB if field == "B" else magpy.getH
        ss = srcs()
        with np.errstate(all="ignore"):
            single = []
            for sobj in ss:
                rows = []
                for o in obs:
                    st, v = guarded_confirm(lambda sobj=sobj, o=o: getattr(sobj, "get" + field)(o), 2.0, 6.0)
                    rows.append(np.asarray(v, dtype=float) if st == "ok" else np.full(3, np.nan))
                single.append(np.array(rows))
        single = np.array(single)                           # (n_src, n_obs, 3)
        fin = np.isfinite(single)
        m = len(ss)
        for order_name, order in (("as-listed", list(range(m))), ("rotated", [(3 * i + 2) % m for i in range(m)]),
                                  ("reversed", list(range(m))[::-1])):
            sel = [ss[i] for i in order]
            run(f"get{field}(sources x{m} {order_name}, observers x{n})", lambda sel=sel: get(sel, obs), (m, n, 3), fin[order])
            run(f"get{field}(sources x{m} {order_name}, sumup=True)", lambda sel=sel: get(sel, obs, sumup=True), (n, 3),
                fin.all(axis=0))
        run(f"Collection.get{field}", lambda: getattr(magpy.Collection(*srcs()), "get" + field)(obs), (n, 3), fin.all(axis=0))
        run(f"get{field}(sources, Sensor(pixel))", lambda: get(srcs()[:4], magpy.Sensor(pixel=obs)), (4, n, 3), fin[:4])
        run(f"get{field}(sources, Sensor(pixel grid 2x8))", lambda: get(srcs()[:3], magpy.Sensor(pixel=obs[:16].reshape(2, 8, 3))),
            (3, 2, 8, 3), fin[:3, :16].reshape(3, 2, 8, 3))
        run(f"get{field}(sources, two sensors, pixel_agg=mean)",
            lambda: get(srcs()[:3], [magpy.Sensor(pixel=obs[:4]), magpy.Sensor(pixel=obs[4:8])], pixel_agg="mean"), (3, 2, 3),
            np.stack([fin[:3, :4].all(axis=1), fin[:3, 4:8].all(axis=1)], axis=1))
        run(f"get{field}('Cuboid', functional)", lambda: get("Cuboid", obs, dimension=(1, 2, 3), polarization=(0, 0, 1)), (n, 3), fin[0])
        run(f"get{field}('Cylinder', functional)", lambda: get("Cylinder", obs, dimension=(2, 1.5), polarization=(0, 0, 1)), (n, 3), fin[1])
        run(f"get{field}('Circle', functional)", lambda: get("Circle", obs, diameter=2, current=1.0), (n, 3), fin[2])
        # one observer, source on a path that carries it through special sets (face plane, edge, inside, far)
        path = [(0.0, 0.0, 0.0), (-0.5, 0.0, 0.0), (-0.5, -1.0, -1.5), (0.25, 0.0, 0.0), (1e6, 0.0, 0.0)]
        o1 = (1.0, 2.0, 3.0)
        exp = []
        with np.errstate(all="ignore"):
            for pp in path:
                st, v = guarded_confirm(lambda pp=pp: getattr(magpy.magnet.Cuboid(dimension=(1, 2, 3), polarization=(0, 0, 1)),
                                                              "get" + field)(tuple(a - b for a, b in zip(o1, pp))), 2.0, 6.0)
                exp.append(np.isfinite(np.asarray(v, dtype=float)) if st == "ok" else np.zeros(3, bool))
        run(f"Cuboid(path x{len(path)}).get{field}(one observer)",
            lambda: getattr(magpy.magnet.Cuboid(dimension=(1, 2, 3), polarization=(0, 0, 1), position=path), "get" + field)(o1),
            (len(path), 3), np.array(exp))
        run(f"get{field}(Cuboid path x{len(path)} + static Cylinder, observers x3)",
            lambda: get([magpy.magnet.Cuboid(dimension=(1, 2, 3), polarization=(0, 0, 1), position=path),
                         magpy.magnet.Cylinder(dimension=(2, 1.5), polarization=(0, 0, 1))], obs[:3]), (2, len(path), 3, 3), None)


# ====================================================================== replay
def build_source(cls, label):
    class _C:
        tier = "thorough"
        import random as _r
        rng = _r.Random(0)

        @staticmethod
        def n(a, b):
            return a
    for c, l, mk, _, singular, _s in geometries(_C):  # noqa
        if c == cls and l == label:
            return mk, singular
    return None, None


def replay(ctx, obj):
    rp = obj.get("replay", obj)
    if rp.get("kind") == "entry":
        class _R:
            hits = []

            def case(self, *a, **k):
                pass

            def bump(self, *a, **k):
                pass

            def impl_fail(self, sig, what, rep):
                self.hits.append((sig, what))
        r = _R()
        entry_points(r)
        hits = [h for h in r.hits if rp["name"] in h[0]]
        print("replay:", "property holds on this input" if not hits else f"FAILS: {hits[0][1]}")
        return 0 if not hits else 1
    if rp.get("kind") in ("point", "batch"):
        mk, singular = build_source(rp["class"], rp["label"])
        if mk is None:
            print("replay: source description not found:", rp["class"], rp["label"])
            return 2
        if rp["kind"] == "point":
            p = [float.fromhex(x) for x in rp["point"]]
            r = check_one(mk, rp["field"], p, singular, int(rp.get("n", 1)))
            desc = f"{rp['class']}.get{rp['field']}({p}" + (f" x {rp['n']}" if rp.get("n", 1) > 1 else "") + ")"
        else:
            pts = [[float.fromhex(x) for x in q] for q in rp["points"]]
            st, v = guarded_confirm(lambda: (mk().getB if rp["field"] == "B" else mk().getH)(np.array(pts)), 2.0, 8.0)
            r = None if (st == "ok" and np.all(np.isfinite(np.asarray(v)))) else ("batch", f"{st}")
            desc = f"{rp['class']}.get{rp['field']}(<{len(pts)} observers>)"
        print("replay:", "property holds on this input" if r is None else f"FAILS: {desc} {r[1]}")
        if r is not None:
            print(f"VIOLATION property=C15 replay={obj.get('how_to_rerun', '').split()[-1] or 'given'}")
        return 0 if r is None else 1
    print(json.dumps(obj, indent=1)[:3000])
    return 0


# ====================================================================== main
def run(ctx):
    ctx.extra["rule"] = ("correspondence: a case is one call of a loop function / core / wrapper on one input (batch); "
                         "distinct by its float inputs; all are non-trivial (they run the translated loop). search: "
                         "one case per (class, variant, field, observer) evaluated as a single-observer call; the "
                         "batched sweep over all special-set points is counted in counts.search_points")
    ctx.trusted += [
        "translator translate/gen_loop.py (loop tests, bodies, return expressions, dispatcher thresholds of "
        "special_cel.py -> Gen/GenLoop.v); control structure, prologues of cel0/celv, current_circle_Hfield, "
        "magnet_cylinder_axial_Bfield and the circle / cylinder masks are hand-written in Model/LoopModel.v and tied "
        "by the bit-exact float correspondence (values and loop counts)",
        "the theorems are about real arithmetic (NumR); binary64 behaviour is only reached by running the same model "
        "on Coq's primitive floats (kernel primitives PrimFloat.*, trusted to be IEEE-754 binary64) and by the search",
        "cores not modelled (cuboid, diametral cylinder, cylinder segment / el3, triangle, polyline, dipole, sphere) "
        "are covered by the watchdog search only",
    ]
    ctx.refuted += ["C15_cel_iter_terminates_refuted"]
    ctx.partial += ["C15_guards_sufficient_circle_partial", "C15_guards_sufficient_cylinder_axial_partial",
                    "C15_guards_sufficient_cuboid_partial"]
    ok = ctx.regen(["GenLoop", "GenCuboid"])      # GenCuboid: the translated terms C15_guards_sufficient_cuboid_partial is about
    built = ctx.build_props() and ok
    built_g = ctx.build_props("Props/C15G.v")      # guards on models of other properties (CoreModel, GenCuboid)
    if built:
        okp, out = ctx.coq_eval("c15_assum", "From MV Require Import Props.C15.\nPrint Assumptions C15_cel_iter_terminates_refuted.\n")
        ctx.extra["refuted_theorem_assumptions"] = out[-1800:] if okp else "could not be printed: " + out[-500:]
    if ctx.tier == "thorough" and built:
        ctx.coqchk("MV.Props.C15")
    run_guarded(ctx, lambda: correspondence(ctx, built), "C15 correspondence")
    big = bool(ctx.broken) or not built_g
    run_guarded(ctx, lambda: search(ctx, big), "C15 search")
    run_guarded(ctx, lambda: entry_points(ctx), "C15 entry points")
