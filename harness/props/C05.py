"""C05 -- superposition: collections and sumup add fields; fields are linear in the excitation."""
import json

import numpy as np

import magpylib as magpy
from magpylib._src.exceptions import MagpylibBadUserInput

from harness.common import run_guarded
from harness import octa, level2, l2b, l2b_hist
from harness.shrink import shrink_list


# ------------------------------------------------------------------ exact: trees through model and implementation
def exact_signature(case, clause):
    return f"{clause}/{l2b.layout_of(case)}"


def shrink_exact(case):
    """fewest entries, then every collection flattened and with the fewest children that still fail"""
    def bad(c):
        try:
            return l2b.c05_oracle(c) is not None
        except Exception:   # pylint: disable=broad-except
            return False

    def fails(srcs):
        return bool(srcs) and not any("dup" in s for s in srcs) and bad(dict(case, sources=srcs))
    srcs = level2.resolve(case["sources"])
    small = dict(case, sources=shrink_list(srcs, fails, max_steps=40))
    if not bad(small):
        return case
    if small["sumup"] and bad(dict(small, sumup=False)):
        small = dict(small, sumup=False)
    same_shapes = len({str(level2.pix_flat(s)[1]) for s in level2.resolve(small["sensors"])}) == 1
    if small["agg"] and same_shapes and bad(dict(small, agg=0)):
        small = dict(small, agg=0)
    sens = level2.resolve(small["sensors"])
    cand = dict(small, sensors=shrink_list(sens, lambda ss: bool(ss) and bad(dict(small, sensors=ss)), max_steps=10))
    if bad(cand):
        small = cand
    for i, s in enumerate(small["sources"]):
        if "tree" not in s:
            continue
        def with_kids(kids, i=i):
            srcs2 = list(small["sources"])
            srcs2[i] = {"tree": {"children": kids, "pos": [[0, 0, 0]], "ori": [octa.IDENT]}}
            return dict(small, sources=srcs2)
        # children in DFS order, sensors kept as children
        def flat(t):
            out = []
            for c in t["children"]:
                out += flat(c) if "children" in c else [c]
            return out
        kids = flat(s["tree"])
        if bad(with_kids(kids)):
            kids = shrink_list(kids, lambda ks: bool(ks) and bad(with_kids(ks)), max_steps=30)
            small = with_kids(kids)
    return small


def exact_oracle(ctx, cases):
    for case in cases:
        try:
            res = l2b.c05_oracle(case)
        except Exception as e:   # pylint: disable=broad-except
            res = ("raises", f"{type(e).__name__}: {e}")
        ctx.bump("exact-oracle")
        if res is not None:
            small = shrink_exact(case)
            res2 = l2b.c05_oracle(small) or res
            ctx.impl_fail(exact_signature(small, res2[0]), res2[1] + " (stub sources, exact)",
                          {"kind": "exact", "case": small})


def correspondence(ctx, built):
    rng = ctx.rng
    cases = []
    for lay in l2b.enum_c05_layouts(*ctx.n((3, 3), (5, 3))):
        cases.append(l2b.layout_case(lay, rng, sumup=rng.random() < 0.15))
    n_enum = len(cases)
    for _ in range(ctx.n(220, 4000)):
        cases.append(l2b.g_c05_case(rng))
    items, kept = [], []
    for i, case in enumerate(cases):
        try:
            out, ids, lens = l2b.c05_impl(case)
        except Exception as e:   # pylint: disable=broad-except
            small = shrink_exact(case)
            ctx.impl_fail(exact_signature(small, "raises"), f"valid source list raised {type(e).__name__}: {e}",
                          {"kind": "exact", "case": small})
            continue
        lay = l2b.layout_of(case)
        ctx.case(json.dumps(case, sort_keys=True), "C" in lay)
        ctx.bump("exact:" + ("enumerated-layout" if i < n_enum else "random-tree"))
        if out is None:
            ctx.bump("exact:rejected-by-format_src_inputs")
        if case["sumup"]:
            ctx.bump("exact:sumup")
        items.append(l2b.c_c05(case, out, ids, lens))
        kept.append(case)
    ctx.count("layouts_enumerated", n_enum)
    if kept:
        c = kept[n_enum + 1] if len(kept) > n_enum + 1 else kept[-1]
        ctx.samples.append({"layout": l2b.layout_of(c), "sumup": c["sumup"], "agg": c["agg"],
                            "n_sensors": len(c["sensors"])})
    if built:
        bad = l2b.coq_failing(ctx, f"c05_{ctx.tier}", "c05case", "failing_c05", items, chunk=80)
        if bad is not None:
            ctx.count("traces_validated_against_impl", len(items) - len(bad))
            for bi in bad[:3]:
                ctx.add_broken("broken-correspondence",
                               "Level2Flat/Level2Model vs format_src_inputs + getBH_level2 (output, leaf order or col_len)",
                               json.dumps({"layout": l2b.layout_of(kept[bi]), "case": kept[bi]})[:3000])
    return kept


# ------------------------------------------------------------------ float: superposition on real classes
SUP_TOL = 1e-11      # relative to the largest term of the sum ...
NOISE_FACTOR = 1000.0   # ... or this many times the evaluation's own sensitivity to rounding-level pose changes
                        # (ill-conditioned Tetrahedron / CylinderSegment points reach 1e-10 and more)


def pad_path(a, M):
    if a.shape[1] < M:
        a = np.concatenate([a, np.repeat(a[:, -1:], M - a.shape[1], axis=1)], axis=1)
    return a


AGGS = [None, None, None, "mean", "sum", "min", "max", "std", "var", "ptp"]


def sup_eval(dentries, dobs, field, sumup):
    """(got, expected, per-entry scales): the list call against explicit sums of single-source calls.
    pixel aggregation (any numpy reducer, also the non-linear std / var / ptp / min / max) acts on the SUM,
    so the single calls are made without it and the reducer is applied by the harness afterwards"""
    agg = dobs.get("agg")
    how = dobs.get("how", "top")

    def observers():
        if dobs["kind"] == "array":
            return np.array(dobs["points"], dtype=float)
        return [l2b.load_obj(d) for d in dobs["sensors"]]
    entries = [l2b.load_obj(d) for d in dentries]
    for i, j in dobs.get("dups", []):           # the same OBJECT several times in the list
        entries[i] = entries[j]
    got = l2b.call_field(entries, observers(), field, how, sumup=sumup, pixel_agg=agg)
    M = got.shape[1]
    exp, scales = [], []
    for d in dentries:
        tot, sc = 0.0, 0.0
        for leaf in l2b.leaves_of(l2b.load_obj(d)):
            one = pad_path(l2b.field_fn(field)(leaf, observers(), squeeze=False), M)[0]
            sc = max(sc, float(np.abs(one).max()) if np.all(np.isfinite(one)) else np.inf)
            tot = tot + one
        if agg is not None:                    # (M, K, npix, 3) -> reduce the pixel axis
            tot = getattr(np, agg)(tot, axis=2, keepdims=True)
        exp.append(tot)
        scales.append(sc)
    exp = np.array(exp)
    if sumup:
        exp = exp.sum(axis=0, keepdims=True)
        scales = [max(scales)]
    return got, exp, scales


def sup_fails(dentries, dobs, field, sumup):
    try:
        got, exp, scales = sup_eval(dentries, dobs, field, sumup)
    except MagpylibBadUserInput:
        return None              # not a valid source list (e.g. a collection without sources)
    except Exception as e:   # pylint: disable=broad-except
        return "raises", f"raised {type(e).__name__}: {e}"
    if got.shape != exp.shape:
        return "one-entry", f"output shape {got.shape}, expected {exp.shape} (one entry per element of the source list)"
    if not np.all(np.isfinite(exp)):
        return None
    # every entry on ITS OWN scale (the largest single-source field inside that entry); var is quadratic
    devs = []
    for l, sc in enumerate(scales):
        sc = sc * sc if dobs.get("agg") == "var" else sc
        d = float(np.abs(got[l] - exp[l]).max())
        devs.append(d / sc if sc > 0 else d)
    dev = max(devs)
    if dev > SUP_TOL:
        try:
            nf = l2b.noise_floor(dentries, dict(dobs, kind="array" if dobs["kind"] == "array" else "sensors"), field)
        except Exception:   # pylint: disable=broad-except
            nf = 0.0
        if dev <= NOISE_FACTOR * nf:
            return None
        return ("sumup" if sumup else "collection-sum",
                f"{field} of entry {int(np.argmax(devs))} of the source list deviates by {dev:.2e} (relative to the largest "
                "single-source field inside that entry) from the explicit sum of single-source calls")
    return None


def entry_layout(dentries):
    def nleaves(d):
        if d["class"] == "Collection":
            return sum(nleaves(c) for c in d["children"])
        return 0 if d["class"] == "Sensor" else 1

    def has_sensor(d):
        return any(c["class"] == "Sensor" or (c["class"] == "Collection" and has_sensor(c)) for c in d["children"])
    return ",".join("C%d%s" % (nleaves(d), "+S" if has_sensor(d) else "") if d["class"] == "Collection" else "B"
                    for d in dentries)


def scale_excitation(d, k):
    d = dict(d)
    if "children" in d:
        d["children"] = [scale_excitation(c, k) for c in d["children"]]
    for a in ("polarization", "current", "moment"):
        if a in d:
            d[a] = (np.array(d[a], dtype=float) * k).tolist()
    return d


def sup_search(ctx, n):
    rng = ctx.rng
    for _ in range(n):
        entries, desc = l2b.real_setup(rng, max_entries=4)
        field = l2b.pick_field(rng)
        sumup = rng.random() < 0.3
        if rng.random() < 0.5:
            npts = rng.randint(16, 24) if rng.random() < 0.1 else rng.randint(1, 3)
            dobs = {"kind": "array", "points": [l2b.rvec(rng, -5, 5) for _ in range(npts)]}
        else:
            npix = rng.randint(1, 3)
            sens = []
            for _ in range(rng.randint(1, 2)):
                s = magpy.Sensor(pixel=[l2b.rvec(rng, -0.5, 0.5) for _ in range(npix)],
                                 handedness=rng.choice(["right", "left"]))
                l2b.rnd_pose(rng, s, spread=5.0)
                sens.append(s)
            dobs = {"kind": "sensors", "sensors": [l2b.dump_obj(s) for s in sens], "agg": rng.choice(AGGS)}
        dobs["how"] = rng.choice(["top", "top", "method"])
        dentries = [l2b.dump_obj(e) for e in entries]
        # twins (same geometry and pose, other excitation), duplicates (same object twice), and field ratios of
        # 1e6 .. 1e12 between entries, in both orders
        if rng.random() < 0.2:
            dentries.insert(rng.randrange(len(dentries) + 1), scale_excitation(dentries[rng.randrange(len(dentries))], rng.uniform(-3, 3)))
        if rng.random() < 0.25:
            i = rng.randrange(len(dentries))
            dentries[i] = scale_excitation(dentries[i], 10.0 ** rng.uniform(6, 12) * rng.choice([1, -1]))
            ctx.bump("float-superposition:field-ratio>=1e6")
        if rng.random() < 0.3:
            k = rng.choice([1e-3, 1e-6, 1e3])
            dobs["scale"] = k
            dentries = [l2b.scale_dump(d, k) for d in dentries]
            if dobs["kind"] == "array":
                dobs["points"] = (np.array(dobs["points"]) * k).tolist()
            else:
                dobs["sensors"] = [l2b.scale_dump(d, k) for d in dobs["sensors"]]
            ctx.bump("float-superposition:scale=%g" % k)
        if rng.random() < 0.15 and len(dentries) >= 1:
            j = rng.randrange(len(dentries))
            dentries.append(dentries[j])
            dobs["dups"] = [[len(dentries) - 1, j]]
        ctx.case(("sup", field, sumup, tuple(desc), repr(dobs)[:200]), any("Collection" in k for k in desc))
        ctx.bump("float-superposition:" + ("sumup" if sumup else "entries"))
        if dobs.get("agg"):
            ctx.bump("float-superposition:pixel_agg=" + dobs["agg"])
        res = sup_fails(dentries, dobs, field, sumup)
        if res is None:
            continue
        if sumup and sup_fails(dentries, dobs, field, False) is not None:
            sumup = False
        if "dups" not in dobs:
            small = shrink_list(dentries, lambda ds: bool(ds) and sup_fails(ds, dobs, field, sumup) is not None, max_steps=30)
            small = shrink_children(small, lambda ds: sup_fails(ds, dobs, field, sumup) is not None)
        else:
            small = dentries
        res2 = sup_fails(small, dobs, field, sumup) or res
        extra = (":pixel_agg=" + dobs["agg"]) if dobs.get("agg") and sup_fails(small, dict(dobs, agg=None), field, sumup) is None else ""
        ctx.impl_fail(f"{res2[0]}/{entry_layout(small)}{extra}", res2[1] + " (real classes)",
                      {"kind": "float-sup", "entries": small, "observers": dobs, "field": field, "sumup": sumup})


def shrink_children(dentries, bad):
    """every collection flattened (sensors kept) and reduced to the fewest children that still fail"""
    def flat(d):
        out = []
        for c in d["children"]:
            out += flat(c) if c["class"] == "Collection" else [c]
        return out
    cur = list(dentries)
    for i, d in enumerate(cur):
        if d["class"] != "Collection":
            continue
        def with_kids(kids, i=i, d=d):
            c2 = list(cur)
            c2[i] = dict(d, children=kids)
            return c2
        kids = flat(d)
        if bad(with_kids(kids)):
            kids = shrink_list(kids, lambda ks: bool(ks) and bad(with_kids(ks)), max_steps=20)
            cur = with_kids(kids)
    return cur


# ------------------------------------------------------------------ sumup given positionally
def sumup_positional(ctx):
    """fixed battery: the documented signature of the four top-level functions is getX(sources, observers, sumup,
    squeeze, ...), so getX(sources, observers, True) must return the SUM over the sources (the methods of sources,
    sensors and collections take sumup by keyword only or not at all)"""
    rng = ctx.rng
    srcs = []
    for kind in ("Cuboid", "Circle", "Dipole"):
        o, _k = l2b.real_source(rng, kind)
        l2b.rnd_pose(rng, o, maxlen=1)
        srcs.append(o)
    dsrcs = [l2b.dump_obj(o) for o in srcs]
    pts = [l2b.rvec(rng, -4, 4) for _ in range(2)] + [(srcs[0]._orientation[0].apply([0.01, 0.02, 0.0]) + srcs[0]._position[0]).tolist()]
    for field in ("B", "H", "J", "M"):
        ctx.bump("sumup-positional:get" + field)
        ctx.case(("sumup-positional", field, repr(dsrcs)[:200]), True)
        res = sumup_positional_fails(dsrcs, pts, field)
        if res is not None:
            ctx.impl_fail(f"sumup/positional-argument:get{field}", res,
                          {"kind": "sumup-positional", "sources": dsrcs, "points": pts, "field": field})


def sumup_positional_fails(dsrcs, pts, field):
    f = l2b.field_fn(field)
    srcs = [l2b.load_obj(d) for d in dsrcs]
    pts = np.array(pts, dtype=float)
    exp = sum(f(o, pts, squeeze=False) for o in srcs)                 # (1, 1, 1, n, 3)
    scale = max(float(np.abs(exp).max()), 1e-300)
    for args, what in (((True,), "get%s(sources, observers, True)" % field),
                       ((True, False), "get%s(sources, observers, True, False)" % field)):
        try:
            got = f(srcs, pts, *args)
        except Exception as e:   # pylint: disable=broad-except
            return f"{what} raised {type(e).__name__}: {e}"
        want = exp if args == (True, False) else np.squeeze(exp)
        if np.shape(got) != want.shape:
            return (f"{what}: third positional argument is `sumup` in the documented signature, but the result has shape "
                    f"{np.shape(got)} instead of {want.shape} (sum over the sources)")
        if float(np.abs(got - want).max()) > 1e-11 * scale:
            return f"{what} differs from the explicit sum of the single-source fields"
    return None


# ------------------------------------------------------------------ one pixel exactly on a documented singular point
def g_singular(rng):
    """a source with exact (dyadic) geometry, unit orientation, and a global point where its field is singular"""
    pos = [rng.randint(-2, 2) / 2 for _ in range(3)]
    if rng.random() < 0.5:
        s = magpy.misc.Dipole(moment=l2b.rvec(rng, -1, 1), position=pos)
        return s, "Dipole", pos
    verts = [[rng.randint(-4, 4) / 4 for _ in range(3)] for _ in range(3)]
    while np.linalg.norm(np.cross(np.subtract(verts[1], verts[0]), np.subtract(verts[2], verts[0]))) == 0:
        verts = [[rng.randint(-4, 4) / 4 for _ in range(3)] for _ in range(3)]
    s = magpy.misc.Triangle(polarization=l2b.rvec(rng, -1, 1), vertices=verts, position=pos)
    return s, "Triangle", (np.array(verts[rng.randrange(3)]) + np.array(pos)).tolist()


def sing_eval(dentries, sing_entry, pixels, field):
    """None or detail: every entry of the list call against ITS OWN single call; entries that do not contain the
    singular source must be finite and unaffected"""
    f = l2b.field_fn(field)

    def sens():
        return magpy.Sensor(pixel=pixels)
    try:
        got = f([l2b.load_obj(d) for d in dentries], sens(), squeeze=False)
    except Exception as e:   # pylint: disable=broad-except
        return f"raised {type(e).__name__}: {e}"
    for l, d in enumerate(dentries):
        own = f(l2b.load_obj(d), sens(), squeeze=False)[0]
        if l != sing_entry:
            if not np.all(np.isfinite(own)):
                return None                       # another source happens to be singular there too: uninformative
            if not np.all(np.isfinite(got[l])):
                return (f"entry {l} does not contain the singular source but has non-finite values in the list call "
                        f"(its own call is finite)")
        fin = np.isfinite(own) & np.isfinite(got[l])
        if not np.array_equal(np.isfinite(own), np.isfinite(got[l])):
            return f"entry {l}: non-finite pattern differs from its own single call"
        scale = max(float(np.abs(own[fin]).max()) if fin.any() else 0.0, 1e-300)
        if fin.any() and float(np.abs(own[fin] - got[l][fin]).max()) > 1e-9 * scale:
            return f"entry {l} differs from its own single call"
    return None


def sing_search(ctx, n):
    rng = ctx.rng
    for _ in range(n):
        sing, kind, pt = g_singular(rng)
        f0 = rng.choice(["B", "H"])
        probe = l2b.field_fn(f0)(sing, pt)
        ctx.bump("singular:" + kind + (":non-finite" if not np.all(np.isfinite(probe)) else ":finite"))
        # >= 2 entries, one of them a collection with > 1 source; the singular source sits in one of them
        others, _d = l2b.real_setup(rng, max_entries=2)
        a, _ = l2b.real_source(rng)
        b, _ = l2b.real_source(rng)
        l2b.rnd_pose(rng, a, maxlen=1)
        l2b.rnd_pose(rng, b, maxlen=1)
        for o in others:
            for leaf in l2b.leaves_of(o):
                leaf._position, leaf._orientation = leaf._position[:1], leaf._orientation[:1]
        where = rng.choice(["bare", "in-collection"])
        if where == "bare":
            entries = [magpy.Collection(a, b), sing] + others
            sing_entry = 1
        else:
            entries = [magpy.Collection(a, sing), b] + others
            sing_entry = 0
        order = list(range(len(entries)))
        rng.shuffle(order)
        entries = [entries[i] for i in order]
        sing_entry = order.index(sing_entry)
        pixels = [pt] + [l2b.rvec(rng, -4, 4) for _ in range(rng.randint(1, 2))]
        dentries = [l2b.dump_obj(e) for e in entries]
        ctx.case(("singular", kind, where, f0, repr(dentries)[:300]), True)
        res = sing_eval(dentries, sing_entry, pixels, f0)
        if res is None:
            continue
        # smallest list that still fails: the singular entry plus as few others as possible
        keep = [i for i in range(len(dentries)) if i != sing_entry]
        def fails(ks):
            idx = sorted(ks + [sing_entry])
            return sing_eval([dentries[i] for i in idx], idx.index(sing_entry), pixels, f0) is not None
        keep = shrink_list(keep, fails, max_steps=20)
        idx = sorted(keep + [sing_entry])
        small = [dentries[i] for i in idx]
        res2 = sing_eval(small, idx.index(sing_entry), pixels, f0) or res
        ctx.impl_fail(f"collection-sum/non-finite-leak:{kind}:{where}", res2 + f" (pixel exactly on the {kind}'s singular point)",
                      {"kind": "float-singular", "entries": small, "sing_entry": idx.index(sing_entry), "pixels": pixels,
                       "field": f0})


# ------------------------------------------------------------------ histories: field call -> edit -> field call
def hist_search(ctx, n):
    rng = ctx.rng
    for _ in range(n):
        h = l2b_hist.g_history(rng, nops=rng.randint(3, 9))
        ctx.case(("history", json.dumps(h, sort_keys=True)), True)
        for op in h["ops"]:
            ctx.bump("history-op:" + op["op"])
        res = l2b_hist.run_history(h)
        if res is None:
            continue

        def fails(ops, h=h):
            try:
                return l2b_hist.run_history(dict(h, ops=ops)) is not None
            except Exception:   # pylint: disable=broad-except
                return False
        ops = shrink_list(h["ops"], fails, max_steps=80)
        small = dict(h, ops=ops)
        res2 = l2b_hist.run_history(small)
        if res2 is None:
            small, res2 = h, res
        idx, clause, detail = res2
        ctx.impl_fail(f"{clause}/history:{l2b_hist.trigger(small, idx)}",
                      detail + f" (field call #{sum(1 for o in small['ops'][:idx + 1] if o['op'] == 'field')} of the history)",
                      {"kind": "history", "history": small})


# ------------------------------------------------------------------ float: linearity in the excitation
LIN_TOL = 1e-9
EXC = {"Cuboid": "polarization", "Cylinder": "polarization", "CylinderSegment": "polarization", "Sphere": "polarization",
       "Tetrahedron": "polarization", "Triangle": "polarization", "TriangularMesh": "polarization",
       "Circle": "current", "Polyline": "current", "Dipole": "moment"}


def lin_eval(d, pts, field, a, b, e1, e2, use_mag):
    """deviation of F(a e1 + b e2) from a F(e1) + b F(e2), relative to the scale of the terms"""
    f = l2b.field_fn(field)
    attr = EXC[d["class"]]
    if use_mag and attr == "polarization":
        attr = "magnetization"

    def at(e):
        o = l2b.load_obj(d)
        setattr(o, attr, e)
        return f(o, pts, squeeze=False)
    e1, e2 = np.array(e1, dtype=float), np.array(e2, dtype=float)
    F12 = at((a * e1 + b * e2).tolist() if e1.ndim else float(a * e1 + b * e2))
    F1 = at(e1.tolist() if e1.ndim else float(e1))
    F2 = at(e2.tolist() if e2.ndim else float(e2))
    scale = max(np.abs(a * F1).max(), np.abs(b * F2).max(), np.abs(F12).max())
    if not np.isfinite(scale) or scale == 0:
        return 0.0 if np.array_equal(F12, a * F1 + b * F2) or not np.isfinite(scale) else float("inf")
    dev = float(np.abs(F12 - (a * F1 + b * F2)).max() / scale)
    # vector sum of excitations as superposition: two copies of the body, one call, summed
    o1, o2 = l2b.load_obj(d), l2b.load_obj(d)
    setattr(o1, attr, (a * e1).tolist() if e1.ndim else float(a * e1))
    setattr(o2, attr, (b * e2).tolist() if e2.ndim else float(b * e2))
    Fs = f([o1, o2], pts, squeeze=False, sumup=True)
    return max(dev, float(np.abs(F12 - Fs).max() / scale))


def lin_rounding_limited(dev, d, pts, field, a, b, e1, e2, use_mag):
    """True when the deviation is within NOISE_FACTOR times what this very evaluation moves under rounding-level
    changes of pose and observer (ill-conditioned CylinderSegment / Tetrahedron points reach 1e-9)"""
    if not np.isfinite(dev):
        return False
    attr = EXC[d["class"]]
    if use_mag and attr == "polarization":
        attr = "magnetization"
    o = l2b.load_obj(d)
    e12 = a * np.array(e1, dtype=float) + b * np.array(e2, dtype=float)
    setattr(o, attr, e12.tolist() if e12.ndim else float(e12))
    try:
        nf = l2b.noise_floor([l2b.dump_obj(o)], {"kind": "array", "points": pts,
                                                 "scale": float(max(np.abs(np.array(pts)).max(), 1e-300)) / 4}, field)
    except Exception:   # pylint: disable=broad-except
        return False
    return dev <= NOISE_FACTOR * nf


SCALINGS = [1e-12, 1e-10, 1e-8, 1e-6, 1e-3, 1e3, 1e6, 1e9, -1e-9, -1.0, 0.0]


def lin_battery(ctx):
    """fixed battery, every run: for every class, B and H of (s * excitation) against s * (B, H of the excitation) for
    very small, very large, negative and zero factors s -- 'all real scalings'; one generic and one axis-aligned
    excitation, one observer inside and one outside the body"""
    rng = ctx.rng
    for kind in EXC:
        s, _k = l2b.real_source(rng, kind)
        l2b.rnd_pose(rng, s, maxlen=1)
        d = l2b.dump_obj(s)
        loc = l2b.inside_point(rng, s, kind)
        pts = [l2b.rvec(rng, -4, 4)] + ([(s._orientation[0].apply(loc) + s._position[0]).tolist()] if loc is not None else [])
        vec = EXC[kind] != "current"
        for e in ([l2b.rvec(rng, -1, 1), [0.0, 0.0, rng.uniform(0.2, 1)], [rng.uniform(0.2, 1), 0.0, 0.0]] if vec
                  else [rng.uniform(0.5, 2)]):
            for field in ("B", "H"):
                for a in SCALINGS:
                    ctx.bump("linear-battery:" + kind)
                    try:
                        dev = lin_eval(d, pts, field, a, 0.0, e, e, False)
                    except Exception as ex:   # pylint: disable=broad-except
                        dev, what = float("inf"), f"raised {type(ex).__name__}: {ex}"
                    else:
                        what = (f"{field}(s*e) deviates by {dev:.2e} (relative) from s*{field}(e) for s = {a:g} and the "
                                f"{EXC[kind]} of {kind}")
                    if dev > LIN_TOL and not lin_rounding_limited(dev, d, pts, field, a, 0.0, e, e, False):
                        mag = "tiny" if 0 < abs(a) < 1e-5 else "huge" if abs(a) > 1e5 else "zero" if a == 0 else "moderate"
                        ctx.impl_fail(f"linear/{kind}:{field}:scaling-{mag}", what,
                                      {"kind": "float-lin", "source": d, "points": pts, "field": field, "a": a, "b": 0.0,
                                       "e1": e, "e2": e, "use_mag": False})


def lin_search(ctx, n_per_class):
    rng = ctx.rng
    worst = {}
    lin_battery(ctx)
    for kind in EXC:
        for _ in range(n_per_class):
            s, _k = l2b.real_source(rng, kind)
            l2b.rnd_pose(rng, s, maxlen=2)
            d = l2b.dump_obj(s)
            field = l2b.pick_field(rng)
            use_mag = rng.random() < 0.3
            # observers anywhere, also inside the magnet (placed through the pose at path index 0)
            pts = []
            for _ in range(3):
                loc = l2b.inside_point(rng, s, kind) if rng.random() < 0.4 else None
                if loc is not None:
                    pts.append((s._orientation[0].apply(loc) + s._position[0]).tolist())
                else:
                    pts.append(l2b.rvec(rng, -4, 4))
            vec = EXC[kind] != "current"
            scale = 1e6 if use_mag and EXC[kind] == "polarization" else 1.0
            # generic and exactly axis-aligned excitations, also opposite ones (a e1 + b e2 can vanish)
            e1 = [x * scale for x in l2b.exc_vec(rng)] if vec else l2b.exc_cur(rng)
            e2 = [x * scale for x in l2b.exc_vec(rng)] if vec else l2b.exc_cur(rng)
            if rng.random() < 0.3:         # absolute length scale
                k = rng.choice([1e-3, 1e-6, 1e3])
                d = l2b.scale_dump(d, k)
                pts = (np.array(pts) * k).tolist()
            a, b = rng.uniform(-3, 3), rng.uniform(-3, 3)
            if rng.random() < 0.35:  # pure scaling by any real factor, also very small and very large ones
                b = 0.0
                a = rng.choice([-1, 1]) * 10.0 ** rng.uniform(-9, 9)
            try:
                dev = lin_eval(d, pts, field, a, b, e1, e2, use_mag)
            except Exception as e:   # pylint: disable=broad-except
                ctx.impl_fail(f"linear/raises:{kind}", f"raised {type(e).__name__}: {e}",
                              {"kind": "float-lin", "source": d, "points": pts, "field": field, "a": a, "b": b,
                               "e1": e1, "e2": e2, "use_mag": use_mag})
                continue
            ctx.case(("lin", kind, field, use_mag, repr(pts), a, b), True)
            ctx.bump("float-linear:" + kind)
            worst[kind] = max(worst.get(kind, 0.0), dev)
            if dev > LIN_TOL and lin_rounding_limited(dev, d, pts, field, a, b, e1, e2, use_mag):
                ctx.bump("float-linear:rounding-limited")
                continue
            if dev > LIN_TOL:
                ctx.impl_fail(f"linear/{kind}:{field}",
                              f"{field}(a*e1+b*e2) deviates by {dev:.2e} (relative) from a*{field}(e1)+b*{field}(e2) "
                              f"for the {'magnetization' if use_mag else EXC[kind]} of {kind}",
                              {"kind": "float-lin", "source": d, "points": pts, "field": field, "a": a, "b": b,
                               "e1": e1, "e2": e2, "use_mag": use_mag})
    ctx.extra["linearity_worst_relative_deviation"] = worst


# ------------------------------------------------------------------ main
def run(ctx):
    ctx.extra["rule"] = ("exact: source lists given as object TREES (bare stub sources, collections nested up to depth 3, "
                         "sensors inside collections, duplicates, empty collections) through getBH_level2 and through the "
                         "Coq model of format_src_inputs/format_obj_input + data flow; compared: output, order of the "
                         "flattened leaves, col_len of every entry. All layouts with <= 3 (thorough: 5) entries of size "
                         "<= 3 are enumerated. A case is non-trivial when it holds a collection. float: real classes, "
                         "list call vs explicit sums of single-source calls; linearity F(a e1 + b e2) per class")
    ctx.trusted += [
        "translator translate/gen_reduce.py (fail-closed python-ast -> Gallina for the collection loop and the sumup "
        "statement of _getBH_level2; index arithmetic translated as written); Props/C05.v proves the translated "
        "loop equal to the model's loop on every run",
        "translator translate/gen_flat.py (fail-closed interpretation, per kind of object, of format_obj_input / "
        "filter_objects / format_src_inputs of utility.py); Props/C05.v proves the translated functions equal to the "
        "hand model of Model/Level2Flat.v; the class hierarchy (a Collection is neither BaseSource nor Sensor nor "
        "list) is built into the translator and exercised by the tree correspondence",
        "hand models coq/Model/Level2Model.v (data flow incl. the literal slice-sum/delete loop) and "
        "coq/Model/Level2Flat.v (format_obj_input / filter_objects / format_src_inputs), tied by the exact "
        "correspondence with stub sources; getBH = spec is proved in Proofs/Level2A-E (shared with C04/C06)",
        "linearity is proved over R for the formula models of coq/Model/CoreModel.v (dipole, sphere, polyline "
        "segment, circle on the modelled branches; tied to the code by the C01 correspondence), with Coq's total "
        "division; for the cuboid, core and wrapper: the contribution table Gen/GenCuboid.cuboid_contrib is "
        "re-translated on every run by translate/gen_cuboid.py (which checks the form [-]pol_k*ff*qsigns[k][j] "
        "of every contribution) and the core theorem holds for every table / sign function / term function; "
        "the wrapper theorems use coq/Model/WrapModel.v (tied to the code by the C02 correspondence)",
        "wrapper theorems for triangle, tetrahedron, triangular mesh and cylinder segment are CONDITIONAL on "
        "the linearity of the opaque core (triangle_Bfield, magnet_cylinder_segment_Hfield); Cylinder is proved "
        "for purely axial polarization only; these cores and the general circle branch are search-only",
        "np.sum / np.delete on axis 0 are modelled as list functions (sum_blocks, delete_range), not verified",
    ]
    ok = ctx.regen(["GenReduce", "GenFlat", "GenCuboid"])
    built = ctx.build_props() and ok
    if ctx.tier == "thorough" and built:
        ctx.coqchk("MV.Props.C05")
    ctx.partial += ["C05_linear_in_excitation_partial_dipole", "C05_linear_in_excitation_partial_sphere",
                    "C05_linear_in_excitation_partial_polyline", "C05_linear_in_excitation_partial_circle",
                    "C05_wrapper_linear_cylinder_axial_partial"]
    cases = run_guarded(ctx, lambda: correspondence(ctx, built), "C05 correspondence") or []
    big = bool(ctx.broken)
    sub = cases if (big or ctx.tier == "thorough") else cases[:40] + cases[84:84 + 80]
    if big and len(cases) < 500:
        cases = cases + [l2b.layout_case(lay, ctx.rng) for lay in l2b.enum_c05_layouts(4, 3)]
        sub = cases
    run_guarded(ctx, lambda: exact_oracle(ctx, sub), "C05 exact oracle")
    run_guarded(ctx, lambda: sup_search(ctx, ctx.n(150, 4000) * (4 if big else 1)), "C05 superposition search")
    run_guarded(ctx, lambda: lin_search(ctx, ctx.n(25, 500) * (3 if big else 1)), "C05 linearity search")
    run_guarded(ctx, lambda: sumup_positional(ctx), "C05 positional sumup")
    run_guarded(ctx, lambda: sing_search(ctx, ctx.n(60, 1500) * (3 if big else 1)), "C05 singular-point search")
    run_guarded(ctx, lambda: hist_search(ctx, ctx.n(150, 3000) * (4 if big else 1)), "C05 history search")


def replay(ctx, obj):
    rp = obj.get("replay", obj)
    path = obj.get("how_to_rerun", "").split()[-1] if obj.get("how_to_rerun") else "given"
    kind = rp.get("kind")
    if kind == "exact":
        res = l2b.c05_oracle(rp["case"])
        res = None if res is None else res[1]
    elif kind == "float-sup":
        res = sup_fails(rp["entries"], rp["observers"], rp["field"], rp["sumup"])
        res = None if res is None else res[1]
    elif kind == "sumup-positional":
        res = sumup_positional_fails(rp["sources"], rp["points"], rp["field"])
    elif kind == "float-singular":
        res = sing_eval(rp["entries"], rp["sing_entry"], rp["pixels"], rp["field"])
    elif kind == "history":
        r = l2b_hist.run_history(rp["history"])
        res = None if r is None else f"field op #{r[0]}: {r[2]}"
    elif kind == "float-lin":
        dev = lin_eval(rp["source"], rp["points"], rp["field"], rp["a"], rp["b"], rp["e1"], rp["e2"], rp["use_mag"])
        ok = dev <= LIN_TOL or lin_rounding_limited(dev, rp["source"], rp["points"], rp["field"], rp["a"], rp["b"],
                                                     rp["e1"], rp["e2"], rp["use_mag"])
        res = None if ok else f"relative deviation {dev:.2e}"
    else:
        print(json.dumps(obj, indent=1)[:3000])
        return 0
    print("replay:", "property holds on this input" if res is None else "FAILS: " + res)
    if res is not None:
        print(f"VIOLATION property=C05 replay={path}")
    return 0 if res is None else 1
