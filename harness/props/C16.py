"""C16 -- TriangularMesh status checks are right and orientation is normalised.

stage 2  proofs about the index-level model coq/Model/MeshModel.v (Props/C16.v)
stage 3  correspondence: get_open_edges / get_disconnected_faces_subsets / get_inwards_mask /
         fix_trimesh_orientation of /repo vs the Coq model on the same face lists (exact, order included);
         the geometric seed test is_facet_inwards is wrapped harness-side and its results are fed to the
         model as oracle bits
stage 4  search on the real class through the public API: status flags vs independent ground truth,
         outward orientation after the default reorientation, field independent of face order /
         winding / vertex numbering
"""
import collections
import itertools
import json
import math
import warnings

import numpy as np
from scipy.spatial import ConvexHull

from harness.common import run_guarded, Lock, sh, COQ, ensure_makefile
from harness.octa import parse_z_list
from harness.shrink import shrink_list

import magpylib as magpy
import magpylib._src.fields.field_BH_triangularmesh as tm

warnings.simplefilter("ignore")

POL = (0.13, -0.21, 0.34)


# =============================================================================== constructions
# every part: dict(kind, verts (n,3) float in "unit" coordinates, faces (m,3) int wound OUTWARDS,
#                  inner: a point strictly inside the material, convex: bool)

def _np_rng(rng):
    return np.random.default_rng(rng.getrandbits(32))


def orient_star(verts, faces, c):
    """wind every face so that its normal points away from c (valid for bodies star-shaped w.r.t. c)"""
    faces = np.array(faces, dtype=int)
    tri = verts[faces]
    n = np.cross(tri[:, 1] - tri[:, 0], tri[:, 2] - tri[:, 0])
    d = np.einsum("ij,ij->i", n, tri.mean(axis=1) - c)
    if np.any(np.abs(d) < 1e-9):
        raise ValueError("degenerate face in construction")
    bad = d < 0
    faces[bad] = faces[bad][:, [0, 2, 1]]
    return faces


def hull_part(pts, kind):
    pts = np.asarray(pts, dtype=float)
    h = ConvexHull(pts)
    used = np.sort(h.vertices)
    remap = -np.ones(len(pts), dtype=int)
    remap[used] = np.arange(len(used))
    verts = pts[used]
    faces = remap[h.simplices]
    c = verts.mean(axis=0)
    return {"kind": kind, "verts": verts, "faces": orient_star(verts, faces, c), "inner": c, "convex": True}


def part_tetra(rng):
    while True:
        pts = np.array([[rng.randint(-4, 4) for _ in range(3)] for _ in range(4)], dtype=float)
        if abs(np.linalg.det(pts[1:] - pts[0])) >= 6:
            return hull_part(pts, "tetrahedron")


def part_box(rng):
    a, b, c = (rng.randint(1, 5) for _ in range(3))
    pts = list(itertools.product((0, a), (0, b), (0, c)))
    return hull_part(pts, "box")


def part_prism(rng):
    n = rng.randint(3, 7)
    r, h = rng.randint(2, 4), rng.randint(1, 5)
    ph = rng.uniform(0, 1)
    ring = [(r * math.cos(2 * math.pi * (k + ph) / n), r * math.sin(2 * math.pi * (k + ph) / n)) for k in range(n)]
    pts = [(x, y, 0.0) for x, y in ring] + [(x, y, float(h)) for x, y in ring]
    return hull_part(pts, "prism")


def part_hull(rng):
    while True:
        n = rng.randint(5, 12)
        pts = np.array([[rng.randint(-5, 5) for _ in range(3)] for _ in range(n)], dtype=float)
        try:
            p = hull_part(pts, "convex-hull")
        except Exception:   # pylint: disable=broad-except
            continue        # coplanar sample
        if fatness(p) >= 0.3:
            return p


def fatness(p):
    """smallest distance from the inner point to a face plane"""
    tri = p["verts"][p["faces"]]
    n = np.cross(tri[:, 1] - tri[:, 0], tri[:, 2] - tri[:, 0])
    n /= np.linalg.norm(n, axis=1, keepdims=True)
    return float(np.min(np.abs(np.einsum("ij,ij->i", n, tri[:, 0] - p["inner"]))))


def part_stellated(rng):
    """convex body with pyramids pushed in (dents) or pulled out (spikes) over some faces: star-shaped
    with respect to the centroid, closed, not self-intersecting, not convex"""
    base = rng.choice([part_hull, part_box, part_prism])(rng)
    verts = [tuple(v) for v in base["verts"]]
    c = base["inner"]
    faces = []
    did = False
    for f in base["faces"].tolist():
        if rng.random() < 0.45 or (not did and f == base["faces"].tolist()[-1]):
            did = True
            fc = base["verts"][f].mean(axis=0)
            t = rng.uniform(0.2, 0.5)
            apex = fc + t * (c - fc) if rng.random() < 0.6 else fc + rng.uniform(0.2, 0.8) * (fc - c)
            k = len(verts)
            verts.append(tuple(apex))
            faces += [(f[0], f[1], k), (f[1], f[2], k), (f[2], f[0], k)]
        else:
            faces.append(tuple(f))
    verts = np.array(verts, dtype=float)
    return {"kind": "stellated", "verts": verts, "faces": orient_star(verts, faces, c), "inner": c, "convex": False}


def part_lprism(rng):
    """extruded L-shaped polygon (non-convex, star-shaped w.r.t. a point near the inner corner)"""
    a, b, h = rng.randint(2, 4), rng.randint(2, 4), rng.randint(1, 4)
    w = rng.choice([0.5, 1.0, 1.5])
    poly = [(0, 0), (a, 0), (a, w), (w, w), (w, b), (0, b)]
    n = len(poly)
    verts = np.array([(x, y, 0.0) for x, y in poly] + [(x, y, float(h)) for x, y in poly])
    faces = []
    for i in range(1, n - 1):                      # fans from the corner (0,0): valid for the L shape
        faces.append((0, i + 1, i))
        faces.append((n, n + i, n + i + 1))
    for i in range(n):
        j = (i + 1) % n
        faces += [(i, j, n + j), (i, n + j, n + i)]
    c = np.array([w / 3, w / 3, h / 2])
    return {"kind": "l-prism", "verts": verts, "faces": orient_star(verts, faces, c), "inner": c, "convex": False}


def part_torus(rng):
    """genus 1, neither convex nor star-shaped; wound consistently by construction"""
    m, n = rng.randint(3, 6), rng.randint(3, 5)
    R0, r0 = rng.choice([3.0, 4.0]), rng.choice([1.0, 1.5])
    verts, faces = [], []
    for i in range(m):
        for j in range(n):
            u, v = 2 * math.pi * i / m, 2 * math.pi * (j + 0.25) / n
            verts.append(((R0 + r0 * math.cos(v)) * math.cos(u), (R0 + r0 * math.cos(v)) * math.sin(u), r0 * math.sin(v)))
    idx = lambda i, j: (i % m) * n + (j % n)   # noqa: E731
    for i in range(m):
        for j in range(n):
            a, b, c, d = idx(i, j), idx(i + 1, j), idx(i + 1, j + 1), idx(i, j + 1)
            faces += [(a, b, c), (a, c, d)]
    verts = np.array(verts)
    faces = np.array(faces, dtype=int)
    if signed_volume(verts, faces) < 0:
        faces = faces[:, [0, 2, 1]]
    # a point inside the tube: centre of one polygonal cross-section
    inner = np.mean([verts[idx(0, j)] for j in range(n)], axis=0) * 0.5 + \
        np.mean([verts[idx(1, j)] for j in range(n)], axis=0) * 0.5
    return {"kind": "torus", "verts": verts, "faces": faces, "inner": inner, "convex": False}


def part_needle(rng):
    """long thin tetrahedron pointing along +x, tip at the origin side x = L"""
    L = rng.choice([15.0, 20.0, 30.0])
    verts = np.array([(0, 0, 0), (0, 1, 0), (0, 0, 1), (L, 0.3, 0.3)], dtype=float)
    faces = [(0, 1, 2), (0, 1, 3), (0, 2, 3), (1, 2, 3)]
    c = verts.mean(axis=0)
    return {"kind": "needle", "verts": verts, "faces": orient_star(verts, faces, c), "inner": c, "convex": True}


def part_bighull(rng, n=None):
    """convex hull of n (60..300) points near a sphere: hundreds of faces, so that the closure loop of
    get_disconnected_faces_subsets and the propagation need many passes under a random face order"""
    n = n or rng.choice([60, 100, 200, 300])
    g = _np_rng(rng)
    pts = g.normal(size=(n, 3))
    pts /= np.linalg.norm(pts, axis=1, keepdims=True)
    pts *= rng.uniform(2.0, 5.0) * (1 + 0.03 * g.uniform(-1, 1, size=(n, 1)))
    return hull_part(pts, "big-hull")


def part_subdivided_box(rng, k=None):
    """box whose six sides are k x k grids of quads, each split in two triangles; vertices shared along the edges"""
    k = k or rng.choice([3, 4, 5])
    a, b, c = (rng.randint(2, 5) for _ in range(3))
    ids, verts, faces = {}, [], []

    def vid(i, j, l):
        if (i, j, l) not in ids:
            ids[(i, j, l)] = len(verts)
            verts.append((a * i / k, b * j / k, c * l / k))
        return ids[(i, j, l)]
    for axis in range(3):
        for side in (0, k):
            for u in range(k):
                for v in range(k):
                    def pt(uu, vv, axis=axis, side=side):
                        q = [uu, vv]
                        q.insert(axis, side)
                        return vid(*q)
                    p00, p10, p11, p01 = pt(u, v), pt(u + 1, v), pt(u + 1, v + 1), pt(u, v + 1)
                    if rng.random() < 0.5:
                        faces += [(p00, p10, p11), (p00, p11, p01)]
                    else:
                        faces += [(p00, p10, p01), (p10, p11, p01)]
    verts = np.array(verts, dtype=float)
    cen = np.array([a, b, c]) / 2.0
    return {"kind": "subdivided-box", "verts": verts, "faces": orient_star(verts, faces, cen), "inner": cen,
            "convex": True}


BIG_PARTS = {"big-hull": part_bighull, "subdivided-box": part_subdivided_box}


PARTS = {"tetrahedron": part_tetra, "box": part_box, "prism": part_prism, "convex-hull": part_hull,
         "stellated": part_stellated, "l-prism": part_lprism, "torus": part_torus}
CONVEX_PARTS = ["tetrahedron", "box", "prism", "convex-hull"]


def signed_volume(verts, faces):
    tri = np.asarray(verts)[np.asarray(faces)]
    return float(np.einsum("ij,ij->i", tri[:, 0], np.cross(tri[:, 1], tri[:, 2])).sum() / 6.0)


def inside_convex(part, p, margin=0.0):
    tri = part["verts"][part["faces"]]
    n = np.cross(tri[:, 1] - tri[:, 0], tri[:, 2] - tri[:, 0])
    n /= np.linalg.norm(n, axis=1, keepdims=True)
    return bool(np.all(np.einsum("ij,ij->i", n, p - tri[:, 0]) < margin))


def translated(part, d):
    q = dict(part)
    q["verts"] = part["verts"] + np.asarray(d, dtype=float)
    q["inner"] = part["inner"] + np.asarray(d, dtype=float)
    return q


def assemble(parts, construction, selfint):
    """stack parts into one body: base description with ground truth"""
    verts, faces, owner = [], [], []
    off = 0
    for k, p in enumerate(parts):
        verts.append(p["verts"])
        faces.append(p["faces"] + off)
        owner += [k] * len(p["faces"])
        off += len(p["verts"])
    return {"construction": construction, "verts": np.vstack(verts), "faces": np.vstack(faces),
            "owner": owner, "inner": [p["inner"] for p in parts], "selfint": selfint, "closed": True}


def gen_single(rng, kind=None):
    kind = kind or rng.choice(list(PARTS))
    return assemble([PARTS[kind](rng)], kind, False)


def place_apart(rng, parts):
    out, x = [], 0.0
    for p in parts:
        lo, hi = p["verts"].min(axis=0), p["verts"].max(axis=0)
        d = np.array([x - lo[0], rng.uniform(-1, 1), rng.uniform(-1, 1)])
        out.append(translated(p, d))
        x += (hi[0] - lo[0]) + rng.uniform(0.7, 2.0)
    return out


def gen_disjoint_union(rng):
    kinds = [rng.choice(list(PARTS)) for _ in range(rng.randint(2, 3))]
    parts = place_apart(rng, [PARTS[k](rng) for k in kinds])
    name = "nonconvex-union" if any(not p["convex"] for p in parts) else "disjoint-union"
    return assemble(parts, name, False)


def gen_duplicated(rng):
    p = PARTS[rng.choice(list(PARTS))](rng)
    parts = place_apart(rng, [p] * rng.randint(2, 3))
    return assemble(parts, "duplicated-part", False)


def gen_interpenetrating(rng):
    """two convex parts whose surfaces cross in general position; the FIRST face of the base order has
    its centre outside the other part (so that the base order is oriented correctly)"""
    for _ in range(200):
        a = PARTS[rng.choice(CONVEX_PARTS)](rng)
        if rng.random() < 0.5:
            b = dict(a)
        else:
            b = PARTS[rng.choice(CONVEX_PARTS)](rng)
            b = translated(b, a["inner"] - b["inner"])
        # shift b by a generic vector shorter than the inradius-like fatness of both: the bodies overlap
        # and (having a point of b outside a and a point of a outside b) the surfaces must cross
        s = 0.8 * min(fatness(a), fatness(b))
        u = np.array([rng.gauss(0, 1) for _ in range(3)])
        b = translated(b, u / np.linalg.norm(u) * s * rng.uniform(0.5, 1.0))
        if not inside_convex(a, b["inner"]) or not inside_convex(b, a["inner"]):
            continue
        va_out = any(not inside_convex(b, v, 1e-3) for v in a["verts"])
        vb_out = any(not inside_convex(a, v, 1e-3) for v in b["verts"])
        if not (va_out and vb_out):
            continue
        cents = a["verts"][a["faces"]].mean(axis=1)
        outside = [i for i, c in enumerate(cents) if not inside_convex(b, c, 1e-2)]
        if not outside:
            continue
        order = [outside[0]] + [i for i in range(len(cents)) if i != outside[0]]
        a = dict(a)
        a["faces"] = a["faces"][order]
        return assemble([a, b], "interpenetrating", True)
    raise RuntimeError("no interpenetrating pair found")


def gen_tiny_parts(rng, pierce=True, ratio=None):
    """a large convex part and, next to it, two convex parts that are 0.002 .. 0.012 of its size and either
    interpenetrate each other (pierce) or are clearly apart: the self-intersection report must not depend on how
    large the crossing faces are compared with the whole mesh"""
    big = PARTS[rng.choice(["box", "convex-hull", "prism"])](rng)
    lo, hi = big["verts"].min(axis=0), big["verts"].max(axis=0)
    size = float(np.max(hi - lo))
    ratio = ratio or rng.choice([0.002, 0.004, 0.008, 0.012])
    if pierce:
        pair = gen_interpenetrating(rng)
        k = len(set(pair["owner"])) and pair["owner"].count(0)
        nva = int(pair["faces"][:k].max()) + 1
        small = [{"kind": "tiny", "verts": pair["verts"][:nva], "faces": pair["faces"][:k], "inner": pair["inner"][0],
                  "convex": True},
                 {"kind": "tiny", "verts": pair["verts"][nva:], "faces": pair["faces"][k:] - nva,
                  "inner": pair["inner"][1], "convex": True}]
    else:
        small = place_apart(rng, [PARTS[rng.choice(["tetrahedron", "box", "convex-hull"])](rng) for _ in range(2)])
    allv = np.vstack([p["verts"] for p in small])
    slo, shi = allv.min(axis=0), allv.max(axis=0)
    f = ratio * size / float(np.max(shi - slo))
    # beside the big part along x, a gap of one small-part size away, at a generic height
    target = np.array([hi[0] + 2 * ratio * size, lo[1] + 0.37 * (hi[1] - lo[1]), lo[2] + 0.61 * (hi[2] - lo[2])])
    out = []
    for p in small:
        q = dict(p)
        q["verts"] = (p["verts"] - slo) * f + target
        q["inner"] = (np.asarray(p["inner"]) - slo) * f + target
        out.append(q)
    return assemble([big] + out, "tiny-interpenetrating-parts" if pierce else "tiny-parts-apart", pierce)


def gen_needles(rng):
    """two long thin tetrahedra piercing each other at their tips (centres of the crossing triangles are
    almost two circumradii apart)"""
    a = part_needle(rng)
    L = a["verts"][3, 0]
    b = part_needle(rng)
    k = 0.5 / L                                   # cross-section of a at x = L - 0.5 is its base scaled by k
    sec = 0.3 + k * (1.0 / 3.0 - 0.3)             # centroid of that cross-section (y and z)
    vb = np.array([(2 * L, 0, 0), (2 * L, 1, 0), (2 * L, 0, 1),
                   (L - 0.5, sec + rng.uniform(-0.1, 0.1) * k, sec + rng.uniform(-0.1, 0.1) * k)], dtype=float)
    c = vb.mean(axis=0)
    b = {"kind": "needle", "verts": vb, "faces": orient_star(vb, b["faces"], c), "inner": c, "convex": True}
    if not inside_convex(a, vb[3], -1e-4):
        raise RuntimeError("needle tip not inside")
    return assemble([a, b], "interpenetrating-needles", True)


def gen_spike(rng, spike_first=None):
    """a small tetrahedral spike poking through ONE face of a much larger convex part, away from that face's
    centre: few crossing pairs, faces of very different size"""
    for _ in range(200):
        a = PARTS[rng.choice(["box", "convex-hull", "prism"])](rng)
        i = rng.randrange(len(a["faces"]))
        p = a["verts"][a["faces"][i]]
        n = np.cross(p[1] - p[0], p[2] - p[0])
        L = math.sqrt(float(np.linalg.norm(n)))
        n = n / np.linalg.norm(n)
        w = [0.6, 0.2, 0.2]
        rng.shuffle(w)
        q = w[0] * p[0] + w[1] * p[1] + w[2] * p[2]
        h = 0.12 * L
        e1 = (p[1] - p[0]) / np.linalg.norm(p[1] - p[0])
        e2 = np.cross(n, e1)
        ph = rng.uniform(0, 2 * math.pi)
        base = [q + h * n + 0.25 * h * (math.cos(ph + k * 2 * math.pi / 3) * e1 + math.sin(ph + k * 2 * math.pi / 3) * e2)
                for k in range(3)]
        tip = q - 0.4 * h * n
        if not inside_convex(a, tip, -1e-3 * L):
            continue
        vb = np.array(base + [tip])
        c = vb.mean(axis=0)
        b = {"kind": "spike", "verts": vb, "faces": orient_star(vb, [(0, 1, 2), (0, 1, 3), (1, 2, 3), (2, 0, 3)], c),
             "inner": c, "convex": True}
        # the pierced part first or the spike first: the edge-through-face test is not symmetric in the pair
        spike_first = rng.random() < 0.5 if spike_first is None else spike_first
        body = assemble([b, a] if spike_first else [a, b], "interpenetrating-spike", True)
        big = 1 if spike_first else 0
        off = len(b["faces"]) if spike_first else 0
        clear, _ = crossing_pairs(body["verts"], body["faces"])
        if clear and {x for pr in clear for x in pr if body["owner"][x] == big} == {i + off}:
            return body
    raise RuntimeError("no spike configuration found")


def gen_nested(rng):
    """a body with a cavity: a convex shell and a scaled-down copy of it inside (both closed, disjoint)"""
    a = PARTS[rng.choice(CONVEX_PARTS)](rng)
    b = dict(a)
    k = rng.choice([0.3, 0.5, 0.7])
    b["verts"] = a["inner"] + k * (a["verts"] - a["inner"])
    body = assemble([a, b], "nested-shells", False)
    body["nested"] = True
    return body


def gen_tiny(rng, nfaces):
    """one triangle / two triangles sharing an edge: the smallest (open) meshes"""
    verts = np.array([(0, 0, 0), (rng.randint(1, 4), 0, 0), (0, rng.randint(1, 4), 0), (0, 0, rng.randint(1, 4))], dtype=float)
    faces = np.array([(0, 1, 2), (0, 2, 3)][:nfaces], dtype=int)
    return {"construction": f"{nfaces}-face-mesh", "verts": verts, "faces": faces, "owner": [0] * nfaces,
            "inner": [verts.mean(axis=0)], "selfint": False, "closed": False}


STRETCHES = [(1, 1, 30), (1, 30, 1), (30, 1, 1), (1, 10, 10), (10, 1, 10), (10, 10, 1),
             (1, 1, 0.05), (1, 0.05, 1), (0.05, 1, 1)]
POLS = [POL, (1, 0, 0), (-1, 0, 0), (0, 1, 0), (0, -1, 0), (0, 0, 1), (0, 0, -1), (0, 0, 0), (1e-6, 0, 2e5)]


def stretch_base(base, sxyz):
    """anisotropic positive scaling (needle / plate shapes with every axis as the special one): an affine map with
    positive diagonal keeps closedness, connectivity, crossings and outward winding"""
    sxyz = np.asarray(sxyz, dtype=float)
    out = dict(base)
    out["verts"] = base["verts"] * sxyz
    out["inner"] = [np.asarray(p) * sxyz for p in base["inner"]]
    out["construction"] = base["construction"] + "+stretched"
    return out


def delete_faces(rng, base):
    n = len(base["faces"])
    k = rng.randint(1, max(1, n // 4))
    drop = set(rng.sample(range(n), k))
    keep = [i for i in range(n) if i not in drop]
    out = dict(base)
    out["faces"] = base["faces"][keep]
    out["owner"] = [base["owner"][i] for i in keep]
    out["construction"] = "faces-deleted"
    out["closed"] = False
    return out


# =============================================================================== transformations
def gen_transform(rng, nf, nv, kinds):
    t = {"perm": list(range(nf)), "flip": [0] * nf, "rot": [0] * nf, "renum": list(range(nv))}
    if "perm" in kinds:
        rng.shuffle(t["perm"])
    if "flip" in kinds:
        t["flip"] = [int(rng.random() < 0.5) for _ in range(nf)]
        if not any(t["flip"]):
            t["flip"][rng.randrange(nf)] = 1
    if "rot" in kinds:
        t["rot"] = [rng.randrange(3) for _ in range(nf)]
    if "renum" in kinds:
        rng.shuffle(t["renum"])
    return t


TKINDS = ["perm", "flip", "rot", "renum"]
TNAMES = {"perm": "face-permutation", "flip": "flip-subset", "rot": "cyclic-winding", "renum": "vertex-renumbering"}


def restrict_transform(t, kinds):
    nf, nv = len(t["perm"]), len(t["renum"])
    return {"perm": t["perm"] if "perm" in kinds else list(range(nf)),
            "flip": t["flip"] if "flip" in kinds else [0] * nf,
            "rot": t["rot"] if "rot" in kinds else [0] * nf,
            "renum": t["renum"] if "renum" in kinds else list(range(nv))}


def apply_transform(base, t, scale=1.0, offset=(0.0, 0.0, 0.0)):
    """-> mesh dict: verts, faces as given to the class, truth (outward faces in the new numbering,
    aligned with the new face order), owner"""
    nv = len(base["verts"])
    new_id = np.array(t["renum"])                    # old vertex i becomes new_id[i]
    verts = np.empty_like(base["verts"])
    verts[new_id] = base["verts"]
    verts = verts * scale + np.asarray(offset, dtype=float)
    truth, faces, owner = [], [], []
    for pos in t["perm"]:
        f = [int(new_id[v]) for v in base["faces"][pos]]
        truth.append(list(f))
        r = t["rot"][pos]
        g = f[r:] + f[:r]
        if t["flip"][pos]:
            g = [g[0], g[2], g[1]]
        faces.append(g)
        owner.append(base["owner"][pos])
    assert nv == len(verts)
    return {"verts": verts.tolist(), "faces": faces, "truth_faces": truth, "owner": owner,
            "construction": base["construction"], "closed": base["closed"], "selfint": base["selfint"],
            "pol": list(base.get("pol", POL)), "nested": bool(base.get("nested", False))}


# =============================================================================== ground truth (independent)
def truth_open(faces):
    cnt = collections.Counter()
    for a, b, c in faces:
        for e in ((a, b), (b, c), (a, c)):
            cnt[frozenset(e)] += 1
    return any(v != 2 for v in cnt.values())


def truth_components(faces):
    parent = {}

    def find(x):
        while parent.setdefault(x, x) != x:
            parent[x] = parent[parent[x]]
            x = parent[x]
        return x
    for f in faces:
        for v in f[1:]:
            parent[find(f[0])] = find(v)
    groups = collections.defaultdict(list)
    for i, f in enumerate(faces):
        groups[find(f[0])].append(i)
    return {frozenset(g) for g in groups.values()}


def same_orientation(f, g):
    """g is a cyclic rotation of f"""
    f, g = list(f), list(g)
    return any(g == f[r:] + f[:r] for r in range(3))


def _vol(a, b, c, d):
    """6 x signed volume of the tetrahedron (a, b, c, d), broadcasting"""
    return np.einsum("...i,...i->...", np.cross(b - a, c - a), d - a)


def crossing_pairs(verts, faces, tol=1e-7):
    """independent float64 ground truth for self-intersection: pairs of faces WITHOUT a common vertex where an
    edge of one passes through the interior of the other.
    -> (clear, maybe): `clear` pairs cross with every orientation predicate away from zero by tol * L^3,
    `maybe` pairs cross if predicates inside that band are given the benefit of the doubt; L is the extent of
    the two triangles of the pair themselves (their own scale, not that of the whole mesh: parts much smaller
    than the mesh are judged as sharply as large ones)."""
    V = np.asarray(verts, dtype=float)
    F = np.asarray(faces, dtype=int)
    n = len(F)
    I, J = np.triu_indices(n, 1)
    share = np.array([len(set(F[i]) & set(F[j])) > 0 for i, j in zip(I, J)], dtype=bool) if n > 1 else np.zeros(0, bool)
    I, J = I[~share], J[~share]
    clear = np.zeros(len(I), dtype=bool)
    maybe = np.zeros(len(I), dtype=bool)
    T = V[F]
    six = np.concatenate([T[I], T[J]], axis=1) if len(I) else np.zeros((0, 6, 3))
    L = np.max(six.max(axis=1) - six.min(axis=1), axis=1) if len(I) else np.zeros(0)
    band = tol * L ** 3
    for A, B in ((I, J), (J, I)):
        a, b, c = T[B, 0], T[B, 1], T[B, 2]
        for k in range(3):
            p, q = T[A, k], T[A, (k + 1) % 3]
            sp, sq = _vol(a, b, c, p), _vol(a, b, c, q)
            w = [_vol(p, q, a, b), _vol(p, q, b, c), _vol(p, q, c, a)]
            opp_clear = (np.minimum(sp, sq) < -band) & (np.maximum(sp, sq) > band)
            opp_maybe = (np.minimum(sp, sq) < band) & (np.maximum(sp, sq) > -band)
            in_clear = (np.all([x > band for x in w], axis=0) | np.all([x < -band for x in w], axis=0))
            in_maybe = (np.all([x > -band for x in w], axis=0) | np.all([x < band for x in w], axis=0))
            clear |= opp_clear & in_clear
            maybe |= opp_maybe & in_maybe
    pairs = list(zip(I.tolist(), J.tolist()))
    return [pr for pr, f in zip(pairs, clear) if f], [pr for pr, f in zip(pairs, maybe) if f]


def truth_selfintersecting(mesh):
    """True / False when construction and float64 geometry agree, None when the geometry is too close to call"""
    clear, maybe = crossing_pairs(mesh["verts"], mesh["faces"])
    if mesh.get("selfint") is None:
        return None
    if mesh["selfint"] and clear:
        return True
    if not mesh["selfint"] and not maybe:
        return False
    return None


def kd_radius_excludes(mesh):
    """every clearly crossing pair of faces has its centres farther apart than the ball radius
    r_factor(=1.5) * max distance centre-vertex that get_intersecting_triangles queries"""
    T = np.asarray(mesh["verts"], dtype=float)[np.asarray(mesh["faces"], dtype=int)]
    cen = T.mean(axis=1)
    rmax = float(np.sqrt(((T - cen[:, None, :]) ** 2).sum(-1)).max())
    clear, _ = crossing_pairs(mesh["verts"], mesh["faces"])
    return bool(clear) and all(np.linalg.norm(cen[i] - cen[j]) > 1.5 * rmax for i, j in clear)


def components_outward(verts, faces):
    """second, construction-independent orientation oracle: every vertex-connected component is consistently
    wound (no directed edge used twice) and has positive signed volume"""
    V = np.asarray(verts, dtype=float)
    bad = []
    for comp in truth_components(faces):
        fs = [faces[i] for i in sorted(comp)]
        de = collections.Counter()
        for a, b, c in fs:
            de[(a, b)] += 1
            de[(b, c)] += 1
            de[(c, a)] += 1
        if any(v > 1 for v in de.values()) or signed_volume(V - V.mean(axis=0), fs) <= 0:
            bad.append(sorted(comp))
    return bad


# =============================================================================== oracle on the real class


def make_mesh(mesh, **kw):
    return magpy.magnet.TriangularMesh(vertices=mesh["verts"], faces=mesh["faces"],
                                       polarization=mesh.get("pol", POL), **kw)


def observers_for(base, scale, offset):
    lo, hi = base["verts"].min(axis=0), base["verts"].max(axis=0)
    size = float(np.max(hi - lo))
    c = (lo + hi) / 2
    obs = [c + np.array([0.83, 0.41, 0.67]) * size, c + np.array([-0.9, 0.75, -0.35]) * size,
           c + np.array([3.1, -2.2, 4.3]) * size] + [np.asarray(p) for p in base["inner"]]
    return (np.array(obs) * scale + np.asarray(offset, dtype=float)).tolist()


def reference_field(base, scale, offset):
    """field of the truth-oriented body in base order, computed WITHOUT any check or reorientation"""
    nf, nv = len(base["faces"]), len(base["verts"])
    ident = gen_transform(None, nf, nv, [])
    m = apply_transform(base, ident, scale, offset)
    src = make_mesh(m, check_open="skip", check_disconnected="skip", check_selfintersecting="skip",
                    reorient_faces="skip")
    obs = observers_for(base, scale, offset)
    return obs, src.getB(obs), src.getH(obs)


def nested_reference(base, scale, offset):
    """nested shells: which way the inner shell should face is not laid down by the property; what it demands is
    that the result does not depend on face order / winding / numbering -> reference = the class's own result on
    the base order"""
    nf, nv = len(base["faces"]), len(base["verts"])
    m = apply_transform(base, gen_transform(None, nf, nv, []), scale, offset)
    src = make_mesh(m)
    obs = observers_for(base, scale, offset)
    return obs, src.getB(obs), src.getH(obs)


def make_ref(base, scale, offset):
    if base.get("nested"):
        return nested_reference(base, scale, offset)
    if base["closed"] and not base["selfint"]:
        return reference_field(base, scale, offset)
    return None


def field_close(a, b, rtol=1e-10):
    """equal up to the rounding of a sum taken in another order: that error scales with the largest face
    contributions, i.e. with the largest field among the observers (near and inside ones included), not with the
    possibly much smaller field at a far observer where the contributions cancel"""
    a, b = np.asarray(a), np.asarray(b)
    return bool(np.all(np.abs(a - b) <= rtol * np.max(np.abs(b)) + 1e-300))


def check_mesh(mesh, ref=None):
    """-> list of (clause, what).  The property's own oracle on one input mesh.
    clauses: constructor | open | disconnected | selfintersecting-missed | selfintersecting-spurious |
             orientation | field.
    Orientation and field are demanded only of closed meshes that are free of self-intersections: for
    interpenetrating parts "outwards" is not defined for faces buried in the other part, and the documentation
    guarantees the field only for meshes that are not self-intersecting."""
    out = []
    try:
        src = make_mesh(mesh)
    except Exception as e:   # pylint: disable=broad-except
        return [("constructor", f"TriangularMesh(...) raised {type(e).__name__}: {e}")]
    faces = mesh["faces"]
    t_open = truth_open(faces)
    t_disc = len(truth_components(faces)) > 1
    if bool(src.status_open) != t_open:
        out.append(("open", f"status_open={src.status_open} but edge counting says open={t_open}"))
    if bool(src.status_disconnected) != t_disc:
        out.append(("disconnected", f"status_disconnected={src.status_disconnected} but union-find on shared "
                    f"vertices says disconnected={t_disc}"))
    t_self = truth_selfintersecting(mesh)
    if t_self is not None and bool(src.status_selfintersecting) != t_self:
        if t_self:
            out.append(("selfintersecting-missed", "status_selfintersecting=False but faces of the two "
                        "interpenetrating parts cross (float64 edge-through-face test with margins)"))
        else:
            out.append(("selfintersecting-spurious", "status_selfintersecting=True but the construction is free "
                        "of intersections (confirmed by a float64 edge-through-face test with margins)"))
    if mesh.get("nested"):
        if ref is not None:
            obs, B0, H0 = ref
            B, H = src.getB(obs), src.getH(obs)
            if not (field_close(B, B0) and field_close(H, H0)):
                out.append(("field-order", "getB/getH of a body with a cavity (nested closed shells) differ from the "
                            "result for the base ordering of the same mesh (max rel dev "
                            f"{np.max(np.abs(B - B0)) / max(np.max(np.abs(B0)), 1e-300):.2e})"))
    elif mesh["closed"] and mesh.get("selfint") is False:
        got = np.asarray(src.faces).tolist()
        bad = [i for i, (g, t) in enumerate(zip(got, mesh["truth_faces"])) if not same_orientation(t, g)]
        if sorted(map(sorted, got)) != sorted(map(sorted, faces)):
            out.append(("orientation", "reorientation changed the set of faces"))
        elif bad:
            parts = sorted({mesh["owner"][i] for i in bad})
            out.append(("orientation", f"{len(bad)} of {len(got)} faces point inwards after the default "
                        f"reorientation (parts {parts})"))
        elif components_outward(mesh["verts"], got):
            out.append(("orientation", "a component is inconsistently wound or has non-positive signed volume "
                        "after the default reorientation"))
        elif ref is not None:
            obs, B0, H0 = ref
            B, H = src.getB(obs), src.getH(obs)
            if not (field_close(B, B0) and field_close(H, H0)):
                out.append(("field", "getB/getH differ from the reference ordering of the same body "
                            f"(max rel dev {np.max(np.abs(B - B0)) / np.max(np.abs(B0)):.2e})"))
    return out


def fails_clause(base, t, scale, offset, clause):
    ref = make_ref(base, scale, offset) if clause in ("field", "field-order") else None
    m = apply_transform(base, t, scale, offset)
    return any(c == clause for c, _ in check_mesh(m, ref)), m, ref


def classify(base, t, scale, offset, clause):
    """-> (trigger, smallest failing mesh found, its scale/offset/ref).  The trigger names what makes the clause
    fail: the construction and the smallest set of input transformations when the failure is there at unit scale
    with no vertex offset; otherwise the direction of the scale change or the vertex offset."""
    nf, nv = len(base["faces"]), len(base["verts"])
    zero = [0.0, 0.0, 0.0]
    f1, _, _ = fails_clause(base, t, 1.0, zero, clause)
    if f1:
        for k in range(0, len(TKINDS) + 1):
            for kinds in itertools.combinations(TKINDS, k):
                ok, m, ref = fails_clause(base, restrict_transform(t, kinds), 1.0, zero, clause)
                if ok:
                    name = "+".join(TNAMES[x] for x in kinds) or "identity"
                    trig = f"{base['construction']}:{name}"
                    if clause == "selfintersecting-missed" and kd_radius_excludes(m):
                        trig = "crossing-faces-beyond-kdtree-radius"
                    return trig, m, 1.0, zero, ref
    ident = gen_transform(None, nf, nv, [])
    fs, _, _ = fails_clause(base, t, scale, zero, clause)
    if fs and scale != 1.0:
        trig = "scale>1" if scale > 1 else "scale<1"
        for tt in (ident, t):
            ok, m, ref = fails_clause(base, tt, scale, zero, clause)
            if ok:
                return trig, m, scale, zero, ref
    for tt in (ident, t):
        ok, m, ref = fails_clause(base, tt, scale, offset, clause)
        if ok:
            return ("vertex-offset" if not fs else "scale+offset"), m, scale, offset, ref
    return "unstable", apply_transform(base, t, scale, offset), scale, offset, None


# scale of the vertex coordinates (the unit is the metre; typical magnets are 1e-3 .. 1e-1) and vertex offsets in
# units of the body size
SCALES = [1e-6, 1e-3, 1e-2, 0.1, 1.0, 1.0, 1.0, 10.0, 1e2, 1e3, 1e6]
OFFSETS = [0, 0, 0, 3.7, -41.3, 1e3]


def add_unused_vertices(rng, base):
    """vertex array with points that no face uses (as TriangularMesh.from_ConvexHull produces for a cloud with
    interior points): with the renumbering transformation the used vertices get indices up to and beyond the number
    of faces.  The extra points are convex combinations of used vertices, so the bounding box is unchanged."""
    V = base["verts"]
    k = rng.randint(max(1, len(V) - 3), 3 * len(V))
    extra = []
    for _ in range(k):
        w = np.array([rng.random() for _ in range(len(V))])
        extra.append((w / w.sum()) @ V)
    out = dict(base)
    out["verts"] = np.vstack([V, np.array(extra)])
    out["construction"] = base["construction"] + "+unused-vertices"
    return out


def gen_base(rng, weights=None):
    b = gen_base0(rng)
    if b.get("nested"):
        return b            # kept plain so that the signature of a nested-shell failure names one family
    if rng.random() < 0.3:
        b = add_unused_vertices(rng, b)
    # (tiny parts are not stretched: a part thinner than ~1e-5 of the mesh extent is below the documented
    #  resolution of the seed test, eps = 1e-5 on the unit-size copy)
    if rng.random() < 0.25 and not b["construction"].startswith(("interpenetrating-needles", "tiny-")):
        b = stretch_base(b, rng.choice(STRETCHES))
    if rng.random() < 0.3:
        b["pol"] = rng.choice(POLS)
    return b


def gen_base0(rng):
    if rng.random() < 0.05:
        return gen_nested(rng)
    if rng.random() < 0.03:
        kind = rng.choice(list(BIG_PARTS))
        return assemble([BIG_PARTS[kind](rng)], kind, False)
    x = rng.random()
    if x < 0.40:
        return gen_single(rng)
    if x < 0.55:
        return gen_disjoint_union(rng)
    if x < 0.65:
        return gen_duplicated(rng)
    if x < 0.80:
        return gen_interpenetrating(rng)
    if x < 0.83:
        return gen_needles(rng)
    if x < 0.90:
        return gen_spike(rng)
    if x < 0.93:
        return gen_tiny_parts(rng, rng.random() < 0.6)
    b = rng.choice([gen_single, gen_disjoint_union, gen_duplicated])(rng)
    return delete_faces(rng, b)


def search(ctx, n_bases, n_variants):
    rng = ctx.rng
    # families that every run must contain at least once, then the random stream
    forced = [lambda: gen_spike(rng, True), lambda: gen_spike(rng, False), lambda: gen_needles(rng),
              lambda: add_unused_vertices(rng, gen_single(rng, "convex-hull")),
              lambda: add_unused_vertices(rng, gen_single(rng, "tetrahedron")),
              lambda: assemble([part_bighull(rng, 200)], "big-hull", False),
              lambda: assemble([part_bighull(rng, 300)], "big-hull", False),
              lambda: assemble([part_subdivided_box(rng, 5)], "subdivided-box", False),
              lambda: gen_nested(rng), lambda: gen_tiny(rng, 1), lambda: gen_tiny(rng, 2),
              lambda: gen_tiny_parts(rng, True, 0.002), lambda: gen_tiny_parts(rng, True, 0.008),
              lambda: gen_tiny_parts(rng, False, 0.004),
              lambda: stretch_base(gen_single(rng, "convex-hull"), STRETCHES[0]),
              lambda: stretch_base(gen_single(rng, "prism"), STRETCHES[2]),
              lambda: stretch_base(gen_single(rng, "stellated"), STRETCHES[7])]
    for bi in range(n_bases):
        base = forced[bi]() if bi < len(forced) else gen_base(rng)
        scale = rng.choice(SCALES)
        offset = [scale * rng.choice(OFFSETS) * rng.choice([1, -1]) for _ in range(3)]
        nf, nv = len(base["faces"]), len(base["verts"])
        ref = make_ref(base, scale, offset)
        variants = [[]] + [[k] for k in TKINDS] + [TKINDS] * max(0, n_variants - 5)
        seen = set()
        for kinds in variants[:n_variants]:
            t = gen_transform(rng, nf, nv, kinds)
            m = apply_transform(base, t, scale, offset)
            res = check_mesh(m, ref)
            ctx.case(("search", json.dumps([m["verts"], m["faces"]])), True)
            ctx.bump("search:" + base["construction"])
            ctx.bump("search-transform:" + ("+".join(kinds) or "identity"))
            ctx.bump(f"search-scale:{scale:g}")
            for clause, what in res:
                if clause in seen:
                    continue
                seen.add(clause)
                trig, m2, sc2, off2, ref2 = classify(base, t, scale, offset, clause)
                what2 = [w for c, w in check_mesh(m2, ref2) if c == clause]
                what3 = (what2 or [what])[0] + f" [{base['construction']}, {len(m2['faces'])} faces, vertex scale " \
                    f"{sc2:g}, vertex offset {'yes' if any(off2) else 'no'}]"
                ctx.impl_fail(f"{clause}/{trig}", what3,
                              {"kind": "mesh", "mesh": m2, "clause": clause, "scale": sc2, "offset": off2,
                               "ref": None if ref2 is None else [ref2[0], np.asarray(ref2[1]).tolist(),
                                                                 np.asarray(ref2[2]).tolist()]})


# =============================================================================== constructors x mode keywords
# every public way to build a TriangularMesh x the mode keywords: each keyword has exactly its documented effect
MODE_KEYS = ["reorient_faces", "check_open", "check_disconnected", "check_selfintersecting"]
MODE_VALUES = [True, False, "warn", "raise", "ignore", "skip"]        # a missing key = keyword omitted (default)
try:
    import pyvista as _pv
except Exception:   # pylint: disable=broad-except
    _pv = None
CONSTRUCTORS = ["init", "from_mesh", "from_triangles:list", "from_triangles:Collection", "from_ConvexHull"] + \
    (["from_pyvista"] if _pv is not None else [])


def norm_mode(kw, key):
    m = kw.get(key, "warn")            # every default (True / 'warn') means 'warn'
    return "warn" if m is True else "skip" if m is False else m


def build_with(constructor, mesh, kw):
    V = np.asarray(mesh["verts"], dtype=float)
    F = np.asarray(mesh["faces"], dtype=int)
    TM = magpy.magnet.TriangularMesh
    if constructor == "init":
        return TM(vertices=V, faces=F, polarization=POL, **kw)
    if constructor == "from_mesh":
        return TM.from_mesh(mesh=V[F], polarization=POL, **kw)
    if constructor.startswith("from_triangles"):
        trias = [magpy.misc.Triangle(vertices=t, polarization=POL) for t in V[F]]
        if constructor.endswith("Collection"):
            trias = magpy.Collection(*trias)
        return TM.from_triangles(triangles=trias, polarization=POL, **kw)
    if constructor == "from_ConvexHull":
        return TM.from_ConvexHull(points=V, polarization=POL, **kw)
    if constructor == "from_pyvista":
        poly = _pv.PolyData(V, np.hstack([np.full((len(F), 1), 3), F]).ravel())
        return TM.from_pyvista(polydata=poly, polarization=POL, **kw)
    raise ValueError(constructor)


WARN_KINDS = {"open": "Open mesh detected", "reorient-open": "can give bad results",
              "disconnected": "Disconnected mesh detected", "selfintersecting": "Self-intersecting mesh detected"}


def check_modes(constructor, mesh, kw):
    """-> list of (observable, what): deviations from the documented effect of the mode keywords.
    mesh carries the ground truth: closed / disconnected / selfint (None = do not judge)."""
    V = np.asarray(mesh["verts"], dtype=float)
    F = np.asarray(mesh["faces"], dtype=int)
    if constructor == "from_ConvexHull":
        F = np.asarray(ConvexHull(V).simplices, dtype=int)
        t_open, t_disc, t_self = False, False, False
    else:
        t_open = truth_open(F.tolist())
        t_disc = len(truth_components(F.tolist())) > 1
        t_self = truth_selfintersecting(mesh)
    T_in = V[F]
    mr, mo, md, ms = (norm_mode(kw, k) for k in MODE_KEYS)
    if t_self is None and ms != "skip":
        return []
    exp_raise = (mo == "raise" and t_open) or (md == "raise" and t_disc) or \
        (mr == "raise" and t_open) or (ms == "raise" and bool(t_self))
    with warnings.catch_warnings(record=True) as rec:
        warnings.simplefilter("always")
        try:
            src = build_with(constructor, mesh, kw)
            raised = None
        except ValueError as e:
            raised = e
        except Exception as e:   # pylint: disable=broad-except
            return [("exception", f"raised {type(e).__name__}: {e}")]
    out = []
    if exp_raise != (raised is not None):
        out.append(("raise", f"ValueError {'expected' if exp_raise else 'not expected'} "
                    f"(open={t_open} disconnected={t_disc} selfintersecting={t_self}) but "
                    f"{'raised: ' + str(raised)[:80] if raised is not None else 'none was raised'}"))
    if raised is not None or exp_raise:
        return out
    # status flags: computed (and right) iff the check is not skipped
    if mo != "skip":
        exp = [t_open]
    elif mr != "skip":
        exp = [t_open, None]          # reorient_faces documents that it applies check_open when it was skipped
    else:
        exp = [None]
    if not any(src.status_open is e if e is None else (src.status_open is not None and bool(src.status_open) == e)
               for e in exp):
        out.append(("status_open", f"status_open={src.status_open!r}, documented: {exp}"))
    for name, mode, truth, got in (("status_disconnected", md, t_disc, src.status_disconnected),
                                   ("status_selfintersecting", ms, t_self, src.status_selfintersecting)):
        if mode == "skip":
            if got is not None:
                out.append((name, f"{name}={got!r} although the check was skipped"))
        elif got is None or bool(got) != bool(truth):
            out.append((name, f"{name}={got!r}, ground truth {truth}"))
    if bool(src.status_reoriented) != (mr != "skip"):
        out.append(("status_reoriented", f"status_reoriented={src.status_reoriented} with reorient_faces={mr!r}"))
    # faces: the input triangles in the input order, reversed only by the reorientation
    R = np.asarray(src.mesh)
    if R.shape != T_in.shape:
        out.append(("faces", f"mesh has shape {R.shape}, input {T_in.shape}"))
    else:
        same = np.all(R == T_in, axis=(1, 2))
        flipped = np.all(R == T_in[:, [0, 2, 1]], axis=(1, 2))
        if not np.all(same | flipped):
            out.append(("faces", "a face is neither the input triangle nor its reversal"))
        elif mr == "skip":
            if not np.all(same):
                out.append(("faces", f"{int((~same).sum())} faces were reversed although reorient_faces was skipped"))
        elif not t_open and t_self is False:
            bad = components_outward(np.asarray(src.vertices), np.asarray(src.faces).tolist())
            if bad:
                out.append(("faces", "reorientation was requested but a component is not wound outwards "
                            f"({sum(map(len, bad))} faces)"))
    # warnings: present iff mode 'warn' and the condition holds
    msgs = [str(w.message) for w in rec]
    exp_w = {"open": t_open and (mo == "warn" or (mo == "skip" and mr == "warn")),
             "reorient-open": t_open and mr == "warn",
             "disconnected": t_disc and md == "warn",
             "selfintersecting": bool(t_self) and ms == "warn"}
    for kind, text in WARN_KINDS.items():
        got = any(text in m for m in msgs)
        if got != bool(exp_w[kind]):
            out.append(("warning-" + kind, f"warning '{text}...' {'missing' if exp_w[kind] else 'issued'} "
                        f"(modes reorient={mr} open={mo} disconnected={md} selfintersecting={ms}; "
                        f"open={t_open} disconnected={t_disc} selfintersecting={t_self})"))
    return out


def mode_bodies(rng):
    """small bodies on which every keyword has an observable effect: inward faces / open / disconnected /
    self-intersecting"""
    out = []
    for name, mk in (("closed-inward", lambda: gen_single(rng, rng.choice(["convex-hull", "tetrahedron"]))),
                     ("open", lambda: delete_faces(rng, gen_single(rng, rng.choice(["box", "prism", "convex-hull"])))),
                     ("disconnected", lambda: assemble(place_apart(rng, [PARTS[rng.choice(CONVEX_PARTS)](rng)
                                                                         for _ in range(2)]), "disjoint-union", False)),
                     ("selfintersecting", lambda: gen_spike(rng))):
        base = mk()
        nf, nv = len(base["faces"]), len(base["verts"])
        m = apply_transform(base, gen_transform(rng, nf, nv, ["perm", "flip", "rot"]))
        m["body"] = name
        out.append(m)
    return out


def kw_name(kw):
    return ",".join(f"{k}={kw[k]!r}" for k in MODE_KEYS if k in kw) or "defaults"


def mode_sweep(ctx, n_random, full_product):
    rng = ctx.rng
    bodies = mode_bodies(rng)
    combos = [{}] + [{k: v} for k in MODE_KEYS for v in MODE_VALUES]
    for _ in range(n_random):
        combos.append({k: rng.choice(MODE_VALUES) for k in MODE_KEYS if rng.random() < 0.75})
    for con in CONSTRUCTORS:
        cs = list(combos)
        if full_product and con in ("init", "from_mesh"):
            vals = [None] + MODE_VALUES
            cs = [{k: v for k, v in zip(MODE_KEYS, c) if v is not None}
                  for c in itertools.product(vals, repeat=len(MODE_KEYS))]
        for m in bodies:
            if con == "from_ConvexHull" and m["body"] != "closed-inward":
                continue
            for kw in cs:
                res = check_modes(con, m, kw)
                ctx.case(("modes", con, m["body"], kw_name(kw), json.dumps(m["faces"])), True)
                ctx.bump("modes:" + con)
                ctx.bump("modes-body:" + m["body"])
                for obs, what in res:
                    # smallest keyword set on which the same observable still deviates
                    small = kw
                    for k in range(0, len(kw)):
                        hit = [dict(c) for c in map(dict, itertools.combinations(kw.items(), k))
                               if any(o == obs for o, _ in check_modes(con, m, dict(c)))]
                        if hit:
                            small = hit[0]
                            break
                    what2 = [w for o, w in check_modes(con, m, small) if o == obs] or [what]
                    ctx.impl_fail(f"mode-keywords/{con}:{obs}:{kw_name(small)}",
                                  f"{con}({kw_name(small)}) on a {m['body']} mesh: {what2[0]}",
                                  {"kind": "modes", "constructor": con, "mesh": m, "kw": small, "observable": obs})


# =============================================================================== histories and input containers
SKIP_ALL = {"reorient_faces": "skip", "check_open": "skip", "check_disconnected": "skip",
            "check_selfintersecting": "skip"}
SCENARIOS = {
    "constructor-order": ["check_open", "check_disconnected", "reorient_faces", "check_selfintersecting"],
    "reorient-first": ["reorient_faces", "check_selfintersecting", "check_disconnected", "check_open"],
    "interleaved-getB": ["getB", "check_selfintersecting", "getB", "reorient_faces", "getB", "check_open",
                         "check_disconnected"],
    "repeated+rejected": ["check_open", "check_disconnected", "reorient_faces", "check_selfintersecting",
                          "reorient_faces", "check_open", "bogus-mode", "check_disconnected", "check_selfintersecting",
                          "bogus-mode", "reorient_faces"],
}


def outside_observers(mesh):
    V = np.asarray(mesh["verts"], dtype=float)
    lo, hi = V.min(axis=0), V.max(axis=0)
    size = float(np.max(hi - lo))
    c = (lo + hi) / 2
    return [(c + np.array(d) * size).tolist() for d in ((0.83, 0.41, 0.67), (-0.9, 0.75, -0.35), (0.1, -1.2, 0.2))]


def state_of(src, obs):
    return {"status_open": src.status_open, "status_disconnected": src.status_disconnected,
            "status_selfintersecting": src.status_selfintersecting, "status_reoriented": src.status_reoriented,
            "faces": np.asarray(src.faces).tolist(), "B": src.getB(obs), "H": src.getH(obs)}


def diff_states(got, want):
    out = []
    for k in ("status_open", "status_disconnected", "status_selfintersecting", "status_reoriented"):
        if got[k] is None or bool(got[k]) != bool(want[k]):
            out.append((k, f"{k}={got[k]!r}, fresh twin has {want[k]!r}"))
    if got["faces"] != want["faces"]:
        out.append(("faces", "faces differ from those of a fresh default-constructed twin"))
    elif not (field_close(got["B"], want["B"]) and field_close(got["H"], want["H"])):
        out.append(("field", "getB/getH differ from those of a fresh default-constructed twin"))
    return out


def check_history(mesh, scenario, rng_modes):
    """TriangularMesh built with every check skipped, then the public methods called by hand in the scenario's
    order (modes from rng_modes; 'bogus-mode' = a call that must be rejected): the object must end up like a
    fresh default-constructed twin.  -> list of (observable, what)"""
    obs = outside_observers(mesh)
    with warnings.catch_warnings():
        warnings.simplefilter("ignore")
        want = state_of(make_mesh(mesh), obs)
        src = make_mesh(mesh, **SKIP_ALL)
        it = iter(rng_modes)
        for step in SCENARIOS[scenario]:
            if step == "getB":
                src.getB(obs)
            elif step == "bogus-mode":
                before = state_of(src, obs)
                try:
                    src.reorient_faces(mode="sometimes")
                    return [("rejects", "reorient_faces(mode='sometimes') was accepted")]
                except ValueError:
                    pass
                d = diff_states(state_of(src, obs), before)
                if d:
                    return [("rejected-unchanged", "a rejected call changed the object: " + d[0][1])]
            else:
                r = getattr(src, step)(mode=next(it))
                if step != "reorient_faces" and (r is None or bool(r) != bool(want["status_" + step[6:]])):
                    return [(step, f"{step}() returned {r!r}, fresh twin has {want['status_' + step[6:]]!r}")]
        return diff_states(state_of(src, obs), want)


def container_variants(mesh):
    V, F = np.asarray(mesh["verts"], dtype=float), np.asarray(mesh["faces"], dtype=int)
    return {"lists": (V.tolist(), F.tolist()), "tuples": (tuple(map(tuple, V.tolist())), tuple(map(tuple, F.tolist()))),
            "float64+int32": (V.copy(), F.astype(np.int32)), "float64+int64": (V.copy(), F.astype(np.int64)),
            "float64+float-faces": (V.copy(), F.astype(float)),
            "fortran-order": (np.asfortranarray(V), np.asfortranarray(F))}


def check_containers(mesh):
    obs = outside_observers(mesh)
    out = []
    with warnings.catch_warnings():
        warnings.simplefilter("ignore")
        want = state_of(make_mesh(mesh), obs)
        for name, (v, f) in container_variants(mesh).items():
            v0 = np.array(v, dtype=float).copy()
            f0 = np.array(f).copy()
            try:
                src = magpy.magnet.TriangularMesh(vertices=v, faces=f, polarization=mesh.get("pol", POL))
            except Exception as e:   # pylint: disable=broad-except
                out.append((name + ":constructor", f"{type(e).__name__}: {e}"))
                continue
            for o, w in diff_states(state_of(src, obs), want):
                out.append((name + ":" + o, w))
            if not (np.array_equal(np.array(v, dtype=float), v0) and np.array_equal(np.array(f), f0)):
                out.append((name + ":caller-arrays", "construction / reorientation modified the caller's arrays"))
    return out


def history_sweep(ctx, rounds):
    rng = ctx.rng
    for _ in range(rounds):
        for m in mode_bodies(rng):
            for sc in SCENARIOS:
                if sc == "repeated+rejected" and m["body"] in ("open", "selfintersecting"):
                    continue      # a second reorientation is only known to change nothing on a valid closed body
                modes = [rng.choice(["ignore", "warn", True]) for _ in range(12)]
                res = check_history(m, sc, modes)
                ctx.case(("history", sc, m["body"], json.dumps(m["faces"])), True)
                ctx.bump("history:" + sc)
                for obs, what in res:
                    ctx.impl_fail(f"history/{sc}:{obs}", f"{sc} on a {m['body']} mesh: {what}",
                                  {"kind": "history", "mesh": m, "scenario": sc, "modes": modes})
            for obs, what in check_containers(m):
                ctx.impl_fail(f"input-container/{obs}", f"{m['body']} mesh: {what}", {"kind": "containers", "mesh": m})
            ctx.case(("containers", m["body"], json.dumps(m["faces"])), True)
            ctx.bump("containers")


# =============================================================================== correspondence
CASES_HEADER = """From Coq Require Import NArith ZArith List Bool.
From MV Require Import Model.MeshModel Model.MeshExec.
Import ListNotations. Open Scope N_scope.
"""


def c_face(f):
    return "(%d, %d, %d)" % tuple(int(x) for x in f)


def c_list(items):
    return "[" + "; ".join(items) + "]"


def c_bool(b):
    return "true" if b else "false"


def scripted_bit(triple, salt):
    """scripted seed test: a fixed pseudo-random function of the seed face's vertex ids"""
    a, b, c = (int(x) for x in triple)
    return ((a * 7349 + b * 1931 + c * 577 + salt) * 2654435761 >> 7) % 2 == 1


def impl_index_run(faces, verts=None, script=None):
    """run the three index-level functions of /repo on one face list.
    verts given  -> the real is_facet_inwards decides the seeds (its results are recorded per seed face)
    script given -> is_facet_inwards is replaced by scripted_bit(seed face, script) (pure index-level run; the
                    vertices get distinct dummy coordinates so that the seed face can be identified)"""
    farr = np.array(faces, dtype=int).reshape(-1, 3)
    open_edges = tm.get_open_edges(farr)
    subsets = tm.get_disconnected_faces_subsets(farr)
    calls, bits = [], []
    orig = tm.is_facet_inwards

    def wrapper(face, fcs):
        # which face is the seed: the code passes msh[seed] and (now) the whole mesh in face order
        hit = [k for k in range(len(fcs)) if np.array_equal(fcs[k], face, equal_nan=True)] if len(fcs) == len(farr) else []
        triple = tuple(int(x) for x in farr[hit[0]]) if hit else (-1, -1, -1)
        b = bool(orig(face, fcs)) if script is None else scripted_bit(triple, script)
        calls.append((triple, len(fcs)))
        bits.append((triple, b))
        return b
    tm.is_facet_inwards = wrapper
    try:
        nvv = int(farr.max()) + 1 if len(farr) else 1
        v = np.array(verts, dtype=float) if verts is not None else \
            np.array([(k, k * k, k ** 3) for k in range(nvv)], dtype=float)
        mask = tm.get_inwards_mask(v, farr)
        fixed = tm.fix_trimesh_orientation(v, farr) if script is None else None
    finally:
        tm.is_facet_inwards = orig
    if fixed is None:
        fixed = farr.copy()
        fixed[mask] = fixed[mask][:, [0, 2, 1]]
    else:
        # fix_trimesh_orientation ran the seeds a second time: same results expected
        half = len(bits) // 2
        if bits[:half] != bits[half:] or calls[:half] != calls[half:]:
            raise RuntimeError("is_facet_inwards not deterministic")
        bits, calls = bits[:half], calls[:half]
    # the class level: flags as set by check_open / check_disconnected, faces as left by reorient_faces
    src = magpy.magnet.TriangularMesh(vertices=v, faces=farr, polarization=POL, reorient_faces="skip",
                                      check_selfintersecting="skip")
    st_open, st_disc = src.status_open, src.status_disconnected
    if not (isinstance(st_open, (bool, np.bool_)) and isinstance(st_disc, (bool, np.bool_))):
        raise RuntimeError(f"status flags are not booleans: {st_open!r} {st_disc!r}")
    if script is None:
        src2 = magpy.magnet.TriangularMesh(vertices=v, faces=farr, polarization=POL, check_selfintersecting="skip")
        if bool(src2.status_open) != bool(st_open) or bool(src2.status_disconnected) != bool(st_disc):
            raise RuntimeError("status flags depend on the reorientation mode")
        if not np.array_equal(np.asarray(src2.faces), np.asarray(fixed)):
            raise RuntimeError("TriangularMesh.faces differs from fix_trimesh_orientation(vertices, faces)")
        if not np.array_equal(np.asarray(src2.status_open_data).reshape(-1, 2), np.asarray(open_edges).reshape(-1, 2)):
            raise RuntimeError("status_open_data differs from get_open_edges(faces)")
        fixed = np.asarray(src2.faces)
    if len({t for t, _ in bits}) != len(dict(bits)) or any(dict(bits)[t] != b for t, b in bits):
        raise RuntimeError("is_facet_inwards gave two answers for the same seed face")
    return {"faces": farr.tolist(), "open": np.asarray(open_edges).tolist(),
            "subsets": [np.asarray(s).tolist() for s in subsets], "oracle": list(dict(bits).items()), "calls": calls,
            "mask": [bool(x) for x in mask], "fixed": np.asarray(fixed).tolist(),
            "st_open": bool(st_open), "st_disc": bool(st_disc), "script": script}


def c_case(r):
    return "(mkMC %s %s %s %s %s %s %s %s %s)" % (
        c_list([c_face(f) for f in r["faces"]]),
        c_list(["(%d, %d)" % (e[0], e[1]) for e in r["open"]]),
        c_list([c_list([c_face(f) for f in s]) for s in r["subsets"]]),
        c_list(["(%s, %s)" % (c_face(t), c_bool(b)) for t, b in r["oracle"]]),
        c_list(["(%s, %d%%nat)" % (c_face(t), k) for t, k in r["calls"]]),
        c_list([c_bool(b) for b in r["mask"]]),
        c_list([c_face(f) for f in r["fixed"]]), c_bool(r["st_open"]), c_bool(r["st_disc"]))


def model_check(ctx, tag, runs, chunk=250):
    """-> {case index: failure code} of the cases on which the Coq model disagrees, or None"""
    bad = {}
    for ci in range(0, len(runs), chunk):
        part = runs[ci:ci + chunk]
        txt = CASES_HEADER + "Definition cases : list mcase :=\n" + \
            c_list([c_case(r) for r in part]).replace("; (mkMC", ";\n (mkMC") + \
            ".\nEval vm_compute in (failing cases).\n"
        ok, out = ctx.coq_eval(f"c16_{tag}_{ci}", txt)
        res = parse_z_list(out) if ok else None
        if res is None or len(res) % 2:
            ctx.add_broken("broken-correspondence", f"c16_{tag}_{ci}", "model evaluation failed:\n" + out[-1500:])
            return None
        for i, code in zip(res[::2], res[1::2]):
            bad[ci + i] = code
    return bad


def gen_abstract_faces(rng):
    """arbitrary index triples: non-manifold, duplicated and degenerate faces included"""
    nv = rng.randint(3, 9)
    nf = rng.randint(1, 10)
    x = rng.random()
    faces = []
    for _ in range(nf):
        if x < 0.2:
            faces.append([rng.randrange(nv) for _ in range(3)])          # may be degenerate
        else:
            faces.append(rng.sample(range(nv), 3))
    if rng.random() < 0.2 and faces:
        faces.append(list(rng.choice(faces)))
    if rng.random() < 0.3:                                                 # sparse numbering
        ren = rng.sample(range(40), nv)
        faces = [[ren[v] for v in f] for f in faces]
    return faces


def exhaustive_abstract(nv, max_faces):
    triples = list(itertools.product(range(nv), repeat=3))
    out = []
    for k in range(1, max_faces + 1):
        out += [list(map(list, c)) for c in itertools.product(triples, repeat=k)]
    return out


CODE_NAMES = {1: "get_open_edges", 2: "get_disconnected_faces_subsets", 4: "is_facet_inwards calls",
              8: "get_inwards_mask", 16: "fix_trimesh_orientation / TriangularMesh.faces",
              32: "TriangularMesh.status_open", 64: "TriangularMesh.status_disconnected"}


def correspondence(ctx, built):
    rng = ctx.rng
    runs, metas = [], []

    def add(faces, verts=None, script=None, label=""):
        try:
            r = impl_index_run(faces, verts, script)
        except StopIteration:
            ctx.add_broken("broken-correspondence", "scripted oracle exhausted", json.dumps(faces))
            return
        runs.append(r)
        metas.append(label)
        ctx.case(("corr", json.dumps([r["faces"], r["oracle"]])), len(r["faces"]) > 1)
        ctx.bump("corr:" + label)

    # (a) geometric bodies and their derived meshes, real seed test
    for _ in range(ctx.n(140, 3000)):
        base = gen_base(rng)
        if len(base["faces"]) > 70:
            continue
        nf, nv = len(base["faces"]), len(base["verts"])
        kinds = [k for k in TKINDS if rng.random() < 0.6]
        m = apply_transform(base, gen_transform(rng, nf, nv, kinds))
        add(m["faces"], verts=m["verts"], label=base["construction"])
    # (b) arbitrary index triples, scripted seed bits
    abstract = [gen_abstract_faces(rng) for _ in range(ctx.n(500, 6000))]
    abstract += exhaustive_abstract(3, 2) if ctx.tier == "quick" else exhaustive_abstract(4, 2)
    for faces in abstract:
        add(faces, script=rng.randrange(1 << 20), label="abstract")
    if runs:
        ctx.samples.append({"correspondence_case": runs[0]})
    if not built:
        return
    bad = model_check(ctx, f"{ctx.tier}_s{ctx.seed}", runs)
    if bad is None:
        return
    ctx.count("traces_validated_against_impl", len(runs) - len(bad))
    for bi, code in list(bad.items())[:4]:
        r = runs[bi]
        names = [n for b, n in CODE_NAMES.items() if code & b]
        script = r["script"] if r.get("script") is not None else 12345

        def fails(faces, script=script):
            if not faces:
                return False
            try:
                rr = impl_index_run(faces, script=script)
                b = model_check(ctx, f"shrink_s{ctx.seed}", [rr])
            except Exception:   # pylint: disable=broad-except
                return False
            return bool(b)
        small = shrink_list(r["faces"], fails, max_steps=25) if fails(r["faces"]) else r["faces"]
        ctx.add_broken("broken-correspondence", "MeshModel vs implementation: " + ", ".join(names),
                       json.dumps({"faces": small, "oracle": r["oracle"], "label": metas[bi]}))


# =============================================================================== main
def run(ctx):
    ctx.extra["rule"] = ("correspondence: one face list (geometric body under face permutation / flips / cyclic "
                         "winding / vertex renumbering / face deletion / duplicated or interpenetrating parts, or an "
                         "arbitrary list of index triples) run through get_open_edges, "
                         "get_disconnected_faces_subsets, get_inwards_mask, fix_trimesh_orientation of /repo and "
                         "through the Coq model, outputs compared exactly incl. order; search: one TriangularMesh "
                         "constructed through the public API and checked against independent ground truth; "
                         "distinct by canonical JSON of the input, non-trivial if it has more than one face")
    ctx.trusted += [
        "hand model coq/Model/MeshModel.v of get_open_edges / get_disconnected_faces_subsets / "
        "get_inwards_mask / fix_trimesh_orientation, tied by the exact correspondence of this run "
        "(np.sort, np.unique(axis=0, return_counts), np.isin(...).all, Python set algebra are modelled by their "
        "documented meaning)",
        "the geometric seed test is_facet_inwards / mask_inside_trimesh / lines_end_in_trimesh (floating-point ray "
        "casting) and get_intersecting_triangles / segments_intersect_facets (float32 KD-tree search with "
        "tolerances) are NOT modelled: the seed test enters the model as an oracle bit per call; both are only "
        "searched against ground truth known by construction",
        "ground truth of the search: edge counting, union-find on shared vertices, outward winding known from the "
        "construction (star-shaped bodies: normal vs centre; torus: signed volume), field of the truth-wound body "
        "computed with all checks and the reorientation skipped",
    ]
    ctx.partial += ["C16_seed_bit_determines_partial"]
    ctx.regen(["GenMesh"])       # AST fingerprints of the mesh functions (fail closed), checked in Props/C16.v
    built = ctx.build_props()
    if ctx.tier == "thorough" and built:
        with Lock():     # a concurrent run of this check rebuilds Props/C16.vo under the same lock
            ctx.coqchk("MV.Props.C16")
    # the executable model does not depend on any proof: it is (re)built on its own so that the correspondence
    # still runs when a proof broke
    with Lock():
        ensure_makefile()
        rc, out = sh("make Model/MeshExec.vo", 600, cwd=COQ)
    if rc != 0:
        ctx.add_broken("broken-correspondence", "Model/MeshExec.vo does not build", out[-1500:])
    run_guarded(ctx, lambda: correspondence(ctx, rc == 0), "C16 correspondence")
    big = bool(ctx.broken)
    nb = ctx.n(60, 1200) * (5 if big else 1)
    ctx.log("correspondence done")
    run_guarded(ctx, lambda: search(ctx, nb, ctx.n(6, 9)), "C16 search")
    ctx.log("search done")
    run_guarded(ctx, lambda: mode_sweep(ctx, ctx.n(40, 400) * (3 if big else 1), ctx.tier == "thorough"),
                "C16 constructors x mode keywords")
    run_guarded(ctx, lambda: history_sweep(ctx, ctx.n(2, 20)), "C16 histories and input containers")


def replay(ctx, obj):
    rp = obj.get("replay", obj)
    if rp.get("kind") == "mesh":
        ref = rp.get("ref")
        ref = None if ref is None else (ref[0], np.array(ref[1]), np.array(ref[2]))
        res = check_mesh(rp["mesh"], ref)
        hit = [w for c, w in res if c == rp.get("clause")] or [w for _, w in res]
        print("replay:", "property holds on this mesh" if not res else "FAILS: " + "; ".join(hit))
        if res:
            print(f"VIOLATION property=C16 replay={obj.get('how_to_rerun', '').split()[-1] or 'given'}")
        return 1 if res else 0
    if rp.get("kind") in ("history", "containers"):
        res = check_history(rp["mesh"], rp["scenario"], rp["modes"]) if rp["kind"] == "history" else \
            check_containers(rp["mesh"])
        print("replay:", "holds" if not res else "FAILS: " + "; ".join(w for _, w in res))
        if res:
            print(f"VIOLATION property=C16 replay={obj.get('how_to_rerun', '').split()[-1] or 'given'}")
        return 1 if res else 0
    if rp.get("kind") == "modes":
        res = [(o, w) for o, w in check_modes(rp["constructor"], rp["mesh"], rp["kw"]) if o == rp.get("observable")]
        print("replay:", "documented keyword behaviour holds" if not res else "FAILS: " + "; ".join(w for _, w in res))
        if res:
            print(f"VIOLATION property=C16 replay={obj.get('how_to_rerun', '').split()[-1] or 'given'}")
        return 1 if res else 0
    print(json.dumps(obj, indent=1)[:3000])
    return 0
