"""C08 -- field computation never changes objects or inputs, even when it fails; calling again
gives the identical result.

Stages: regen GenL2Flow (shape of getBH_level2 + statement list of _getBH_level2, fail closed) ->
build Props/C08.v -> correspondence (the Coq state-transformer model, run with vm_compute on the
translated program, against the implementation on the same scenes / fault schedules: outcome class,
final paths, and for every field-function invocation its id, row count and the path lengths of all
objects at that moment; plus exceptions injected at statement boundaries and inside the tiling /
reset loops with sys.settrace) -> search (real classes, deep bit-exact snapshots, caller arrays,
repeat call) -> verdict."""
import copy
import functools
import json
import sys

import numpy as np
from scipy.spatial.transform import Rotation as R

from harness.common import run_guarded, REPO, COQ, Lock, sh
from harness import octa
from harness.shrink import shrink_list

import magpylib as magpy
from magpylib._src.exceptions import MagpylibBadUserInput, MagpylibMissingInput
from magpylib._src.fields import field_wrap_BH as W


class FaultError(Exception):
    """raised by a faulty field function"""


class Injected(Exception):
    """raised by the line tracer at a crash point"""


def exc_code(e):
    if e is None:
        return 0
    for cls, code in ((MagpylibBadUserInput, 1), (MagpylibMissingInput, 2), (FaultError, 6), (Injected, 7),
                      (AttributeError, 3), (TypeError, 4), (ValueError, 5)):
        if isinstance(e, cls):
            return code
    return 99


CODE_NAME = {0: "returns", 1: "MagpylibBadUserInput", 2: "MagpylibMissingInput", 3: "AttributeError",
             4: "TypeError", 5: "ValueError", 6: "FaultError", 7: "Injected", 99: "other"}


# ====================================================================== fault schedule shared by all field functions
class S:
    armed = False
    idx = 0
    tab = []
    trace = []
    objs = []


def on_invoke(key, observers):
    if not S.armed:
        return "ok"
    i = S.idx
    S.idx += 1
    S.trace.append([key, int(len(observers)), [len(o._position) for o in S.objs],
                    [len(o._orientation) for o in S.objs]])
    return S.tab[i] if i < len(S.tab) else "ok"


def act(b, n, ok):
    if b == "raise":
        raise FaultError("fault")
    if b == "none":
        return None
    if b == "wrong":
        return np.zeros((n + 1, 3))
    return ok()


def make_custom(k):
    def custom(field, observers):  # pylint: disable=unused-argument
        obs = np.asarray(observers, dtype=float)
        return act(on_invoke(k, obs), len(obs), lambda: obs * 1.0 + k)
    return custom


FUNCS = {k: make_custom(k) for k in range(4)}


def wrap_real(key, orig):
    @functools.wraps(orig)
    def wrapped(*args, **kwargs):
        obs = kwargs["observers"] if "observers" in kwargs else args[1]
        return act(on_invoke(key, obs), len(obs), lambda: orig(*args, **kwargs))
    return wrapped


def _pclass(base, key):
    return type("P" + base.__name__, (base,), {"_field_func": staticmethod(wrap_real(key, base._field_func))})


PCLS = {"Cuboid": (10, magpy.magnet.Cuboid), "Sphere": (11, magpy.magnet.Sphere),
        "Circle": (12, magpy.current.Circle), "Dipole": (13, magpy.misc.Dipole)}
PCLASSES = {name: _pclass(base, key) for name, (key, base) in PCLS.items()}
PKEY = {name: key for name, (key, _) in PCLS.items()}


# ====================================================================== correspondence: scenes
def g_path(rng):
    n = rng.choice([1, 1, 1, 2, 2, 3, 4])
    return ([[rng.randint(-3, 3) for _ in range(3)] for _ in range(n)],
            [rng.randrange(24) if rng.random() < 0.6 else octa.IDENT for _ in range(n)])


def g_leaf(rng):
    pos, ori = g_path(rng)
    if rng.random() < 0.6:
        return {"kind": "custom", "func": None if rng.random() < 0.1 else rng.randrange(4), "pos": pos, "ori": ori}
    cls = rng.choice(list(PCLS))
    return {"kind": "real", "cls": cls, "dim": rng.random() > 0.1, "exc": rng.random() > 0.1, "pos": pos, "ori": ori}


PIX = [None, [3], [2, 3], [2, 2, 3], [1, 3], [3, 3]]


def g_sensor(rng, shape="rand"):
    pos, ori = g_path(rng)
    if shape == "rand":
        shape = rng.choice(PIX)
    return {"kind": "sensor", "shape": shape, "pos": pos, "ori": ori, "left": rng.random() < 0.2}


def g_case(rng):
    nl, ns = rng.randint(1, 4), rng.randint(1, 3)
    shape0 = rng.choice(PIX)
    mixed = rng.random() < 0.15
    objs = [g_leaf(rng) for _ in range(nl)] + [g_sensor(rng, "rand" if mixed else shape0) for _ in range(ns)]
    leaves, sens = list(range(nl)), list(range(nl, nl + ns))
    # sources (a child can only have one parent: every object goes into at most one collection)
    sources = []
    taken = set()
    if rng.random() >= 0.03:
        for _ in range(rng.randint(1, 3)):
            y = rng.random()
            if y < 0.6:
                sources.append({"bare": rng.choice(leaves)})
            elif y < 0.97:
                kids = [k for k in dict.fromkeys(rng.choice(leaves) for _ in range(rng.randint(1, 3)))
                        if k not in taken]
                if rng.random() < 0.3:
                    kids.append(rng.choice(sens))          # a sensor inside a source collection is ignored
                kids = [k for k in kids if k not in taken]
                if not any(k in leaves for k in kids) and rng.random() < 0.93:
                    sources.append({"bare": rng.choice(leaves)})
                    continue
                taken.update(kids)
                sources.append({"coll": kids, "nest": rng.choice([0, 0, 1, 2])})
            else:
                sources.append({"bad": rng.choice(["sensor", "int", "emptycoll"])})
    # observers
    z = rng.random()
    if z < 0.03:
        observers = {"kind": "bad", "what": rng.choice(["none", "empty", "int"])}
    elif z < 0.2:
        observers = {"kind": "arr", "shape": rng.choice([[3], [2, 3], [2, 2, 3], [1, 3]])}
    else:
        ent = []
        for _ in range(rng.randint(1, 3)):
            y = rng.random()
            if y < 0.7:
                ent.append({"sens": rng.choice(sens)})
            elif y < 0.88:
                kids = [k for k in dict.fromkeys(rng.choice(sens) for _ in range(rng.randint(1, 2))) if k not in taken]
                if rng.random() < 0.3:
                    kids += [k for k in [rng.choice(leaves)] if k not in taken]
                if not any(k in sens for k in kids) and rng.random() < 0.93:
                    ent.append({"sens": rng.choice(sens)})
                    continue
                taken.update(kids)
                ent.append({"coll": kids, "nest": rng.choice([0, 0, 1, 2])})
            elif y < 0.98:
                ent.append({"vec": shape0 if (shape0 is not None and len(shape0) <= 2 and rng.random() < 0.7)
                            else rng.choice([[3], [2, 3]])})
            else:
                ent.append({"badent": "str"})
        if not any("sens" in e or "coll" in e for e in ent):
            ent.insert(0, {"sens": rng.choice(sens)})
        observers = {"kind": "list", "entries": ent}
    agg = rng.choices([None, "mean", "max", "std", "ptp", "var", "bogus", "reshape", "argmax", "cumsum", "negative",
                       "squeeze", "array"], [50, 8, 5, 4, 3, 3, 4, 4, 10, 3, 2, 2, 2])[0]
    output = rng.choices(["ndarray", "dataframe", "bogus"], [80, 10, 10])[0]
    tab = ["ok"] * 6
    if rng.random() < 0.45:
        tab[rng.choice([0, 0, 1, 1, 2, 3])] = rng.choice(["raise", "none", "wrong"])
    case = {"objs": objs, "sources": sources, "observers": observers, "pixel_agg": agg, "output": output,
            "kwargs": rng.random() < 0.03, "dict": None, "in_out": rng.choice(["auto", "auto", "inside", "bogus"]),
            "sumup": rng.random() < 0.3, "squeeze": rng.random() < 0.5, "field": rng.choice("BHJM"),
            "tab": tab, "ncalls": 2, "fault": None}
    if rng.random() < 0.04:
        case["dict"] = rng.choice(["Cuboid", "Kuboid"])
    return case


def corner_cases():
    """smallest scenes for every fault kind (always run)"""
    out = []
    for fault in ["raise", "none", "wrong", "nofunc", "dim", "exc", "bogusagg", "cumsum", "squeeze", "argmax", "reshape", "bogusout",
                  "dataframe", "shapes", "kwargs", "nosrc", "dup", "ok"]:
        leaf = {"kind": "custom", "func": 1, "pos": [[1, 2, 3]], "ori": [3]}
        if fault == "nofunc":
            leaf["func"] = None
        if fault in ("dim", "exc"):
            leaf = {"kind": "real", "cls": "Cuboid", "dim": fault != "dim", "exc": fault != "exc",
                    "pos": [[1, 2, 3]], "ori": [3]}
        sens = {"kind": "sensor", "shape": [2, 3], "pos": [[0, 0, 1], [0, 0, 2], [0, 1, 3]], "ori": [0, 5, 7],
                "left": False}
        sens2 = {"kind": "sensor", "shape": [3] if fault == "shapes" else [2, 3], "pos": [[0, 0, 1], [0, 0, 2]],
                 "ori": [0, 5], "left": True}
        case = {"objs": [leaf, sens, sens2], "sources": [{"bare": 0}] + ([{"bare": 0}] if fault == "dup" else []),
                "observers": {"kind": "list", "entries": [{"sens": 1}, {"sens": 2}]},
                "pixel_agg": {"bogusagg": "bogus", "argmax": "argmax", "reshape": "reshape", "cumsum": "cumsum",
                              "squeeze": "squeeze"}.get(fault),
                "output": {"bogusout": "bogus", "dataframe": "dataframe"}.get(fault, "ndarray"),
                "kwargs": fault == "kwargs", "dict": None, "in_out": "auto", "sumup": False, "squeeze": True,
                "field": "B", "tab": [fault if fault in ("raise", "none", "wrong") else "ok"], "ncalls": 2,
                "fault": None}
        if fault == "nosrc":
            case["sources"] = []
        out.append(case)
    return out


# ---------------------------------------------------------------------- build + run on the implementation
def build_obj(o):
    rot = octa.rot(o["ori"])
    if o["kind"] == "custom":
        return magpy.misc.CustomSource(field_func=None if o["func"] is None else FUNCS[o["func"]],
                                       position=o["pos"], orientation=rot)
    if o["kind"] == "real":
        cls = PCLASSES[o["cls"]]
        kw = {"position": o["pos"], "orientation": rot}
        if o["cls"] == "Cuboid":
            return cls(dimension=(1, 2, 3) if o["dim"] else None, polarization=(0.1, 0.2, 0.3) if o["exc"] else None, **kw)
        if o["cls"] == "Sphere":
            return cls(diameter=1.5 if o["dim"] else None, polarization=(0.1, 0.2, 0.3) if o["exc"] else None, **kw)
        if o["cls"] == "Circle":
            return cls(diameter=1.5 if o["dim"] else None, current=2.0 if o["exc"] else None, **kw)
        return cls(moment=(1, 2, 3) if o["exc"] else None, **kw)
    pixel = None
    if o["shape"] is not None:
        n = int(np.prod(o["shape"]))
        pixel = (np.arange(n).reshape(o["shape"]) % 5 - 2).tolist()
    return magpy.Sensor(position=o["pos"], orientation=rot, pixel=pixel, handedness="left" if o["left"] else "right")


def vec_of(shape):
    n = int(np.prod(shape))
    return ((np.arange(n).reshape(shape) % 7) - 3 + 0.0).tolist()


def _nested(kids, depth):
    """Collection of kids wrapped `depth` times; the first half of the kids one level deeper (same DFS order)"""
    if depth and len(kids) > 1:
        h = len(kids) // 2
        col = magpy.Collection(magpy.Collection(*kids[:h]), *kids[h:])
        depth -= 1
    else:
        col = magpy.Collection(*kids)
    for _ in range(depth):
        col = magpy.Collection(col)
    return col


def build_call(case):
    objs = [build_obj(o) for o in case["objs"]]
    srcs = []
    for s in case["sources"]:
        if "bare" in s:
            srcs.append(objs[s["bare"]])
        elif "coll" in s:
            srcs.append(_nested([objs[k] for k in s["coll"]], s.get("nest", 0)))
        else:
            srcs.append({"sensor": magpy.Sensor(), "int": 5, "emptycoll": magpy.Collection()}[s["bad"]])
    ob = case["observers"]
    if ob["kind"] == "bad":
        observers = {"none": None, "empty": [], "int": 7}[ob["what"]]
    elif ob["kind"] == "arr":
        observers = vec_of(ob["shape"])
    else:
        observers = []
        for e in ob["entries"]:
            if "sens" in e:
                observers.append(objs[e["sens"]])
            elif "coll" in e:
                observers.append(_nested([objs[k] for k in e["coll"]], e.get("nest", 0)))
            elif "vec" in e:
                observers.append(vec_of(e["vec"]))
            else:
                observers.append("x")
    return objs, srcs, observers


def snapshot_paths(objs):
    out = []
    for o in objs:
        mats = o._orientation.as_matrix()
        if mats.ndim == 2:
            mats = mats[None]
        out.append([octa.ints(o._position), [octa.rot_index(m) for m in mats]])
    return out


class Tracer:
    """raise Injected at the nth `line` event of the body function within [lo, hi]"""

    def __init__(self, code, lo, hi, nth):
        self.code, self.lo, self.hi, self.nth = code, lo, hi, nth
        self.n, self.fired = 0, None

    def local(self, frame, event, arg):  # pylint: disable=unused-argument
        if event == "line" and self.fired is None and self.lo <= frame.f_lineno <= self.hi:
            if self.n == self.nth:
                self.fired = frame.f_lineno
                raise Injected(f"line {frame.f_lineno}")
            self.n += 1
        return self.local

    def glob(self, frame, event, arg):  # pylint: disable=unused-argument
        return self.local if frame.f_code is self.code else None


def call_impl(case, srcs, observers, tracer=None):
    fn = {"B": magpy.getB, "H": magpy.getH, "J": magpy.getJ, "M": magpy.getM}[case["field"]]
    kw = {"sumup": case["sumup"], "squeeze": case["squeeze"], "pixel_agg": case["pixel_agg"],
          "output": case["output"], "in_out": case["in_out"]}
    if case["kwargs"]:
        kw["dimension"] = (1, 1, 1)
    if case["dict"]:
        args = (case["dict"], [[1.0, 2.0, 3.0]])
        kw = {"dimension": (1, 1, 1), "polarization": (0, 0, 1)}
    else:
        args = (srcs, observers)
    S.trace = []
    S.armed = True
    if tracer is not None:
        sys.settrace(tracer.glob)
    try:
        try:
            val = fn(*args, **kw)
            exc = None
        except Exception as e:  # pylint: disable=broad-except
            val, exc = None, e
    finally:
        sys.settrace(None)
        S.armed = False
    return val, exc, S.trace


def impl_run(case, flow):
    """-> (observations per call, fault actually applied)"""
    objs, srcs, observers = build_call(case)
    S.objs, S.idx, S.tab = objs, 0, case["tab"]
    tracer = None
    if case["fault"] is not None:
        lo, hi = flow["lines"][case["fault"]["pc"]]
        tracer = Tracer(getattr(W, flow["body"]).__code__, lo, hi, case["fault"]["nth"])
    obs, vals = [], []
    for _ in range(case["ncalls"]):
        val, exc, trace = call_impl(case, srcs, observers, tracer)
        obs.append({"out": exc_code(exc), "exc": None if exc is None else f"{type(exc).__name__}: {exc}"[:160],
                    "store": snapshot_paths(objs), "trace": trace})
        vals.append(val)
    fired = tracer is not None and tracer.fired is not None
    return obs, fired, vals


# ---------------------------------------------------------------------- Coq text
def zc(n):
    return f"({int(n)})%Z"


def cvz(v):
    return "(" + ", ".join(zc(x) for x in v) + ")"


def cl(items):
    return "[" + "; ".join(items) + "]"


def cnl(l):
    return cl([str(int(x)) for x in l])


def c_obj(o):
    if o["kind"] == "custom":
        attr = "(mkAttr %s true true [1; 3])" % ("None" if o["func"] is None else f"(Some {o['func']})")
    elif o["kind"] == "real":
        dim = "true" if (o["dim"] or o["cls"] == "Dipole") else "false"
        attr = "(mkAttr (Some %d) %s %s [1; 3])" % (PKEY[o["cls"]], dim, "true" if o["exc"] else "false")
    else:
        attr = "(mkAttr None true true %s)" % cnl([1, 3] if o["shape"] is None else o["shape"])
    return "(mkX %s %s %s)" % (cl([cvz(p) for p in o["pos"]]), cl([zc(i) for i in o["ori"]]), attr)


def flat_kids(case, kids, want):
    return [k for k in kids if (case["objs"][k]["kind"] == "sensor") == (want == "sensor")]


def c_call(case):
    if case["dict"]:
        d = "(Some None)" if case["dict"] == "Cuboid" else "(Some (Some EBadInput))"
    else:
        d = "None"
    srcs = []
    for s in case["sources"]:
        if "bare" in s:
            srcs.append(f"SBare {s['bare']}")
        elif "coll" in s:
            srcs.append("SColl " + cnl(flat_kids(case, s["coll"], "source")))
        else:
            srcs.append("SColl []" if s["bad"] == "emptycoll" else "SBad")
    ob = case["observers"]
    if ob["kind"] == "bad":
        o = "OBad"
    elif ob["kind"] == "arr":
        o = "(OArr %s)" % cnl(ob["shape"])
    else:
        ent = []
        for e in ob["entries"]:
            if "sens" in e:
                ent.append(f"OSens {e['sens']}")
            elif "coll" in e:
                ent.append("OColl " + cnl(flat_kids(case, e["coll"], "sensor")))
            elif "vec" in e:
                ent.append("OVec " + cnl(e["vec"]))
            else:
                ent.append("OBadEnt")
        o = "(OList %s)" % cl(ent)
    agg = {None: "PNone", "mean": "PValid", "max": "PValid", "std": "PValid", "ptp": "PValid", "var": "PValid", "cumsum": "PBadName", "negative": "PBadName", "squeeze": "PBadName",
           "array": "PBadName", "bogus": "PBadName", "reshape": "PCheckRaises",
           "argmax": "PAggRaises"}[case["pixel_agg"]]
    return "(mkCall %s %s %s %s %s %s %s)" % (
        d, "true" if case["kwargs"] else "false", cl(srcs), o, agg,
        "false" if case["output"] == "bogus" else "true", "true" if case["output"] == "dataframe" else "false")


BEH = {"ok": "BOk", "none": "BNone", "raise": "BRaise", "wrong": "BWrong"}


def c_obs(ob):
    store = cl(["(%s, %s)" % (cl([cvz(p) for p in pq[0]]), cl([zc(i) for i in pq[1]])) for pq in ob["store"]])
    tr = cl(["(%d, %d, %s, %s)" % (t[0], t[1], cnl(t[2]), cnl(t[3])) for t in ob["trace"]])
    return "(mkObs %d %s %s)" % (ob["out"], store, tr)


def c_case(case, obs, fired):
    f = "NoFault"
    if case["fault"] is not None and fired:
        f = ("AtPc %d" if case["fault"]["nth"] == 0 else "InLoop %d") % case["fault"]["pc"]
    return "(mkCase %s %s %s (%s) %s)" % (cl([c_obj(o) for o in case["objs"]]), c_call(case),
                                          cl([BEH[b] for b in case["tab"]]), f, cl([c_obs(o) for o in obs]))


HEADER = """From Coq Require Import ZArith List Bool Arith.
From MV Require Import Model.Level2State Model.Level2StateExec Gen.GenL2Flow.
Import ListNotations.
"""


def model_check(ctx, tag, items, chunk=250):
    """items: (case, obs, fired). Indices on which the model differs from the implementation."""
    bad = []
    for ci in range(0, len(items), chunk):
        part = items[ci:ci + chunk]
        txt = HEADER + "Definition cases : list xcase :=\n[" + ";\n ".join(c_case(*it) for it in part) + \
            "].\nEval vm_compute in (failing gen_wrapper gen_prog cases).\n"
        ok, out = ctx.coq_eval(f"c08_{tag}_{ci}", txt)
        res = octa.parse_z_list(out) if ok else None
        if res is None:
            ctx.add_broken("broken-correspondence", f"c08_{tag}_{ci}", "model evaluation failed:\n" + out[-1500:])
            return None
        bad += [ci + i for i in res]
    return bad


def model_predict(ctx, case, obs, fired):
    txt = HEADER + "Eval vm_compute in (predict gen_wrapper gen_prog %s).\n" % c_case(case, obs, fired)
    ok, out = ctx.coq_eval("c08_predict", txt)
    return out[-1200:] if ok else "predict failed"


# ---------------------------------------------------------------------- the property on a correspondence scene
def exact_violation(case, obs):
    """state restored + second call identical, judged on the exact observations of a scene"""
    init = [[o["pos"], o["ori"]] for o in case["objs"]]
    for ci, ob in enumerate(obs):
        if ob["store"] != init:
            longer = any(len(a[0]) != len(b[0]) or len(a[1]) != len(b[1]) for a, b in zip(ob["store"], init))
            how = "raise" if ob["out"] else "return"
            if longer:
                return f"state-restored/paths-tiled-after-{how}", \
                    f"call {ci + 1} ({CODE_NAME[ob['out']]}: {ob['exc']}) left position/orientation path lengths " \
                    f"{[(len(a[0]), len(a[1])) for a in ob['store']]} instead of " \
                    f"{[(len(a[0]), len(a[1])) for a in init]}"
            return f"state-restored/path-values-after-{how}", f"call {ci + 1} changed path values"
    return None


def exact_repeat_violation(case, obs):
    """the identical call made again (field functions behaving identically) ends the same way: same class, same text"""
    import re
    if case["fault"] is not None or len(obs) < 2 or case["tab"] != ["ok"] * len(case["tab"]):
        return None
    m0, m1 = (re.sub(r"0x[0-9a-fA-F]+|id=\d+", "#", o["exc"] or "") for o in obs[:2])
    if obs[0]["out"] != obs[1]["out"] or m0 != m1:
        return (f"identical-result/outcome:{CODE_NAME[obs[0]['out']]}",
                f"first call {obs[0]['exc'] or 'returns'!r}, identical second call {obs[1]['exc'] or 'returns'!r}"[:300])
    return None


def shrink_case(case, fails):
    c = copy.deepcopy(case)
    for key in ("sources",):
        if len(c[key]) > 1:
            c[key] = shrink_list(c[key], lambda l, key=key: bool(l) and fails(dict(c, **{key: l})), max_steps=12)
    if c["observers"]["kind"] == "list" and len(c["observers"]["entries"]) > 1:
        ent = shrink_list(c["observers"]["entries"],
                          lambda l: bool(l) and fails(dict(c, observers={"kind": "list", "entries": l})), max_steps=12)
        c["observers"] = {"kind": "list", "entries": ent}
    for k, v in (("pixel_agg", None), ("output", "ndarray"), ("in_out", "auto"), ("sumup", False), ("kwargs", False)):
        if c[k] != v and fails(dict(c, **{k: v})):
            c[k] = v
    return c


def run_exact(ctx, cases, flow, built, tag):
    items = []
    for case in cases:
        obs, fired, vals = impl_run(case, flow)
        items.append((case, obs, fired))
        kinds = ",".join(sorted({CODE_NAME[o["out"]] for o in obs}))
        ctx.case(json.dumps(case, sort_keys=True), any(len(o["pos"]) > 1 for o in case["objs"]))
        ctx.bump("exact-outcome:" + kinds)
        if case["fault"] is not None and fired:
            ctx.bump("exact-injected:" + flow["prog"][case["fault"]["pc"]])
        v = exact_violation(case, obs)
        if v is not None:
            def fails(c2, sig=v[0]):
                try:
                    r = exact_violation(c2, impl_run(c2, flow)[0])
                except Exception:  # pylint: disable=broad-except
                    return False
                return r is not None and r[0] == sig
            small = shrink_case(case, fails)
            v2 = exact_violation(small, impl_run(small, flow)[0]) or v
            ctx.impl_fail(v2[0], v2[1], {"kind": "exact-scene", "case": small})
        rv = exact_repeat_violation(case, obs)
        if rv is not None:
            ctx.impl_fail(rv[0], rv[1], {"kind": "exact-scene", "case": case})
        if case["fault"] is None and obs[0]["out"] == 0 and len(obs) > 1 and obs[1]["out"] == 0 \
                and case["tab"] == ["ok"] * len(case["tab"]):
            same = _same_value(vals[0], vals[1], case["observers"]["kind"] == "list" and
                               all("sens" in e or "coll" in e for e in case["observers"]["entries"]))
            if not same:
                ctx.impl_fail("identical-result/exact-scene", "second identical call returned a different value",
                              {"kind": "exact-scene", "case": case})
    if items:
        mid = items[len(items) // 2]
        ctx.samples.append({"scene": mid[0], "observed": mid[1]})
    if not built:
        return
    bad = model_check(ctx, tag, items)
    if bad is None:
        return
    ctx.count("traces_validated_against_impl", len(items) - len(bad))
    for bi in bad[:3]:
        case, obs, fired = items[bi]

        def fails(c2):
            try:
                o2, f2, _ = impl_run(c2, flow)
                r = model_check(ctx, "shrink", [(c2, o2, f2)])
            except Exception:  # pylint: disable=broad-except
                return False
            return bool(r)
        small = shrink_case(case, fails) if len(bad) < 20 else case
        o2, f2, _ = impl_run(small, flow)
        ctx.add_broken("broken-correspondence", "Level2State model vs implementation",
                       json.dumps({"case": small, "observed": o2, "model": model_predict(ctx, small, o2, f2)})[:3800])


def _same_value(a, b, sensor_labels=False):
    if a is None or b is None:
        return a is b
    if hasattr(a, "equals"):      # DataFrame: the label of a temporary Sensor made from an array contains its id()
        if not hasattr(b, "equals") or list(a.columns) != list(b.columns) or len(a) != len(b):
            return False
        cols = [c for c in a.columns if c != "sensor" or sensor_labels]
        return bool(a[cols].equals(b[cols]))
    a, b = np.asarray(a), np.asarray(b)
    return a.shape == b.shape and a.dtype == b.dtype and a.tobytes() == b.tobytes()


def injection_cases(rng, flow, n, base_cases):
    """crash points: first line event of a statement (AtPc) and later events of the loop statements"""
    out = []
    npc = len(flow["prog"])
    loops = [i for i, ins in enumerate(flow["prog"]) if ins in ("ITile", "ITrim")]
    for t in range(n):
        case = copy.deepcopy(base_cases[t % len(base_cases)])
        case["ncalls"] = 1
        case["dict"] = None
        if rng.random() < 0.45 and loops:
            case["fault"] = {"pc": rng.choice(loops), "nth": rng.randint(1, 14)}
        else:
            case["fault"] = {"pc": rng.randrange(npc), "nth": 0}
        out.append(case)
    return out


def all_crash_points(flow, base):
    out = []
    for pc, ins in enumerate(flow["prog"]):
        for nth in ([0] if ins not in ("ITile", "ITrim") else range(0, 22)):
            c = copy.deepcopy(base)
            c["ncalls"], c["fault"] = 1, {"pc": pc, "nth": nth}
            out.append(c)
    return out


# ====================================================================== search on real classes (the property itself)
def rvec(rng, s=2.0):
    return [round(rng.uniform(-s, s), 3) for _ in range(3)]


# numpy names that exist but do not reduce an array to a number: invalid pixel_agg values. A large pool, so that
# the FIRST use of a name in this process (which is what a poisoned memo would need) happens inside a checked scene
NONREDUCING = ["cumsum", "cumprod", "array", "negative", "squeeze", "abs", "sqrt", "exp", "sin", "cos", "tan", "floor",
               "ceil", "sort", "ravel", "copy", "asarray", "flip", "square", "sign", "isnan", "isfinite", "log1p",
               "expm1", "rint", "trunc", "conj", "real", "imag", "transpose", "atleast_1d", "nan_to_num", "zeros_like",
               "ones_like", "argsort", "fliplr", "flipud", "positive", "reciprocal", "cbrt", "arctan", "sinh", "tanh",
               "degrees", "radians", "fabs", "signbit", "logical_not", "isinf", "spacing", "absolute", "fix", "angle",
               "iscomplex", "isreal", "atleast_2d", "atleast_3d", "ascontiguousarray", "asfortranarray", "empty_like",
               "float64", "float32", "int64", "bool_", "shape", "nonzero", "argwhere", "flatnonzero", "unique", "diff",
               "gradient", "ediff1d", "tril", "triu", "rot90", "msort", "around", "round", "rollaxis"]
NONREDUCING = [n for n in NONREDUCING if hasattr(np, n)]
HALF_PI = round(float(np.pi / 2), 15)
SPECIAL_RV = [[0, 0, 0], [HALF_PI, 0, 0], [0, 2 * HALF_PI, 0], [0, 0, -HALF_PI], [0, -HALF_PI, 0]]   # quarter turns, flips


def g_pose(rng, n=None):
    n = n or rng.choice([1, 1, 2, 3, 5])
    if rng.random() < 0.2:          # exact special orientations, axis-aligned integer positions
        return [[rng.randint(-2, 2) for _ in range(3)] for _ in range(n)], [rng.choice(SPECIAL_RV) for _ in range(n)]
    return [rvec(rng, 3) for _ in range(n)], [rvec(rng, 1.5) for _ in range(n)]


OFF = [2.0, 1.0, -1.0]           # bodies and meshes off their local origin
GEO = {
    "Cuboid": [(1, 0.5, 0.7), (3, 0.2, 0.4), (0.2, 3, 0.4), (0.2, 0.4, 3)],
    "Cylinder": [(1, 0.8), (0.3, 3), (3, 0.2)],
    "CylinderSegment": [(0.4, 1, 0.8, 10, 200), (0, 1, 0.8, -200, -30), (0.9, 1, 2, 0, 360), (0.2, 1, 0.5, -270, 80),
                        (0.99, 1, 3, 0, 359)],
    "Sphere": [0.9, 0.3, 2.5], "Circle": [1.1, 0.3, 2.5],
}
POLS = [(0.1, -0.2, 0.3), (0, 0, 1), (-1, 0, 0), (0, 1, 0), (0, 0, 0), (1e3, 2e3, -1e3), (1e-6, 0, 1e-6)]
CURRENTS = [1.5, 0.0, -2.0, 1e6, 1e-6]
MOMENTS = [(0.3, 0.1, -1), (0, 0, 1), (-1, 0, 0), (0, 0, 0), (1e6, 0, 0)]


REAL = ["Cuboid", "Cylinder", "CylinderSegment", "Sphere", "Tetrahedron", "Triangle", "TriangularMesh", "Circle",
        "Polyline", "Dipole", "Custom"]
TETRA = [[0, 0, 0], [1, 0, 0], [0, 1, 0], [0, 0, 1]]
TETRA_NEG = [[0, 0, 0], [0, 1, 0], [1, 0, 0], [0, 0, 1]]       # negative chirality: check_chirality swaps vertices
FACES = [[0, 2, 1], [0, 1, 3], [1, 2, 3], [0, 3, 2]]
FACES_BAD = [[0, 2, 1], [0, 1, 3], [1, 3, 2], [0, 3, 2]]       # third face points inwards
CUSTOM_MODES = ["ok", "raise", "none", "wrong", "nofunc", "onlyB", "raise2", "none2"]


def g_real(rng):
    cls = rng.choice(REAL)
    pos, rv = g_pose(rng)
    d = {"cls": cls, "pos": pos, "rotvec": rv, "missing": rng.choices([None, "dim", "exc"], [94, 3, 3])[0]}
    if rng.random() < 0.5:
        d["style"] = {"label": "obj%d" % rng.randrange(9), "color": rng.choice(["red", "blue"])}
    if cls == "Custom":
        d["mode"] = rng.choices(CUSTOM_MODES, [40, 12, 10, 10, 8, 8, 6, 6])[0]
        d["missing"] = None
    if cls == "Tetrahedron":
        d["verts"] = rng.choice([TETRA, TETRA_NEG])
    if cls == "TriangularMesh":
        # built without checks / without reorientation, possibly with a mis-oriented face
        d["faces"] = rng.choice([FACES, FACES_BAD, FACES_BAD])
        d["checks"] = rng.choice(["skip", "skip", "ignore", "default"])
    d["geo"] = rng.randrange(8)          # index into the class's geometry variants (modulo)
    d["exc"] = rng.randrange(12) if rng.random() < 0.5 else 0
    d["off"] = rng.random() < 0.3        # vertices off the local origin
    return d


def make_search_func(mode):
    st = {"n": 0}

    def f(field, observers):
        st["n"] += 1
        n = len(observers)
        if not S.armed:
            return np.zeros((n, 3))
        if mode == "raise" or (mode == "raise2" and S.idx >= 1):
            S.idx += 1
            raise FaultError("fault")
        S.idx += 1
        if mode == "none" or (mode == "none2" and S.idx >= 2) or (mode == "onlyB" and field != "B"):
            return None
        if mode == "wrong":
            return np.zeros((n + 2, 3))
        return np.asarray(observers) * 0.5 + 1.0
    return f


def _pick(lst, i):
    return lst[i % len(lst)]


def mk_real(d, scale=1.0):
    """scale: absolute length scale of the whole scene (positions, sizes, vertices, pixels; angles untouched)"""
    L = float(scale)
    kw = {"position": (np.array(d["pos"], dtype=float) * L).tolist(),
          "orientation": R.from_rotvec(np.array(d["rotvec"], dtype=float))}
    if d.get("style"):
        if d.get("geo", 0) % 2:          # the two ways to give a style at construction; both stay lazy
            kw.update({"style_" + k: v for k, v in d["style"].items()})
        else:
            kw["style"] = dict(d["style"])
    dim, exc = d.get("missing") != "dim", d.get("missing") != "exc"
    g, e = d.get("geo", 0), d.get("exc", 0)
    pol = _pick(POLS, e) if exc else None
    off = np.array(OFF) if d.get("off") else np.zeros(3)
    c = d["cls"]

    def verts(v):
        return ((np.array(v, dtype=float) + off) * L).tolist()
    if c == "Cuboid":
        return magpy.magnet.Cuboid(dimension=tuple(x * L for x in _pick(GEO[c], g)) if dim else None, polarization=pol, **kw)
    if c == "Cylinder":
        return magpy.magnet.Cylinder(dimension=tuple(x * L for x in _pick(GEO[c], g)) if dim else None, polarization=pol, **kw)
    if c == "CylinderSegment":
        r1, r2, h, p1, p2 = _pick(GEO[c], g)
        return magpy.magnet.CylinderSegment(dimension=(r1 * L, r2 * L, h * L, p1, p2) if dim else None, polarization=pol, **kw)
    if c == "Sphere":
        return magpy.magnet.Sphere(diameter=_pick(GEO[c], g) * L if dim else None, polarization=pol, **kw)
    if c == "Tetrahedron":
        return magpy.magnet.Tetrahedron(vertices=verts(d.get("verts", TETRA)) if dim else None, polarization=pol, **kw)
    if c == "Triangle":
        tri = TETRA[:3] if g % 2 == 0 else [TETRA[1], TETRA[0], TETRA[3]]
        return magpy.misc.Triangle(vertices=verts(tri) if dim else None, polarization=pol, **kw)
    if c == "TriangularMesh":
        mode = d.get("checks", "default")
        extra = {} if mode == "default" else {"check_open": mode, "check_disconnected": mode,
                                              "check_selfintersecting": mode, "reorient_faces": mode}
        return magpy.magnet.TriangularMesh(vertices=verts(TETRA), faces=d.get("faces", FACES), polarization=pol,
                                           **extra, **kw)
    if c == "Circle":
        return magpy.current.Circle(diameter=_pick(GEO[c], g) * L if dim else None,
                                    current=_pick(CURRENTS, e) if exc else None, **kw)
    if c == "Polyline":
        pv = [[0, 0, 0], [1, 0, 0], [1, 1, 0.5]] if g % 2 == 0 else [[0, 0, -1], [0, 0, 1], [0, 0, 1], [2, 0, 1]]
        return magpy.current.Polyline(vertices=verts(pv) if dim else None,
                                      current=_pick(CURRENTS, e) if exc else None, **kw)
    if c == "Dipole":
        return magpy.misc.Dipole(moment=_pick(MOMENTS, e) if exc else None, **kw)
    if c == "Custom":
        return magpy.misc.CustomSource(field_func=None if d["mode"] == "nofunc" else make_search_func(d["mode"]), **kw)
    if c == "Sensor":
        px = None if d["pixel"] is None else np.array(d["pixel"], dtype=float) * L
        return magpy.Sensor(pixel=px, handedness=d.get("hand", "right"), **kw)
    raise ValueError(c)


def g_sens_real(rng, shape):
    pos, rv = g_pose(rng)
    if rng.random() < 0.3:
        rv = [[0, 0, 0]] * len(pos)
    px = None
    if shape is not None:
        px = np.round(np.array([rng.uniform(-1, 1) for _ in range(int(np.prod(shape)))]).reshape(shape), 3).tolist()
    d = {"cls": "Sensor", "pos": pos, "rotvec": rv, "pixel": px, "hand": rng.choice(["right", "right", "left"])}
    if rng.random() < 0.5:
        d["style"] = {"label": "s%d" % rng.randrange(9)}
    return d


def g_scene(rng):
    sc = _g_scene(rng)
    if rng.random() < 0.15:          # everything static, one observer row
        for o in sc["objs"]:
            o["pos"], o["rotvec"] = o["pos"][:1], o["rotvec"][:1]
            if o["cls"] == "Sensor":
                o["pixel"] = rng.choice([None, [0.1, -0.2, 0.3], [[0.1, -0.2, 0.3]]])
        if "sens" in sc["observers"]:
            sc["observers"]["sens"] = sc["observers"]["sens"][:1]
        elif "arr" in sc["observers"]:
            sc["observers"]["arr"] = sc["observers"]["arr"][:1] if rng.random() < 0.5 else sc["observers"]["arr"][0]
            if sc["observers"]["as"] == "int-ndarray":
                sc["observers"]["as"] = "ndarray"
        if rng.random() < 0.6:
            sc["sources"] = sc["sources"][:1]
    return sc


def _g_scene(rng):
    nl, ns = rng.choice([1, 2, 2, 3, 3, 4, 4, 5, 6]), rng.randint(1, 3)
    shape0 = rng.choice([None, [3], [2, 3], [2, 2, 3], [4, 4, 3]])
    mixed = rng.random() < 0.25
    objs = [g_real(rng) for _ in range(nl)] + \
        [g_sens_real(rng, rng.choice([None, [3], [2, 3], [2, 2, 3]]) if mixed else shape0) for _ in range(ns)]
    if nl >= 2 and rng.random() < 0.3:      # twins: same geometry, different excitation; interleaved classes
        objs[1] = dict(objs[0], exc=objs[0].get("exc", 0) + 1, pos=objs[1]["pos"], rotvec=objs[1]["rotvec"])
    leaves, sens = list(range(nl)), list(range(nl, nl + ns))
    # optional collections of some leaves, nested up to depth 3
    colls = []
    free = leaves[:]
    for _ in range(2):
        if rng.random() < 0.45 and len(free) >= 1:
            kids = rng.sample(free, rng.randint(1, len(free)))
            for k in kids:
                free.remove(k)
            pos, rv = g_pose(rng, rng.choice([1, 2]))
            colls.append({"kids": kids, "pos": pos, "rotvec": rv, "nest": rng.choice([0, 0, 1, 1, 2])})
    entry = rng.choice(["top", "top", "top", "src", "sens", "coll", "collmix"])
    sources = [{"obj": k} for k in free if rng.random() < 0.8] + [{"coll": i} for i in range(len(colls))]
    rng.shuffle(sources)
    if not sources:
        sources = [{"obj": leaves[0]}] if not colls else [{"coll": 0}]
    if rng.random() < 0.1:
        sources.append(dict(sources[0]))
    z = rng.random()
    if z < 0.2:
        nrow = rng.choice([2, 2, 3, 16, 21])
        observers = {"arr": np.round(np.array([rng.uniform(-4, 4) for _ in range(3 * nrow)]).reshape(nrow, 3), 3).tolist(),
                     "as": rng.choice(["list", "ndarray", "int-ndarray", "tuple"])}
    elif z < 0.28:      # an object's own public array handed back in as observers
        k = rng.randrange(nl + ns)
        observers = {"own": k, "attr": "position"}
    else:
        observers = {"sens": rng.sample(sens, rng.randint(1, len(sens)))}
    sc = {"objs": objs, "colls": colls, "sources": sources, "observers": observers, "entry": entry,
            "field": rng.choice("BBHHJM"), "sumup": rng.random() < 0.3, "squeeze": rng.random() < 0.6,
            # invalid ones: unknown name, non-string, names that exist in numpy but do not reduce to a number
            # (cumsum, array, negative, squeeze), reducers that reject the axis tuple (argmax, ndim)
            "pixel_agg": rng.choices([None, "mean", "min", "std", "var", "ptp", "max", "median", "bogus", "argmax", 5, "ndim",
                                      "nonreducing"],
                                     [50, 8, 4, 4, 3, 3, 3, 2, 4, 6, 2, 2, 9])[0],
            "output": rng.choices(["ndarray", "dataframe", "bogus"], [65, 27, 8])[0],
            "in_out": rng.choice(["auto", "auto", "inside", "outside", "bogus"]),
            "kwargs": rng.random() < 0.03,
            "scale": rng.choice([1, 1, 1, 1e-3, 1e-6, 1e3])}
    if sc["pixel_agg"] == "nonreducing":
        sc["pixel_agg"] = rng.choice(NONREDUCING)
    return sc


ATTRS = ["dimension", "diameter", "vertices", "faces", "polarization", "magnetization", "current", "moment",
         "pixel", "handedness", "meshvertices", "mesh", "status_open", "status_reoriented", "status_disconnected",
         "status_selfintersecting"]


def _canon(v):
    if isinstance(v, np.ndarray):
        return ("nd", v.dtype.str, v.shape, v.tobytes())
    if isinstance(v, (list, tuple)):
        return ("seq", tuple(_canon(x) for x in v))
    return ("v", repr(v))


# attributes that a field call may legitimately fill: none. (TriangularMesh's _status_* caches are only
# computed by the check_* / reorient_faces methods; getB just warns about an unchecked mesh.)
ALLOWED_LAZY = ("_style", "_style_kwargs")     # compared through effective_style()


def _canon_deep(v, ids, seen, depth=0):
    """canonical value of anything reachable from an object's __dict__ (arrays bit-exact)"""
    if isinstance(v, np.ndarray):
        if v.dtype == object:
            return ("ndo", v.shape, tuple(_canon_deep(x, ids, seen, depth + 1) for x in v.ravel()))
        return ("nd", v.dtype.str, v.shape, v.tobytes())
    if isinstance(v, R):
        q = np.array(v.as_quat())
        return ("rot", q.shape, q.tobytes())
    if v is None or isinstance(v, (bool, int, float, complex, str, bytes)):
        return ("v", repr(v))
    if id(v) in ids:
        return ("ref", ids[id(v)])
    if isinstance(v, (list, tuple)):
        return ("seq", type(v).__name__, tuple(_canon_deep(x, ids, seen, depth + 1) for x in v))
    if isinstance(v, (set, frozenset)):
        return ("set", tuple(sorted(repr(_canon_deep(x, ids, seen, depth + 1)) for x in v)))
    if isinstance(v, dict):
        return ("dict", tuple((repr(k), _canon_deep(x, ids, seen, depth + 1)) for k, x in sorted(v.items(), key=lambda kv: repr(kv[0]))))
    if callable(v) and not hasattr(v, "__dict__"):
        return ("fn", id(v))
    if callable(v) and type(v).__name__ in ("function", "method", "builtin_function_or_method"):
        return ("fn", id(getattr(v, "__func__", v)))
    if hasattr(v, "__dict__") and depth < 8 and id(v) not in seen:
        seen = seen | {id(v)}
        return ("obj", type(v).__name__,
                tuple((k, _canon_deep(x, ids, seen, depth + 1)) for k, x in sorted(vars(v).items())))
    return ("other", type(v).__name__)


def deep_snapshot(allobjs):
    """bit-exact value of everything stored on the objects (vars(), recursively). No public getter is
    called (a getter could itself fill a cache), except `style`, whose lazy creation of `_style` is the one
    documented on-demand initialisation: it is forced here so that it never counts as a change."""
    ids = {id(o): i for i, o in enumerate(allobjs)}
    snap = []
    for o in allobjs:
        d = {"position": _canon(np.array(o._position)), "orientation": _canon(np.array(o._orientation.as_quat())),
             "npos": len(o._position), "nori": len(o._orientation)}
        d["dictkeys"] = tuple(sorted(k for k in o.__dict__.keys() if k != "_style"))
        d["style"] = effective_style(o)
        for k, v in sorted(vars(o).items()):
            if k in ("_position", "_orientation") or k in ALLOWED_LAZY:
                continue        # paths: compared above (the arrays are replaced by equal ones)
            d["private " + k] = _canon_deep(v, ids, frozenset({id(o)}))
        snap.append(d)
    return snap


def effective_style(o):
    """the style the object HAS, computed without touching it: the style object (if it exists) updated with the
    pending constructor arguments.  `_style` / `_style_kwargs` are the one documented on-demand pair (a style is
    created at the first access, e.g. for the labels of a dataframe); what must not change is their combination."""
    try:
        st = getattr(o, "_style", None)
        st = st.copy() if st is not None else o._style_class()
        kw = copy.deepcopy(getattr(o, "_style_kwargs", None) or {})
        if kw:
            st.update(kw)
        return json.dumps(st.as_dict(), sort_keys=True, default=str)
    except Exception as e:  # pylint: disable=broad-except
        return "invalid pending style arguments: " + type(e).__name__


def snap_diff(a, b, allobjs):
    """first difference -> (clause-trigger, text) or None"""
    for i, (x, y) in enumerate(zip(a, b)):
        cls = type(allobjs[i]).__name__
        if x["npos"] != y["npos"] or x["nori"] != y["nori"]:
            return "paths-tiled", f"{cls}: path length {x['npos']}/{x['nori']} -> {y['npos']}/{y['nori']}"
        for k in x:
            if x[k] != y.get(k):
                if k == "orientation":
                    qa = np.frombuffer(x[k][3]).reshape(x[k][2])
                    qb = np.frombuffer(y[k][3]).reshape(y[k][2])
                    if np.abs(qa - qb).max() < 1e-12:
                        return "orientation-bits", f"{cls}: stored quaternions changed in the last bits " \
                            f"(max abs diff {np.abs(qa - qb).max():.1e})"
                    return "orientation-values", f"{cls}: orientation changed"
                k2 = k.replace("private ", "")
                return f"{k2}:{cls}", f"{cls}.{k2} changed"
    return None


def _innermost(col, depth):
    for _ in range(int(depth)):
        col = col.children[0]
    return col


def assemble(sc, objs):
    """collections, source list, observers (and the all-in-one root collection for entry 'collmix')"""
    L = float(sc.get("scale", 1))
    colls = []
    for c in sc["colls"]:
        lab = {"style_label": "coll%d" % len(colls)} if len(c["kids"]) % 2 else {}
        col = magpy.Collection(*[objs[k] for k in c["kids"]], **lab)
        for _ in range(int(c["nest"])):
            col = magpy.Collection(col, **lab)
        colls.append(col)
    allobjs = objs[:]
    for c in colls:
        allobjs.append(c)
        allobjs += [x for x in c.collections_all]
    srcs = [objs[s["obj"]] if "obj" in s else colls[s["coll"]] for s in sc["sources"]]
    ob = sc["observers"]
    arrays = {}
    if "arr" in ob:
        a = (np.array(ob["arr"], dtype=float) * L).tolist()

        def tup(x):
            return tuple(tup(y) for y in x) if isinstance(x, (list, tuple)) else x
        observers = {"list": a, "tuple": tup(a), "ndarray": np.array(a, dtype=float),
                     "int-ndarray": np.rint(np.array(ob["arr"])).astype(int) + 3}[ob["as"]]
        if isinstance(observers, np.ndarray):
            arrays["observers"] = observers
    elif "own" in ob:
        observers = getattr(objs[ob["own"]], ob["attr"])       # the object's own array, through its public getter
        arrays["observers(own " + ob["attr"] + ")"] = observers
    else:
        observers = [objs[k] for k in ob["sens"]]
    root = None
    if sc["entry"] == "collmix" and "sens" in ob:
        kids = list({id(x): x for x in srcs + observers}.values())
        root = magpy.Collection(*kids)
        allobjs.append(root)
    return colls, allobjs, srcs, observers, arrays, root


def build_scene(sc):
    S.idx = 0
    objs = [mk_real(d, sc.get("scale", 1)) for d in sc["objs"]]
    colls, allobjs, srcs, observers, arrays, root = assemble(sc, objs)
    for c, col in zip(sc["colls"], colls):      # the innermost collection's own pose (children keep theirs)
        inner = _innermost(col, c["nest"])
        inner._position = np.array(c["pos"], dtype=float) * float(sc.get("scale", 1))
        inner._orientation = R.from_rotvec(np.array(c["rotvec"], dtype=float))
    return objs, colls, allobjs, srcs, observers, arrays, root


def call_scene(sc, objs, srcs, observers, root=None):
    kw = {"squeeze": sc["squeeze"], "pixel_agg": sc["pixel_agg"], "output": sc["output"]}
    name = "get" + sc["field"]
    entry = sc["entry"]
    S.idx = 0
    S.armed = True
    try:
        try:
            if entry == "collmix" and root is not None:
                val = getattr(root, name)(**kw)
            elif entry == "src" and len(srcs) == 1:
                obs = observers if isinstance(observers, list) and observers and \
                    isinstance(observers[0], magpy.Sensor) else [observers]
                val = getattr(srcs[0], name)(*obs, **kw)
            elif entry == "sens" and isinstance(observers, list) and len(observers) == 1 \
                    and isinstance(observers[0], magpy.Sensor):
                val = getattr(observers[0], name)(*srcs, sumup=sc["sumup"], **kw)
            elif entry == "coll" and len(srcs) == 1 and isinstance(srcs[0], magpy.Collection):
                obs = observers if isinstance(observers, list) and observers and \
                    isinstance(observers[0], magpy.Sensor) else [observers]
                val = getattr(srcs[0], name)(*obs, **kw)
            else:
                extra = {"dimension": (1, 1, 1)} if sc["kwargs"] else {}
                val = getattr(magpy, name)(srcs, observers, sumup=sc["sumup"], in_out=sc["in_out"], **kw, **extra)
            exc = None
        except Exception as e:  # pylint: disable=broad-except
            val, exc = None, e
    finally:
        S.armed = False
    return val, exc


def _ename(e):
    return "returns" if e is None else type(e).__name__


def _msg(e):
    """exception text with memory addresses / object ids masked"""
    import re
    return re.sub(r"0x[0-9a-fA-F]+|id=\d+", "#", f"{type(e).__name__}: {e}")


def check_scene(sc):
    """-> list of (signature, text)"""
    objs, colls, allobjs, srcs, observers, arrays, root = build_scene(sc)
    before = deep_snapshot(allobjs)
    arr_before = {k: (v.copy(), v.dtype, v.shape) for k, v in arrays.items()}
    v1, e1 = call_scene(sc, objs, srcs, observers, root)
    after = deep_snapshot(allobjs)
    out = []
    how = "raise" if e1 is not None else "return"
    d = snap_diff(before, after, allobjs)
    if d is not None:
        trig = {"paths-tiled": f"paths-tiled-after-{how}",
                "orientation-bits": "orientation-bits-after-tiling"}.get(d[0], d[0] + f"-after-{how}")
        out.append((f"state-restored/{trig}", f"{'get' + sc['field']} ({CODE_NAME[exc_code(e1)]}"
                    f"{': ' + str(e1)[:80] if e1 else ''}): {d[1]}"))
    for k, (a0, dt, sh) in arr_before.items():
        a = arrays[k]
        if a.dtype != dt or a.shape != sh or a.tobytes() != a0.tobytes():
            out.append((f"caller-array/{k}", f"array passed as {k} was modified"))
        if isinstance(v1, np.ndarray) and np.shares_memory(v1, a):
            out.append((f"caller-array-aliased/{k}", f"result shares memory with the {k} array"))
    v2, e2 = call_scene(sc, objs, srcs, observers, root)
    if (e1 is None) != (e2 is None) or (e1 is not None and (type(e1) is not type(e2))):
        out.append((f"identical-result/outcome:{_ename(e1)}",
                    f"first call {_ename(e1)} ({str(e1)[:70]!r}), identical second call {_ename(e2)} ({str(e2)[:70]!r})"))
    elif e1 is not None and _msg(e1) != _msg(e2):
        out.append((f"identical-result/message:{_ename(e1)}", f"first call: {_msg(e1)[:90]!r}, identical second call: "
                    f"{_msg(e2)[:90]!r}"))
    elif e1 is None and hasattr(v1, "select_dtypes") and hasattr(v2, "select_dtypes") and \
            _same_value(v1.select_dtypes("number"), v2.select_dtypes("number")) and \
            not _same_value(v1, v2, "sens" in sc["observers"]):
        out.append(("identical-result/dataframe-labels", "the second identical call returned a DataFrame with different "
                    f"source/sensor labels: {sorted(set(v1['source']) | set(v1['sensor']))[:4]} -> "
                    f"{sorted(set(v2['source']) | set(v2['sensor']))[:4]}"))
    elif e1 is None and not _same_value(v1, v2, "sens" in sc["observers"]):
        bits = d is not None and d[0] == "orientation-bits"
        if hasattr(v1, "select_dtypes"):
            v1, v2 = v1.select_dtypes("number").to_numpy(), v2.select_dtypes("number").to_numpy()
        a1, a2 = np.asarray(v1, dtype=float), np.asarray(v2, dtype=float)
        # same root cause as the re-normalised quaternions when the values agree relative to the field scale
        small = a1.shape == a2.shape and bool(np.all(np.isfinite(a1) == np.isfinite(a2))) and \
            float(np.nanmax(np.abs(np.where(np.isfinite(a1), a1 - a2, 0.0)), initial=0.0)) <= \
            1e-9 * max(float(np.nanmax(np.abs(np.where(np.isfinite(a1), a1, 0.0)), initial=0.0)), 1e-300)
        if bits and small:
            out.append(("identical-result/orientation-bits-after-tiling",
                        "the second identical call returned a value differing in the last bits "
                        f"(max abs diff {np.nanmax(np.abs(a1 - a2)):.1e})"))
        else:
            out.append(("identical-result/value", "the second identical call returned a different value"))
    third = deep_snapshot(allobjs)
    d2 = snap_diff(after, third, allobjs)
    if d2 is not None and d is None:
        out.append((f"state-restored/{d2[0]}-second-call", d2[1]))
    if e1 is not None and not out:
        # a failing call must fail the same way again after an intervening VALID call on the same objects
        call_scene(dict(sc, pixel_agg=None, output="ndarray", kwargs=False), objs, srcs, observers, root)
        v3, e3 = call_scene(sc, objs, srcs, observers, root)
        if type(e3) is not type(e1) or _msg(e3) != _msg(e1):
            out.append((f"identical-result/outcome-after-valid-call:{_ename(e1)}",
                        f"first call {_ename(e1)} ({str(e1)[:70]!r}); after a valid call the identical call gives "
                        f"{_ename(e3)} ({str(e3)[:70]!r})"))
        d3 = snap_diff(after, deep_snapshot(allobjs), allobjs)
        if d3 is not None:
            out.append((f"state-restored/{d3[0]}-third-call", d3[1]))
    return out, exc_code(e1)


def shrink_scene(sc, sig):
    def fails(c2):
        try:
            return any(s == sig for s, _ in check_scene(c2)[0])
        except Exception:  # pylint: disable=broad-except
            return False
    c = copy.deepcopy(sc)
    if len(c["sources"]) > 1:
        c["sources"] = shrink_list(c["sources"], lambda l: bool(l) and fails(dict(c, sources=l)), max_steps=10)
    if "sens" in c["observers"] and len(c["observers"]["sens"]) > 1:
        c["observers"] = {"sens": shrink_list(c["observers"]["sens"],
                                              lambda l: bool(l) and fails(dict(c, observers={"sens": l})), max_steps=10)}
    for k, v in (("pixel_agg", None), ("output", "ndarray"), ("in_out", "auto"), ("sumup", False),
                 ("kwargs", False), ("entry", "top"), ("squeeze", True)):
        if c[k] != v and fails(dict(c, **{k: v})):
            c[k] = v
    # shorten paths
    for i, o in enumerate(c["objs"]):
        for n in (1, 2):
            if len(o["pos"]) > n:
                c2 = copy.deepcopy(c)
                c2["objs"][i]["pos"], c2["objs"][i]["rotvec"] = o["pos"][:n], o["rotvec"][:n]
                if fails(c2):
                    c = c2
                    break
    return c


def search_scenes(ctx, n):
    for _ in range(n):
        sc = g_scene(ctx.rng)
        try:
            res, code = check_scene(sc)
        except Exception as e:  # our own machinery
            raise RuntimeError(f"search scene failed to run: {type(e).__name__}: {e}; scene={json.dumps(sc)[:1500]}") from e
        tiled = len({len(o["pos"]) for o in sc["objs"]}) > 1
        ctx.case(("scene", json.dumps(sc, sort_keys=True, default=str)), tiled)
        ctx.bump("search-outcome:" + CODE_NAME[code])
        ctx.bump("search-entry:" + sc["entry"])
        for sig, text in res:
            already = any(f["signature"] == sig for f in ctx.impl_failures)
            small = sc if already else shrink_scene(sc, sig)
            ctx.impl_fail(sig, text, {"kind": "scene", "scene": small})


# ---------------------------------------------------------------------- the smallest cases, systematically
def smallest_scenes():
    """every class ALONE, static, with exactly ONE observer point (as a bare point, a (1,3) array, a sensor
    without pixel, single-pixel sensors), every field, every entry point; both vertex orders of a
    Tetrahedron, checked and unchecked meshes.  One source x one observer row is where a no-copy shortcut
    (group of one, nothing to tile) would hand an object's own array to the core functions."""
    leaves = []
    for cls in REAL:
        base = {"cls": cls, "pos": [[0.3, -0.2, 0.1]], "rotvec": [[0.2, -0.4, 0.3]], "missing": None}
        if cls == "Custom":
            leaves += [dict(base, mode="ok"), dict(base, mode="none"), dict(base, mode="raise")]
        elif cls == "Tetrahedron":
            leaves += [dict(base, verts=TETRA), dict(base, verts=TETRA_NEG)]
        elif cls == "TriangularMesh":
            leaves += [dict(base, faces=FACES, checks="default"), dict(base, faces=FACES_BAD, checks="skip")]
        else:
            leaves.append(base)
    pt = [1.7, 0.4, -0.9]
    observers = [("point", {"arr": pt, "as": "list"}), ("point-nd", {"arr": pt, "as": "ndarray"}),
                 ("row-nd", {"arr": [pt], "as": "ndarray"}),
                 ("sensor", None), ("sensor-pix3", [0.1, 0.2, -0.1]), ("sensor-pix13", [[0.1, 0.2, -0.1]])]
    out = []
    for leaf in leaves:
        for oname, ob in observers:
            is_sens = oname.startswith("sensor")
            sens = {"cls": "Sensor", "pos": [pt], "rotvec": [[0.1, 0.3, -0.2]], "pixel": ob if is_sens else None,
                    "hand": "right"}
            for field in "BHJM":
                for entry in (["top", "src", "coll"] + (["sens"] if is_sens else [])):
                    sc = {"objs": [dict(leaf), sens], "colls": [], "sources": [{"obj": 0}],
                          "observers": {"sens": [1]} if is_sens else dict(ob), "entry": entry, "field": field,
                          "sumup": False, "squeeze": True, "pixel_agg": None, "output": "ndarray",
                          "in_out": "auto", "kwargs": False}
                    if entry == "coll":
                        sc["colls"] = [{"kids": [0], "pos": [[0, 0, 0]], "rotvec": [[0, 0, 0]], "nest": False}]
                        sc["sources"] = [{"coll": 0}]
                    out.append(sc)
    return out


def check_smallest(ctx):
    for sc in smallest_scenes():
        res, code = check_scene(sc)
        ctx.case(("smallest", json.dumps(sc, sort_keys=True)), True)
        ctx.bump("smallest-outcome:" + CODE_NAME[code])
        for sig, text in res:
            ctx.impl_fail(sig + ":smallest", text + f" [{sc['objs'][0]['cls']} alone, one observer point, "
                          f"entry {sc['entry']}]", {"kind": "scene", "scene": sc})


# ---------------------------------------------------------------------- invalid style arguments given at construction
def check_invalid_init_style(ctx):
    """objects built with an INVALID style argument (accepted lazily by the constructors): the dataframe output reads the
    labels, which creates the styles; the failing call must leave the objects as they were and fail again"""
    makers = {
        "source:unknown-key": lambda: (magpy.magnet.Cuboid(dimension=(1, 1, 1), polarization=(0, 0, 1), style_bogus=3),
                                       magpy.Sensor()),
        "source:bad-value-with-valid-label": lambda: (magpy.magnet.Cuboid(dimension=(1, 1, 1), polarization=(0, 0, 1),
                                                                          style={"label": "L", "color": 12345}), magpy.Sensor()),
        "sensor:bad-value-with-valid-label": lambda: (magpy.misc.Dipole(moment=(0, 0, 1)),
                                                      magpy.Sensor(style_label="S", style_opacity=7)),
    }
    for name, mk in makers.items():
        for field in "BH":
            src, sens = mk()
            before = deep_snapshot([src, sens])
            outs = []
            for _ in range(3):
                try:
                    getattr(magpy, "get" + field)(src, sens, output="dataframe")
                    outs.append("returns")
                except Exception as e:  # pylint: disable=broad-except
                    outs.append(type(e).__name__)
            d = snap_diff(before, deep_snapshot([src, sens]), [src, sens])
            ctx.case(("invalid-init-style", name, field), True)
            ctx.bump("invalid-init-style:" + "/".join(outs))
            if len(set(outs)) > 1 or d is not None:
                ctx.impl_fail("identical-result/invalid-init-style-kwargs",
                              f"object built with invalid style arguments ({name}): three identical get{field}(..., "
                              f"output='dataframe') calls end {outs}; object change: {d[1] if d else 'none'}",
                              {"kind": "invalid-init-style", "name": name, "field": field})


# ---------------------------------------------------------------------- histories: call -> public change -> call vs fresh twin
def rebuild_obj(o):
    """a brand new object with the same PUBLIC state (what the user can read off the object)"""
    kw = {"position": o.position, "orientation": o.orientation}
    t = type(o)
    if t in (magpy.magnet.Cuboid, magpy.magnet.Cylinder, magpy.magnet.CylinderSegment):
        return t(dimension=o.dimension, polarization=o.polarization, **kw)
    if t is magpy.magnet.Sphere:
        return t(diameter=o.diameter, polarization=o.polarization, **kw)
    if t in (magpy.magnet.Tetrahedron, magpy.misc.Triangle):
        return t(vertices=o.vertices, polarization=o.polarization, **kw)
    if t is magpy.magnet.TriangularMesh:
        return t(vertices=o.vertices, faces=o.faces, polarization=o.polarization, check_open="skip",
                 check_disconnected="skip", check_selfintersecting="skip", reorient_faces="skip", **kw)
    if t is magpy.current.Circle:
        return t(diameter=o.diameter, current=o.current, **kw)
    if t is magpy.current.Polyline:
        return t(vertices=o.vertices, current=o.current, **kw)
    if t is magpy.misc.Dipole:
        return t(moment=o.moment, **kw)
    if t is magpy.misc.CustomSource:
        return t(field_func=o.field_func, **kw)
    if t is magpy.Sensor:
        return t(pixel=o.pixel, handedness=o.handedness, **kw)
    raise ValueError(t)


def g_mutation(rng, sc):
    """one public change of an object of the scene"""
    i = rng.randrange(len(sc["objs"]))
    cls = sc["objs"][i]["cls"]
    opts = [{"op": "move", "v": rvec(rng, 1)}, {"op": "rotate", "rv": rvec(rng, 1)},
            {"op": "setpos", "v": [rvec(rng, 2) for _ in range(rng.choice([1, 2, 4]))]}]
    pol = [round(rng.uniform(-1, 1), 3) for _ in range(3)]
    if cls in ("Cuboid", "Cylinder", "CylinderSegment", "Sphere", "Tetrahedron", "Triangle", "TriangularMesh"):
        opts += [{"op": "set", "attr": "polarization", "value": pol},
                 {"op": "set", "attr": "magnetization", "value": [x * 1e5 for x in pol]}]
    if cls == "TriangularMesh":
        opts += [{"op": "reorient"}] * 4
    if cls == "Cuboid":
        opts.append({"op": "set", "attr": "dimension", "value": [0.4, 1.3, 0.9]})
    if cls == "Cylinder":
        opts.append({"op": "set", "attr": "dimension", "value": [0.7, 1.3]})
    if cls == "CylinderSegment":
        opts.append({"op": "set", "attr": "dimension", "value": [0.2, 0.9, 1.1, -30, 100]})
    if cls in ("Sphere", "Circle"):
        opts.append({"op": "set", "attr": "diameter", "value": 0.65})
    if cls == "Tetrahedron":
        opts.append({"op": "set", "attr": "vertices", "value": [[0, 0, 0], [1, 0, 0], [0, 2, 0], [0, 0, 1]]})
    if cls == "Triangle":
        opts.append({"op": "set", "attr": "vertices", "value": [[0, 0, 0], [1, 0, 0.2], [0, 2, 0]]})
    if cls == "Polyline":
        opts += [{"op": "set", "attr": "vertices", "value": [[0, 0, 0], [0, 1, 0], [1, 1, 1], [2, 0, 0]]}]
    if cls in ("Circle", "Polyline"):
        opts.append({"op": "set", "attr": "current", "value": -0.75})
    if cls == "Dipole":
        opts.append({"op": "set", "attr": "moment", "value": pol})
    if cls == "Sensor":
        opts += [{"op": "set", "attr": "pixel", "value": [[0.1, 0, 0], [0, 0.2, 0], [0, 0, 0.3]]},
                 {"op": "set", "attr": "handedness", "value": rng.choice(["left", "right"])}]
    opts += [{"op": "reset_path"}, {"op": "setori", "rv": [rng.choice(SPECIAL_RV) for _ in range(rng.choice([1, 3]))]},
             {"op": "style"}, {"op": "read"}, {"op": "badcall"}, {"op": "reset2"}]
    m = dict(rng.choice(opts))
    m["obj"] = i
    if sc["colls"] and rng.random() < 0.3:
        # the same kind of change on a (nested) collection: pose changes go through to the children;
        # tree edits change which sources take part
        ci = rng.randrange(len(sc["colls"]))
        level = rng.randint(0, int(sc["colls"][ci]["nest"]))         # 0 = outermost
        free = [k for k, o in enumerate(sc["objs"]) if o["cls"] != "Sensor"
                and not any(k in c["kids"] for c in sc["colls"])]
        copts = [{"op": "move", "v": rvec(rng, 1)}, {"op": "rotate", "rv": rvec(rng, 1)},
                 {"op": "setpos", "v": [rvec(rng, 2) for _ in range(rng.choice([1, 3]))]}, {"op": "reset_path"},
                 {"op": "setori", "rv": [rng.choice(SPECIAL_RV)]},
                 {"op": "coll_remove", "kid": rng.choice(sc["colls"][ci]["kids"])}]
        if free:
            copts.append({"op": "coll_add", "kid": rng.choice(free)})
        m = dict(rng.choice(copts))
        m["coll"], m["level"] = ci, level
    return m


def _level(col, nest, level):
    """collection `level` steps below the outermost wrapper (nest = number of wrappers)"""
    for _ in range(min(int(level), int(nest))):
        col = col.children[0]
    return col


def apply_mutation(sc, objs, colls, m):
    if "coll" in m:
        o = _level(colls[m["coll"]], sc["colls"][m["coll"]]["nest"], m["level"])
        inner = _innermost(colls[m["coll"]], sc["colls"][m["coll"]]["nest"])
        if m["op"] == "coll_remove":
            inner.remove(objs[m["kid"]])
            return
        if m["op"] == "coll_add":
            inner.add(objs[m["kid"]])
            return
    else:
        o = objs[m["obj"]]
    if m["op"] == "move":
        o.move(m["v"])
    elif m["op"] == "rotate":
        o.rotate_from_rotvec(m["rv"], degrees=False)
    elif m["op"] == "setpos":
        o.position = m["v"]
    elif m["op"] == "setori":
        o.orientation = R.from_rotvec(np.array(m["rv"], dtype=float))
    elif m["op"] == "reset_path":
        o.reset_path()
    elif m["op"] == "reset2":
        o.reset_path()
        o.reset_path()
    elif m["op"] == "reorient":
        o.reorient_faces(mode="ignore")
    elif m["op"] == "style":
        o.style.label = "renamed"
        o.style.update(color="green", opacity=0.5)
    elif m["op"] == "read":              # reads interleaved with the calls
        for a in ATTRS + ["position", "orientation", "parent", "style", "volume", "centroid", "dipole_moment",
                          "children", "sources_all", "field_func"]:
            try:
                getattr(o, a)
            except Exception:  # pylint: disable=broad-except
                pass
        repr(o)
    elif m["op"] == "set":
        setattr(o, m["attr"], m["value"])
    else:
        raise ValueError(m["op"])


def g_history(rng):
    sc = g_scene(rng)
    if rng.random() < 0.35:         # a mesh built without reorientation whose third face points inwards
        sc["objs"][0] = dict(g_real(rng), cls="TriangularMesh", missing=None, faces=FACES_BAD, checks="skip")
        if not any(s.get("obj") == 0 for s in sc["sources"]) and \
                not any(0 in c["kids"] for c in sc["colls"]):
            sc["sources"].append({"obj": 0})
        sc["field"] = rng.choice("BH")
    # the first call should mostly succeed: histories are about state left behind by field calls
    if rng.random() < 0.8:
        sc.update(pixel_agg=None if sc["pixel_agg"] not in (None, "mean", "min") else sc["pixel_agg"],
                  output="ndarray" if sc["output"] == "bogus" else sc["output"], kwargs=False)
    sc["mutations"] = [g_mutation(rng, sc) for _ in range(rng.choice([1, 1, 2, 3]))]
    return sc


def _numeric(v):
    if hasattr(v, "select_dtypes"):
        v = v.select_dtypes("number").to_numpy()
    return np.asarray(v, dtype=float)


def check_history(sc):
    """call, change objects through the public API, call again: the second result must be what brand
    new objects with the same public state give (a field call must not leave state that later calls use).
    The twins' quaternions went through the constructor once more, hence a tolerance relative to the field scale."""
    objs, colls, allobjs, srcs, observers, _, root = build_scene(sc)
    call_scene(sc, objs, srcs, observers, root)
    for m in sc["mutations"]:
        if m["op"] == "badcall":         # a rejected call in the middle
            call_scene(dict(sc, output="bogus"), objs, srcs, observers, root)
            call_scene(dict(sc, pixel_agg="bogus"), objs, srcs, observers, root)
            continue
        try:
            apply_mutation(sc, objs, colls, m)
        except Exception:  # pylint: disable=broad-except
            return [], "mutation-rejected"
    if "own" in sc["observers"]:         # the object's array as it is now
        observers = getattr(objs[sc["observers"]["own"]], sc["observers"]["attr"])
    v2, e2 = call_scene(sc, objs, srcs, observers, root)
    # brand-new twins with the same public state and the same tree as it is NOW
    tw = {}

    def twin(x):
        if id(x) not in tw:
            tw[id(x)] = magpy.Collection(*[twin(c) for c in x.children]) if isinstance(x, magpy.Collection) \
                else rebuild_obj(x)
        return tw[id(x)]
    tsrcs = [twin(x) for x in srcs]
    if isinstance(observers, list) and observers and isinstance(observers[0], magpy.Sensor):
        tobs = [twin(x) for x in observers]
    elif "own" in sc["observers"]:
        tobs = getattr(twin(objs[sc["observers"]["own"]]), sc["observers"]["attr"])
    else:
        tobs = copy.deepcopy(observers)
    troot = twin(root) if root is not None else None
    vt, et = call_scene(sc, None, tsrcs, tobs, troot)
    trig = "+".join(dict.fromkeys(("Collection" if "coll" in m else type(objs[m["obj"]]).__name__) + ":" +
                                  (m.get("attr") or m["op"]) for m in sc["mutations"]))
    if (e2 is None) != (et is None) or (e2 is not None and type(e2) is not type(et)):
        return [(f"fresh-twin/outcome:{trig}", f"after call -> {trig} -> call: {CODE_NAME[exc_code(e2)]}, "
                 f"fresh objects with the same public state: {CODE_NAME[exc_code(et)]}")], CODE_NAME[exc_code(e2)]
    # the twins went through the constructors, which re-normalise quaternions: values are compared only when
    # every twin stores bit-identical paths (otherwise a 1-ulp input difference, amplified by cancellation or
    # flipping an observer across a surface, is not a property of the field call)
    same_inputs = all(
        np.array(o._position).tobytes() == np.array(tw[id(o)]._position).tobytes() and
        np.array(o._orientation.as_quat()).tobytes() == np.array(tw[id(o)]._orientation.as_quat()).tobytes()
        for o in objs if id(o) in tw)
    if e2 is None and not same_inputs:
        return [], "returns(twin paths differ in bits: value not compared)"
    if e2 is None:
        a, b = _numeric(v2), _numeric(vt)
        fin = np.isfinite(a) & np.isfinite(b) if a.shape == b.shape else None
        scale = max(float(np.max(np.abs(b[fin]), initial=0.0)), 1e-300) if fin is not None else 1.0
        if a.shape != b.shape or not np.array_equal(np.isfinite(a), np.isfinite(b)) or \
                float(np.max(np.abs(a[fin] - b[fin]), initial=0.0)) > 1e-9 * scale:
            diff = "shape" if a.shape != b.shape else f"{float(np.max(np.abs(a[fin] - b[fin]), initial=0.0)):.2e} (scale {scale:.2e})"
            return [(f"fresh-twin/value:{trig}", f"get{sc['field']} after call -> {trig} -> call differs from fresh "
                     f"objects with the same public state: max abs diff {diff}")], "returns"
    return [], CODE_NAME[exc_code(e2)]


def search_histories(ctx, n):
    for _ in range(n):
        sc = g_history(ctx.rng)
        try:
            res, what = check_history(sc)
        except Exception as e:  # our own machinery
            raise RuntimeError(f"history failed to run: {type(e).__name__}: {e}; scene={json.dumps(sc)[:1500]}") from e
        ctx.case(("history", json.dumps(sc, sort_keys=True, default=str)), True)
        ctx.bump("history-outcome:" + what)
        for m in sc["mutations"]:
            ctx.bump("history-mutation:" + (m.get("attr") or m["op"]))
        for sig, text in res:
            clause = sig.split(":")[0]

            def fails(c2, clause=clause):
                try:
                    return any(x.split(":")[0] == clause for x, _ in check_history(c2)[0])
                except Exception:  # pylint: disable=broad-except
                    return False
            small = copy.deepcopy(sc)
            for m in sc["mutations"]:                      # a single responsible change?
                if len(small["mutations"]) > 1 and fails(dict(small, mutations=[m])):
                    small["mutations"] = [m]
            if len(small["sources"]) > 1:
                small["sources"] = shrink_list(small["sources"], lambda l: bool(l) and fails(dict(small, sources=l)),
                                               max_steps=8)
            for k, v in (("pixel_agg", None), ("output", "ndarray"), ("in_out", "auto"), ("sumup", False),
                         ("entry", "top"), ("squeeze", True)):
                if small[k] != v and fails(dict(small, **{k: v})):
                    small[k] = v
            res2 = [r for r in check_history(small)[0] if r[0].split(":")[0] == clause] or [(sig, text)]
            ctx.impl_fail(res2[0][0], res2[0][1], {"kind": "history", "scene": small})


# ---------------------------------------------------------------------- functional interface: caller arrays
DICT_CALLS = [
    ("Cuboid", {"dimension": (1, 2, 3), "polarization": (0.1, 0.2, 0.3)}),
    ("Cylinder", {"dimension": (1, 2), "polarization": (0.1, 0.2, 0.3)}),
    ("CylinderSegment", {"dimension": (0.5, 1, 2, 10, 120), "polarization": (0.1, 0.2, 0.3)}),
    ("Sphere", {"diameter": 1.2, "polarization": (0.1, 0.2, 0.3)}),
    ("Tetrahedron", {"vertices": TETRA_NEG, "polarization": (0.1, 0.2, 0.3)}),
    ("Triangle", {"vertices": TETRA_NEG[:3], "polarization": (0.1, 0.2, 0.3)}),
    ("Circle", {"diameter": 1.2, "current": 2.0}),
    ("Polyline", {"segment_start": (0, 0, 0), "segment_end": (1, 1, 1), "current": 2.0}),
    ("Dipole", {"moment": (1, 2, 3)}),
    ("TriangularMesh", {"mesh": [[TETRA[i] for i in f] for f in FACES], "polarization": (0.1, 0.2, 0.3)}),
]


def check_dict_iface(ctx, n):
    rng = ctx.rng
    for t in range(n):
        name, params = DICT_CALLS[t % len(DICT_CALLS)]
        k = rng.choice([1, 2, 4])
        field = rng.choice("BHJM")
        arrays = {}
        kw = {}
        for p, v in params.items():
            if np.ndim(v) == 0:
                kw[p] = v                      # scalars are passed as python numbers
                continue
            a = np.array(v, dtype=float)
            mode = rng.choice(["single", "tiled", "int"])
            if mode == "tiled":
                a = np.tile(a, (k,) + (1,) * a.ndim)
            elif mode == "int" and np.all(a == np.rint(a)):
                a = a.astype(int)
            kw[p] = a
            arrays[p] = a
        obs = np.array([[rng.uniform(-3, 3) for _ in range(3)] for _ in range(k)])
        pos = np.array([[rng.uniform(-1, 1) for _ in range(3)] for _ in range(k)])
        arrays["observers"], arrays["position"] = obs, pos
        fault = rng.choice([None, None, None, None, "length", "kwarg"])
        if fault == "length":                   # incompatible lengths -> MagpylibBadUserInput
            pos = np.ones((k + 5, 3))
            arrays["position"] = pos
        elif fault == "kwarg":                  # unknown parameter -> TypeError inside the field function
            kw["bogus_param"] = np.ones((k, 3))
            arrays["bogus_param"] = kw["bogus_param"]
        before = {p: (a.copy(), a.dtype, a.shape) for p, a in arrays.items()}
        try:
            val = getattr(magpy, "get" + field)(name, obs, position=pos, **kw)
            exc = None
        except Exception as e:  # pylint: disable=broad-except
            val, exc = None, e
        ctx.case(("dict", name, field, k, fault, tuple(sorted((p, str(a.dtype), a.shape) for p, a in arrays.items()))), True)
        ctx.bump("dict-outcome:" + CODE_NAME[exc_code(exc)])
        rp = {"kind": "dict", "name": name, "field": field, "k": k, "t": t}
        for p, (a0, dt, sh) in before.items():
            a = arrays[p]
            if a.dtype != dt or a.shape != sh or a.tobytes() != a0.tobytes():
                ctx.impl_fail(f"caller-array/{name}:{p}", f"get{field}('{name}', ...) modified the array passed as {p}", rp)
            if isinstance(val, np.ndarray) and np.shares_memory(val, a):
                ctx.impl_fail(f"caller-array-aliased/{name}:{p}", f"result of get{field}('{name}') shares memory with {p}", rp)
        if exc is None:
            try:
                val2 = getattr(magpy, "get" + field)(name, obs, position=pos, **kw)
            except Exception as e:  # pylint: disable=broad-except
                val2 = e
            if not _same_value(val, val2):
                ctx.impl_fail(f"identical-result/functional:{name}", "second identical functional call differs", rp)


def check_own_arrays(ctx):
    """objects' OWN arrays (what the public getters return) passed back in as observers / functional-interface
    parameters: unchanged bit for bit, result not aliased; left-handed Tetrahedron, single rows and batches"""
    for nrow in (1, 2, 17):
        tet = magpy.magnet.Tetrahedron(vertices=TETRA_NEG, polarization=(0.1, 0.2, 0.3),
                                       position=[(0.1 * i, 0.2, 0.3) for i in range(nrow)])
        sens = magpy.Sensor(pixel=[(0.5, 0.1 * i, 1.0) for i in range(nrow)] if nrow > 1 else (0.5, 0.1, 1.0))
        tri = magpy.misc.Triangle(vertices=TETRA_NEG[:3], polarization=(0, 0, 1))
        poly = magpy.current.Polyline(vertices=[(0, 0, 0), (1, 0, 0), (1, 1, 0)], current=1.0)
        own = {"tet.vertices": tet.vertices, "tet.position": tet.position, "tet.polarization": tet.polarization,
               "sens.pixel": sens.pixel, "tri.vertices": tri.vertices, "poly.vertices": poly.vertices}
        keep = {k: (v.copy(), id(v)) for k, v in own.items()}
        calls = []
        for f in "BHJM":
            fn = getattr(magpy, "get" + f)
            calls += [lambda fn=fn: fn(tet, tet.position), lambda fn=fn: fn(tet, sens.pixel),
                      lambda fn=fn: fn(tet, tet.vertices), lambda fn=fn: fn([tet, tri, poly], poly.vertices),
                      lambda fn=fn: fn("Tetrahedron", sens.pixel, vertices=tet.vertices, polarization=tet.polarization,
                                       position=tet.position),
                      lambda fn=fn: fn("Triangle", tet.vertices, vertices=tri.vertices, polarization=tri.polarization),
                      lambda fn=fn: fn("Polyline", poly.vertices[1:], segment_start=poly.vertices[:-1],
                                       segment_end=poly.vertices[1:], current=1.0)]
        for ci, call in enumerate(calls):
            try:
                val = call()
            except Exception as e:  # pylint: disable=broad-except
                val = None
                ctx.bump("own-arrays:raises:" + type(e).__name__)
            ctx.case(("own", nrow, ci), True)
            now = {"tet.vertices": tet.vertices, "tet.position": tet.position, "tet.polarization": tet.polarization,
                   "sens.pixel": sens.pixel, "tri.vertices": tri.vertices, "poly.vertices": poly.vertices}
            for k, (a0, _) in keep.items():
                if now[k].shape != a0.shape or now[k].tobytes() != a0.tobytes():
                    ctx.impl_fail(f"caller-array/own:{k}", f"call #{ci} (rows {nrow}) modified the object's own {k}",
                                  {"kind": "own", "nrow": nrow, "call": ci})
                if isinstance(val, np.ndarray) and np.shares_memory(val, now[k]):
                    ctx.impl_fail(f"caller-array-aliased/own:{k}", f"call #{ci} result aliases {k}",
                                  {"kind": "own", "nrow": nrow, "call": ci})


def check_object_arrays(ctx):
    """arrays handed to getB through objects' public attributes and observers: unchanged, not aliased"""
    verts = np.array(TETRA_NEG, dtype=float)
    tet = magpy.magnet.Tetrahedron(vertices=verts, polarization=(0.1, 0.2, 0.3))
    obs = np.array([[0.2, 0.2, 0.2], [3.0, 1.0, 2.0]])
    pix = np.array([[0.1, 0.0, 0.0], [0.0, 0.1, 0.0]])
    sens = magpy.Sensor(pixel=pix, position=[(0, 0, 1), (0, 0, 2)])
    keep = {"vertices": verts.copy(), "observers": obs.copy(), "pixel": pix.copy(),
            "tet.vertices": tet.vertices.copy(), "sens.pixel": sens.pixel.copy()}
    for field in "BHJM":
        for o in (obs, sens, [sens, sens]):
            val = getattr(magpy, "get" + field)(tet, o, in_out="auto")
            ctx.case(("objarr", field, type(o).__name__), True)
            now = {"vertices": verts, "observers": obs, "pixel": pix, "tet.vertices": tet.vertices,
                   "sens.pixel": sens.pixel}
            for k, a0 in keep.items():
                if now[k].tobytes() != a0.tobytes():
                    ctx.impl_fail(f"caller-array/Tetrahedron:{k}", f"get{field} modified {k}", {"kind": "objarr"})
                if np.shares_memory(val, now[k]):
                    ctx.impl_fail(f"caller-array-aliased/Tetrahedron:{k}", f"get{field} result aliases {k}", {"kind": "objarr"})


# ====================================================================== run / replay
def run(ctx):
    ctx.extra["rule"] = (
        "exact scenes: 1-4 sources (CustomSource sharing 4 function objects or None, subclasses of Cuboid/Sphere/"
        "Circle/Dipole with recording field functions, missing dimension/excitation), 1-3 sensors with path lengths "
        "1-4, collections, duplicates, bad sources/observers/pixel_agg/output/kwargs, a fault table for the first 6 "
        "field-function invocations, each scene called twice; crash-point scenes raise at one statement boundary or "
        "inside the tiling/reset loop (sys.settrace). Search scenes: all source classes with float paths, nested "
        "collections, styles, four entry points, bit-exact deep snapshots, repeat call. A case is distinct by its "
        "canonical JSON and non-trivial when objects of different path length are involved (so tiling happens).")
    ctx.trusted += [
        "translator translate/gen_l2flow.py: statement list of _getBH_level2 and shape of the getBH_level2 wrapper; "
        "the statements writing object state are matched verbatim, attribute stores / unknown calls elsewhere in the "
        "body, the level-1 helpers and the called validators make it fail closed",
        "hand model coq/Model/Level2State.v: meaning of each statement kind as a transformer of (paths, attributes); "
        "all statements except the tiling loop, the reset loop and the finally receive the store read-only; tied by "
        "the scene correspondence (outcome class, final paths, per-invocation path lengths and row counts) incl. "
        "injected crash points",
        "failures inside the wrapper's own finally clause are not modelled; numpy/scipy calls are atomic in the model",
        "caller arrays, aliasing, style/parent/children/geometry attributes, bit-level equality of quaternions: "
        "runtime checks on sampled scenes (partial, not a theorem)",
    ]
    ok = ctx.regen(["GenL2Flow"])
    built = ctx.build_props() and ok
    if built:
        ctx.refuted += ["C08_level2_state_restored_prefix_refuted", "C08_prefix_field_func_faults_refuted",
                        "C08_prefix_any_crash_point_refuted", "C08_trimming_finally_renorm_refuted"]
    if ctx.tier == "thorough" and built:
        ctx.coqchk("MV.Props.C08")
    flow = None
    try:
        from translate import gen_l2flow
        flow = gen_l2flow.flow(REPO)
    except Exception:  # pylint: disable=broad-except
        flow = None            # already reported by regen
    can_model = built
    if not built and flow is not None:
        # the proof broke but the translated program may still run: keep comparing the model with the code
        with Lock():
            rc, _ = sh("make -j4 Gen/GenL2Flow.vo Model/Level2StateExec.vo", 300, cwd=COQ)
        can_model = rc == 0

    def corr():
        cases = corner_cases() + [g_case(ctx.rng) for _ in range(ctx.n(500, 6000))]
        run_exact(ctx, cases, flow or {"lines": [], "prog": [], "body": "_getBH_level2"},
                  can_model and flow is not None, ctx.tier)
        if flow is not None:
            base = [c for c in cases if c["dict"] is None][:200]
            inj = injection_cases(ctx.rng, flow, ctx.n(250, 3000), base)
            inj += all_crash_points(flow, corner_cases()[0])
            inj += all_crash_points(flow, corner_cases()[-1])
            run_exact(ctx, inj, flow, can_model, ctx.tier + "_inj")
    run_guarded(ctx, corr, "C08 correspondence")

    run_guarded(ctx, lambda: run_corpus(ctx), "C08 corpus")
    big = bool(ctx.broken)
    run_guarded(ctx, lambda: search_scenes(ctx, ctx.n(500, 6000) * (3 if big else 1)), "C08 scene search")
    run_guarded(ctx, lambda: check_smallest(ctx), "C08 smallest cases")
    run_guarded(ctx, lambda: check_invalid_init_style(ctx), "C08 invalid init style")
    run_guarded(ctx, lambda: search_histories(ctx, ctx.n(300, 4000) * (2 if big else 1)), "C08 history search")
    run_guarded(ctx, lambda: check_dict_iface(ctx, ctx.n(120, 1500)), "C08 functional interface arrays")
    run_guarded(ctx, lambda: check_object_arrays(ctx), "C08 object arrays")
    run_guarded(ctx, lambda: check_own_arrays(ctx), "C08 own arrays")


def run_corpus(ctx):
    """minimised past failures (commits 7b53805, e5d1a5c): re-checked first on every run"""
    import glob
    import os
    from harness.common import VERIF
    for path in sorted(glob.glob(os.path.join(VERIF, "corpus", "C08-*.json"))):
        rp = json.load(open(path))["replay"]
        if rp["kind"] == "scene":
            res, _ = check_scene(rp["scene"])
        else:
            obs, _, _ = impl_run(rp["case"], {"lines": [], "prog": [], "body": "getBH_level2"})
            v = exact_violation(rp["case"], obs)
            res = [v] if v else []
        ctx.case(("corpus", os.path.basename(path)), True)
        ctx.bump("corpus")
        for sig, text in res:
            ctx.impl_fail(sig, text, rp)


def replay(ctx, obj):
    rp = obj.get("replay", obj)
    kind = rp.get("kind")
    bad = []
    if kind == "scene":
        res, code = check_scene(rp["scene"])
        print("replay: call", CODE_NAME[code])
        bad = res
    elif kind == "history":
        res, what = check_history(rp["scene"])
        print("replay: second call", what)
        bad = res
    elif kind == "exact-scene":
        from translate import gen_l2flow
        try:
            flow = gen_l2flow.flow(REPO)
        except Exception:  # pylint: disable=broad-except
            flow = {"lines": [], "prog": [], "body": "getBH_level2"}
        obs, _, _ = impl_run(rp["case"], flow)
        v = exact_violation(rp["case"], obs)
        rv = exact_repeat_violation(rp["case"], obs)
        for o in obs:
            print("replay: call ->", CODE_NAME[o["out"]], o["exc"], "path lengths", [len(a[0]) for a in o["store"]])
        bad = [x for x in (v, rv) if x]
    else:
        print(json.dumps(obj, indent=1)[:3000])
        return 0
    for sig, text in bad:
        print(f"FAILS [{sig}]: {text}")
    if bad:
        print(f"VIOLATION property=C08 replay={obj.get('how_to_rerun', '').split()[-1] or 'given'}")
        return 1
    print("replay: property holds on this input")
    return 0
