"""C01 -- returned fields equal the magnetostatic integrals they claim to solve.

stages: regen GenCore (AST fingerprints of the modelled functions) -> build Props/C01.v ->
float correspondence (CoreModel.v run on Coq's primitive binary64 floats under vm_compute vs the
numpy BHJM_* functions on the same rows, all branches) -> search (first-principles quadrature
through the public API for all 10 classes, B and H)."""
import json
import math
import os
import re
from multiprocessing import Pool

import numpy as np

from harness.common import run_guarded, REPO
from harness import c01_search as S


# =========================================================================== correspondence
def fhex(x):
    x = float(x)
    if x != x:
        return "nan"
    if x in (float("inf"), float("-inf")):
        return "infinity" if x > 0 else "neg_infinity"
    h = x.hex()
    return f"({h})" if h.startswith("-") else h


def cv3(v):
    return "(" + ", ".join(fhex(x) for x in v) + ")"


def _lg(rng, lo, hi):
    return 10 ** rng.uniform(math.log10(lo), math.log10(hi))


def _vec(rng, scale=1.0):
    return [rng.uniform(-1, 1) * scale for _ in range(3)]


def _unit(rng):
    while True:
        v = np.array(_vec(rng))
        n = np.linalg.norm(v)
        if 0.1 < n <= 1:
            return v / n


def gen_rows(rng, n):
    """rows for the four modelled wrappers; every branch of every model is produced on purpose"""
    rows = []
    for i in range(n):
        f = "FB" if rng.random() < 0.5 else "FH"
        # ---- dipole
        sc = _lg(rng, 1e-3, 1e3)
        o = _vec(rng, sc)
        m = _vec(rng, _lg(rng, 1e-3, 1e3))
        k = rng.random()
        if k < 0.06:
            o = [0.0, 0.0, 0.0]
            m = [m[0], 0.0, -abs(m[2])] if k < 0.03 else m
        elif k < 0.2:
            m[rng.randrange(3)] = 0.0
        rows.append(("dipole", f, {"o": o, "m": m}))
        # ---- sphere
        d = rng.choice([1, -1]) * _lg(rng, 1e-2, 1e2)
        R = abs(d) / 2
        k = rng.random()
        if k < 0.45:
            o = (_unit(rng) * R * rng.uniform(0, 0.999)).tolist()
        elif k < 0.9:
            o = (_unit(rng) * R * _lg(rng, 1.001, 1e3)).tolist()
        elif k < 0.95:
            o = [R, 0.0, 0.0]                      # exactly on the surface: r > r_sphere is False
        else:
            o = [0.0, 0.0, 0.0]
        rows.append(("sphere", f, {"o": o, "d": d, "P": _vec(rng, _lg(rng, 1e-2, 2))}))
        # ---- polyline segment
        sc = _lg(rng, 1e-2, 1e2)
        p1 = np.array(_vec(rng, sc))
        k = rng.random()
        if k < 0.06:
            p2 = p1.copy()
            o = np.array(_vec(rng, sc))
        elif k < 0.14:                             # axis-parallel segment, observer exactly on its line
            ax = rng.randrange(3)
            p2 = p1.copy()
            p2[ax] += rng.choice([-1, 1]) * sc * rng.uniform(0.2, 2)
            o = p1.copy()
            o[ax] += sc * rng.uniform(-3, 4)
        else:
            e = _unit(rng)
            L = sc * _lg(rng, 0.1, 3)
            p2 = p1 + L * e
            t = rng.uniform(-3, 4) if rng.random() < 0.8 else rng.choice([0.0, 1.0, -1.0, 2.0])
            perp = np.cross(e, _unit(rng))
            perp /= np.linalg.norm(perp)
            # distance from the line at least 5% of the distance along it: no heavy cancellation
            dist = L * max(_lg(rng, 1e-2, 1e2), 0.05 * max(abs(t), abs(t - 1)))
            o = p1 + t * L * e + dist * perp
        rows.append(("polyline", f, {"o": o.tolist(), "p1": p1.tolist(), "p2": p2.tolist(),
                                      "cur": rng.choice([1, -1]) * _lg(rng, 1e-2, 1e2)}))
        # ---- circle: mask logic + on-axis branch
        d = rng.choice([1, -1]) * _lg(rng, 1e-2, 1e2)
        r0 = abs(d / 2)
        k = rng.random()
        if k < 0.45:
            o = [0.0, 0.0, rng.choice([-1, 1]) * r0 * _lg(rng, 1e-3, 1e3)]
        elif k < 0.5:
            o = [0.0, 0.0, 0.0]
        elif k < 0.58:
            o = [r0, 0.0, 0.0] if rng.random() < 0.5 else [0.0, -r0, 0.0]      # on the wire
            kk = rng.random()
            if kk < 0.3:
                o[2] = rng.choice([-1, 1]) * r0 * 1e-17      # |z| < 1e-15 r0: still the on-wire mask (588c868)
            elif kk < 0.5:
                o[2] = rng.choice([-1, 1]) * r0 * 1e-13      # just outside the mask: general branch
        elif k < 0.64:
            d = 0.0
            o = _vec(rng) if rng.random() < 0.5 else [0.0, 0.0, rng.uniform(-1, 1)]
        elif k < 0.7:
            o = [r0, 0.0, r0 * 1e-3]               # next to the wire but z != 0: general branch
        else:
            o = (np.array(_vec(rng)) * r0 * _lg(rng, 0.1, 10)).tolist()
        rows.append(("circle", f, {"o": o, "d": d, "cur": rng.choice([1, -1]) * _lg(rng, 1e-2, 1e2)}))
    return rows


def impl_row(kind, f, a, mods):
    """the implementation on one row -> (3,) ndarray"""
    fld = "B" if f == "FB" else "H"
    obs = np.array([a["o"]], dtype=float)
    with np.errstate(all="ignore"):
        if kind == "dipole":
            r = mods["dipole"].BHJM_dipole(field=fld, observers=obs, moment=np.array([a["m"]], dtype=float))
        elif kind == "sphere":
            r = mods["sphere"].BHJM_magnet_sphere(field=fld, observers=obs, diameter=np.array([a["d"]], dtype=float),
                                                  polarization=np.array([a["P"]], dtype=float))
        elif kind == "polyline":
            r = mods["polyline"].BHJM_current_polyline(field=fld, observers=obs,
                                                       segment_start=np.array([a["p1"]], dtype=float),
                                                       segment_end=np.array([a["p2"]], dtype=float),
                                                       current=np.array([a["cur"]], dtype=float))
        else:
            r = mods["circle"].BHJM_circle(field=fld, observers=obs, diameter=np.array([a["d"]], dtype=float),
                                           current=np.array([a["cur"]], dtype=float))
    return np.asarray(r, dtype=float)[0]


def coq_row(kind, f, a, mu0):
    if kind == "dipole":
        return f"run_dipole {f} {mu0} {cv3(a['o'])} {cv3(a['m'])}"
    if kind == "sphere":
        return f"run_sphere {f} {mu0} {cv3(a['o'])} {fhex(a['d'])} {cv3(a['P'])}"
    if kind == "polyline":
        return f"run_polyline {f} {mu0} {cv3(a['o'])} {cv3(a['p1'])} {cv3(a['p2'])} {fhex(a['cur'])}"
    return f"run_circle {f} {mu0} {cv3(a['o'])} {fhex(a['d'])} {fhex(a['cur'])}"


CASES_HEADER = """From Coq Require Import ZArith List Bool.
From Coq Require Import Floats.PrimFloat.
From MV Require Import Model.CoreNum Model.CoreModel Model.CoreExec.
Import ListNotations.
Open Scope float_scope.
"""

_TOK = re.compile(r"\[|\]|;|[^\[\];\s]+")


def parse_float_lists(out):
    """`= [[a; b]; [c; d]] : list (list float)` -> [[a, b], [c, d]]"""
    m = re.search(r"=\s*(\[.*\])\s*:\s*list \(list float\)", out, flags=re.S)
    if not m:
        return None
    res, cur = [], None
    depth = 0
    for tok in _TOK.findall(m.group(1)):
        if tok == "[":
            depth += 1
            if depth == 2:
                cur = []
        elif tok == "]":
            if depth == 2:
                res.append(cur)
                cur = None
            depth -= 1
        elif tok != ";":
            cur.append({"infinity": float("inf"), "neg_infinity": float("-inf"), "nan": float("nan")}.get(tok)
                       if tok in ("infinity", "neg_infinity", "nan") else float(tok))
    return res


BRANCH_NAMES = {
    "dipole": {0: "general-or-origin"},
    "sphere": {0: "inside", 1: "outside"},
    "polyline": {0: "zero-length", 1: "on-line", 2: "foot-beyond(mask2)", 3: "foot-beyond(mask3)", 4: "foot-between(mask4)"},
    "circle": {0: "zero(r0=0|on-wire|origin)", 1: "on-axis", 2: "general(not modelled)"},
}
RTOL = 1e-9


def correspondence(ctx, rows, tag):
    """run model and implementation on the same rows; returns list of disagreeing rows"""
    import importlib
    mods = {k: importlib.import_module("magpylib._src.fields.field_BH_" + k) for k in
            ("dipole", "sphere", "polyline", "circle")}
    mu0s = {k: float(m.MU0) for k, m in mods.items()}
    bad = []
    chunk = 800
    for ci in range(0, len(rows), chunk):
        part = rows[ci:ci + chunk]
        body = ";\n ".join(coq_row(k, f, a, fhex(mu0s[k])) for k, f, a in part)
        txt = CASES_HEADER + "Eval vm_compute in ([" + body + "]).\n"
        ok, out = ctx.coq_eval(f"c01_{tag}_{ci}", txt, timeout=600)
        res = parse_float_lists(out) if ok else None
        if res is None or len(res) != len(part):
            ctx.add_broken("broken-correspondence", f"c01_{tag}_{ci}", "model evaluation failed:\n" + out[-1500:])
            return None
        for (k, f, a), r in zip(part, res):
            br, mv = int(r[0]), np.array(r[1:])
            iv = impl_row(k, f, a, mods)
            name = BRANCH_NAMES[k].get(br, str(br))
            ctx.bump(f"corr:{k}:{name}")
            ctx.case((k, f, json.dumps(a, sort_keys=True)), nontrivial=True,
                     sample={"model": k, "field": f[1], "args": a, "branch": name,
                             "model_value": mv.tolist(), "implementation": iv.tolist()})
            if k == "circle" and br == 2:
                # general branch: only the mask decision is modelled; the implementation must not
                # have taken one of the modelled (zero / on-axis) exits, which leave Hx = Hy = 0
                agree = bool(np.all(np.isfinite(iv)) and (iv[0] != 0 or iv[1] != 0 or abs(a["o"][0]) + abs(a["o"][1]) == 0))
            else:
                agree = True
                for x, y in zip(mv, iv):
                    if math.isinf(x) or math.isinf(y) or x != x or y != y:
                        agree &= (x == y) or (x != x and y != y)
                    else:
                        scale = max(float(np.max(np.abs(iv[np.isfinite(iv)]))) if np.any(np.isfinite(iv)) else 0.0, 0.0)
                        agree &= abs(x - y) <= RTOL * scale + 1e-300
            if agree:
                ctx.count("traces_validated_against_impl")
            else:
                bad.append({"model": k, "field": f[1], "args": a, "branch": name,
                            "model_value": mv.tolist(), "implementation": iv.tolist()})
    return bad


# =========================================================================== search
# every branch listed here must be visited by at least one JUDGED point of the thorough search (the check fails
# otherwise); the quick tier only reports the ones it did not reach
REQUIRED_BRANCHES = (
    [f"CylinderSegment:case{k}" for k in S.CS_CASES]                      # the 26 special cases of the segment core
    + [f"Cuboid:octant:{a}{b}{c}:{s}" for a in "+-" for b in "+-" for c in "+-" for s in ("inside", "outside")]
    + [f"Cylinder:{r}:{s}" for r in ("small_r", "general_r") for s in ("inside", "outside")]
    + [f"{c}:pol:{p}" for c in ("Cylinder", "CylinderSegment") for p in ("ax", "tv", "tvax")]
    + ["CylinderSegment:full360:solid", "CylinderSegment:full360:ring",
       "CylinderSegment:phi1<-180:inside", "CylinderSegment:phi1<-180:outside",
       "Circle:on-axis", "Circle:general",
       "Polyline:zero-length", "Polyline:on-line", "Polyline:mask2", "Polyline:mask3", "Polyline:mask4",
       "Sphere:inside", "Sphere:outside", "Dipole:outside", "Triangle:outside", "Triangle:in-face-plane"]
    + [f"{c}:{s}" for c in ("Cuboid", "Cylinder", "CylinderSegment", "Tetrahedron", "TriangularMesh")
       for s in ("inside", "outside", )]
    + ["Tetrahedron:in-face-plane", "TriangularMesh:in-face-plane"]
)
REQUIRED_CORR = (["corr:dipole:general-or-origin", "corr:sphere:inside", "corr:sphere:outside",
                  "corr:circle:zero(r0=0|on-wire|origin)", "corr:circle:on-axis", "corr:circle:general(not modelled)"]
                 + ["corr:polyline:" + b for b in ("zero-length", "on-line", "foot-beyond(mask2)", "foot-beyond(mask3)",
                                                   "foot-between(mask4)")])
class _Watchdog(Exception):
    pass


def _alarm(signum, frame):
    raise _Watchdog()


def _work(task):
    """generate (own PRNG per task: deterministic whatever the scheduling) and evaluate one case,
    under a watchdog: a call that does not return is counted, never waited for"""
    import random
    import signal
    cls, sub = task
    signal.signal(signal.SIGALRM, _alarm)
    signal.setitimer(signal.ITIMER_REAL, 120.0)
    case = None
    try:
        case = S.gen_case(random.Random(sub), cls)
        return case, S.evaluate(case)
    except _Watchdog:
        return case, {"status": "skipped", "why": "watchdog: no result within 120 s (C15 territory)"}
    finally:
        signal.setitimer(signal.ITIMER_REAL, 0.0)


def _work_batch(task):
    """one mixed batch (>= 16 observers of different kinds, ONE getB and ONE getH call) -> its failures"""
    import random
    import signal
    cls, sub = task
    signal.signal(signal.SIGALRM, _alarm)
    signal.setitimer(signal.ITIMER_REAL, 300.0)
    try:
        b = S.gen_batch(random.Random(sub), cls)
        res = S.evaluate_batch(b)
        judged = sum(1 for _, _, r in res if r["status"] in ("ok", "fail"))
        return cls, judged, len(res), S.judge_batch(b, res)
    except _Watchdog:
        return cls, 0, 0, []
    finally:
        signal.setitimer(signal.ITIMER_REAL, 0.0)


def _guarded(fn, seconds=300.0):
    import signal
    signal.signal(signal.SIGALRM, _alarm)
    signal.setitimer(signal.ITIMER_REAL, seconds)
    try:
        return fn()
    except _Watchdog:
        return None
    finally:
        signal.setitimer(signal.ITIMER_REAL, 0.0)


def _work_entry(task):
    """one case through the functional interface, a Sensor, a Collection, the top-level call and magpylib.core"""
    import random
    cls, sub = task
    def go():
        case = S.gen_case(random.Random(sub), cls)
        return cls, S.judge_entries(case)
    return _guarded(go) or (cls, [])


def _work_azimuth(task):
    """CylinderSegment, integer-degree side face phij, observer azimuth exactly phij + k degrees"""
    import random
    phij, k, which, sub = task
    def go():
        case = S.azimuth_case(random.Random(sub), phij, k, which)
        if case is None:
            return None, {"status": "skipped", "why": "no admissible azimuth-grid case"}
        return case, S.evaluate(case)
    return _guarded(go, 120.0) or (None, {"status": "skipped", "why": "watchdog"})


def _work_multi(sub):
    """6 interleaved sources (twin, duplicate, three classes) x 6 observers in one call"""
    import random
    def go():
        mc = S.gen_multi(random.Random(sub))
        res = S.evaluate_multi(mc)
        judged = sum(1 for _, _, _, r in res if r["status"] in ("ok", "fail"))
        return judged, S.judge_multi(mc, res)
    return _guarded(go) or (0, [])


def search(ctx, n_per_class, procs=4):
    rng = ctx.rng
    tasks = [(c, rng.getrandbits(48)) for c in S.CLASSES for _ in range(n_per_class)]
    btasks = [(c, rng.getrandbits(48)) for c in S.CLASSES for _ in range(max(3, n_per_class // 40))]
    etasks = [(c, rng.getrandbits(48)) for c in S.CLASSES for _ in range(max(8, n_per_class // 10))]
    mtasks = [rng.getrandbits(48) for _ in range(max(12, n_per_class // 5))]
    # every integer side-face angle in [-359, 360]; quick: one offset k per angle (drawn), thorough: all five
    ks = (0, 180, -180, 360, -360)
    atasks = [(phij, k, which, rng.getrandbits(48)) for phij in range(-359, 361)
              for k in (ks if n_per_class >= 800 else (rng.choice(ks),)) for which in ((0, 1) if n_per_class >= 800 else (rng.randrange(2),))]
    if procs > 1:
        with Pool(procs) as p:
            out = p.map(_work, tasks, chunksize=16)
            bout = p.map(_work_batch, btasks, chunksize=2)
            eout = p.map(_work_entry, etasks, chunksize=4)
            mout = p.map(_work_multi, mtasks, chunksize=2)
            aout = p.map(_work_azimuth, atasks, chunksize=16)
    else:
        out = [_work(t) for t in tasks]
        bout = [_work_batch(t) for t in btasks]
        eout = [_work_entry(t) for t in etasks]
        mout = [_work_multi(t) for t in mtasks]
        aout = [_work_azimuth(t) for t in atasks]
    for cls, fails in eout:
        ctx.bump(f"search:entry-points:{cls}")
        ctx.count("evaluations", 5)
        for sig, what, rp in fails:
            ctx.impl_fail(sig, what, rp)
    for judged, fails in mout:
        ctx.bump("search:multi-source-calls")
        ctx.count("search_multi_pairs_judged", judged)
        ctx.count("evaluations", judged)
        for sig, what, rp in fails:
            ctx.impl_fail(sig, what, rp)
    for cls, judged, nrows, fails in bout:
        ctx.bump(f"search:mixed-batch:{cls}")
        ctx.count("search_batch_rows_judged", judged)
        ctx.count("evaluations", judged)
        for sig, what, rp in fails:
            ctx.impl_fail(sig, what, rp)
    ctx.count("search_azimuth_grid_points", sum(1 for c, r in aout if c is not None and r["status"] in ("ok", "fail")))
    out = [(c, r) for c, r in list(out) + list(aout) if c is not None]
    cases = [c for c, _ in out]
    res = [r for _, r in out]
    nskip = 0
    worst = {}
    for case, r in zip(cases, res):
        if r["status"] == "skipped":
            nskip += 1
            ctx.bump("search:skipped:" + r["why"][:40])
            continue
        reg = S.region(case) if r["status"] != "error" else "?"
        ctx.case(("search", json.dumps(case, sort_keys=True)), nontrivial=True)
        ctx.bump(f"search:{case['cls']}:{reg}")
        if r["status"] == "ok":
            key = f"{case['cls']}:{reg}"
            worst[key] = max(worst.get(key, 0.0), r["rel"])
        failed, sig, what = S.judge(case, r)
        if failed:
            already = any(f["signature"] == sig for f in ctx.impl_failures)
            if not already:
                def fails(c, sig=sig):
                    f2, s2, _ = S.judge(c, S.evaluate(c))
                    return f2 and s2 == sig
                small = S.shrink_case(case, fails)
                r2 = S.evaluate(small)
                _, _, what = S.judge(small, r2)
                case = small
            ctx.impl_fail(sig, what, {"kind": "field-case", "case": case})
    ctx.extra["search_worst_rel_deviation_by_region"] = {k: float(f"{v:.3g}") for k, v in sorted(worst.items())}
    # ---- which formula branches the judged evaluations went through (measured, see c01_search.branches)
    seen = {}
    for case, r in zip(cases, res):
        for b in r.get("branches", []):
            seen[b] = seen.get(b, 0) + 1
    for b, k in seen.items():
        ctx.bump("branch:" + b, k)
    missing = [b for b in REQUIRED_BRANCHES if b not in seen]
    ctx.extra["search_branches_visited"] = dict(sorted(seen.items()))
    ctx.extra["search_branches_required_not_visited"] = missing
    if missing and ctx.tier == "thorough":
        ctx.add_broken("broken-correspondence", "search coverage",
                       "formula branches never visited by a judged search point at thorough tier: " + ", ".join(missing))
    ctx.count("search_points", len(cases) - nskip)
    ctx.count("search_skipped", nskip)


# =========================================================================== main
def run(ctx):
    ctx.extra["rule"] = (
        "correspondence rows: one call of BHJM_dipole / BHJM_magnet_sphere / BHJM_current_polyline (one segment) / "
        "BHJM_circle with random binary64 arguments, distinct by their JSON, every row exercises one named branch "
        "of the model (counts in input_distribution corr:*); search points: one (class, parameters, pose, observer) "
        "each, compared with first-principles quadrature, distinct by their JSON (counts search:<class>:<region>)")
    ctx.trusted += [
        "hand model coq/Model/CoreModel.v (dipole_Hfield, BHJM_dipole, BHJM_magnet_sphere, current_polyline_Hfield + "
        "BHJM_current_polyline for one segment, mask logic and on-axis branch of BHJM_circle) and CoreFrame.v "
        "(getBH_level1), tied to /repo by (a) translate/gen_core.py: AST fingerprints of exactly these functions, "
        "compared inside Coq with the pinned list of Model/CorePinned.v, (b) a float correspondence: the SAME model "
        "instantiated with Coq's primitive binary64 floats (Model/CoreExec.v, vm_compute) against the numpy functions, "
        "rtol 1e-9 of the row's largest component; the correspondence validates the model, it proves nothing",
        "theorems are about the model over Coq's real numbers (NumR); nothing relates NumR to binary64",
        "C01_cuboid_polz_above_is_coulomb_partial is about Gen/GenCuboid.v (translate/gen_cuboid.py, regenerated from /repo on "
        "this run: the six corner-sum terms and the contribution table of magnet_cuboid_Bfield) assembled by "
        "Model/CuboidCore.v (hand-written octant folding and sign matrices, owned and tied to the implementation by the "
        "C05/C13 checks, not by this one) with numpy.arctan2 modelled as CoreNum.Ratan2",
        "the search's reference fields (harness/c01_quad.py: adaptive Gauss-Legendre quadrature of Biot-Savart and of "
        "the Coulombian surface-charge integral, own geometry / inside tests / frame change) are trusted",
        "not modelled, covered by the quadrature search only: magnet_cuboid_Bfield, both cylinder cores, "
        "magnet_cylinder_segment_Hfield, triangle_Bfield, tetrahedron/triangularmesh wrappers, current_circle_Hfield "
        "(Bulirsch cel) off the axis, special_el3",
    ]
    ok = ctx.regen(["GenCore", "GenCuboid"])
    built = ctx.build_props() and ok
    src = open(os.path.join(os.path.dirname(os.path.dirname(os.path.dirname(os.path.abspath(__file__)))),
                            "coq", "Props", "C01.v")).read()
    ctx.partial += re.findall(r"^\s*Theorem\s+(\w*_partial\w*)", src, flags=re.M)
    ctx.refuted += re.findall(r"^\s*Theorem\s+(\w*_refuted\w*)", src, flags=re.M)
    if ctx.tier == "thorough" and built:
        ctx.coqchk("MV.Props.C01")

    def corr():
        rows = gen_rows(ctx.rng, ctx.n(500, 12000))
        bad = correspondence(ctx, rows, ctx.tier)
        miss = [k for k in REQUIRED_CORR if not ctx.dist.get(k)]
        if miss and bad is not None:
            ctx.add_broken("broken-correspondence", "correspondence coverage", "model branches without a row: " + ", ".join(miss))
        if bad:
            ctx.add_broken("broken-correspondence", "CoreModel vs implementation: " +
                           f"{bad[0]['model']}:{bad[0]['branch']}:{bad[0]['field']}", json.dumps(bad[:5]))
        return bad
    run_guarded(ctx, corr, "C01 correspondence")

    big = bool(ctx.broken)
    n = ctx.n(150, 4000) * (6 if big and ctx.tier == "quick" else 2 if big else 1)
    run_guarded(ctx, lambda: search(ctx, n), "C01 quadrature search")


def replay(ctx, obj):
    rp = obj.get("replay", obj)
    if rp.get("kind") == "field-case":
        case = rp["case"]
        r = S.evaluate(case)
        failed, sig, what = S.judge(case, r)
        print("replay:", f"FAILS [{sig}] {what}" if failed else f"property holds on this case ({r.get('status')}, rel={r.get('rel')})")
        if failed:
            print(f"VIOLATION property=C01 replay={obj.get('how_to_rerun', '').split()[-1] if obj.get('how_to_rerun') else 'given'}")
        return 1 if failed else 0
    if rp.get("kind") in ("field-entry", "field-multi"):
        fails = S.judge_entries(rp["case"]) if rp["kind"] == "field-entry" else S.judge_multi(rp["multi"], S.evaluate_multi(rp["multi"]))
        for sig, what, _ in fails:
            print(f"replay: FAILS [{sig}] {what}")
        if not fails:
            print("replay: property holds on this input")
        else:
            print(f"VIOLATION property=C01 replay={obj.get('how_to_rerun', '').split()[-1] if obj.get('how_to_rerun') else 'given'}")
        return 1 if fails else 0
    if rp.get("kind") == "field-batch":
        b = rp["batch"]
        res = S.evaluate_batch(b)
        fails = S.judge_batch(b, res)
        for sig, what, _ in fails:
            print(f"replay: FAILS [{sig}] {what}")
        if not fails:
            print("replay: property holds on every row of this batch")
        else:
            print(f"VIOLATION property=C01 replay={obj.get('how_to_rerun', '').split()[-1] if obj.get('how_to_rerun') else 'given'}")
        return 1 if fails else 0
    print(json.dumps(obj, indent=1)[:3000])
    return 0
