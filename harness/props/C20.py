"""C20 -- style settings resolve by precedence and never leak.

stage 1  GenStyle.v regenerated from /repo (DEFAULTS literal, style schema by introspection + setter ASTs,
         constructor forwarding of `style`, colour table)
stage 2  Props/C20.v
stage 3  correspondence: random histories (constructor / update / assignment / style setter / defaults
         update / reset / resolution) on every object class, model (vm_compute) vs implementation
stage 4  search on the implementation: last-assignment-wins x notations, precedence, reset, independence,
         rejection, constructor sweep -- on every leaf of every family
"""
import copy
import json
import os
import re
import warnings

from harness.common import run_guarded, REPO
from harness.shrink import shrink_list
from translate import gen_style
from translate.gen_style import cstr, cval, coval, clist

warnings.filterwarnings("ignore")

import magpylib as magpy                                          # noqa: E402
from magpylib._src.style import get_style                          # noqa: E402
from magpylib._src.display.display import linearize_dict           # noqa: E402
from magpylib._src.display.traces_generic import MagpyMarkers      # noqa: E402
from magpylib._src.display.traces_utility import get_flatten_objects_properties_recursive   # noqa: E402

# the defaults as they are when the library has just been imported (before anybody touched them)
PRISTINE = copy.deepcopy(magpy.defaults.as_dict())

_G = {}


def G():
    if not _G:
        _G.update(gen_style.collect(REPO, strict=False))   # the search keeps its schema when a source form is unknown
    return _G


# ------------------------------------------------------------------ schema helpers
def leaves(st, p=()):
    """(path, kind, alias target or None) of every leaf property of a schema structure"""
    if st[0] == "leaf":
        yield p, st[1], None
    elif st[0] == "alias":
        yield p, st[2], tuple(st[1])
    else:
        for n, s in st[5]:
            yield from leaves(s, p + (n,))


def subobjects(st, p=()):
    if st[0] == "obj":
        yield p, st
        for n, s in st[5]:
            yield from subobjects(s, p + (n,))


def sub_struct(st, path):
    for k in path:
        st = dict(st[5])[k]
    return st


def alias_props(st, p=(), cname=None):
    """(class name, property path, absolute target path) of every alias property"""
    if st[0] == "alias":
        yield cname, p, p[:-1] + tuple(st[1])
    elif st[0] == "obj":
        for n, s in st[5]:
            yield from alias_props(s, p + (n,), st[1])


def tget(d, p):
    for k in p:
        if not isinstance(d, dict) or k not in d:
            return KeyError
        d = d[k]
    return d


def nest(p, v):
    for k in reversed(p):
        v = {k: v}
    return v


def canon(v):
    """as_dict values -> JSON-able canonical form with exact types"""
    if isinstance(v, dict):
        return {k: canon(x) for k, x in v.items()}
    if isinstance(v, (list, tuple)):
        return [canon(x) for x in v]
    if v is None or isinstance(v, (bool, int, float, str)):
        return v
    return f"<{type(v).__name__}>"


def same(a, b):
    """type-exact equality of canonical trees (True != 1)"""
    if isinstance(a, dict) or isinstance(b, dict):
        return isinstance(a, dict) and isinstance(b, dict) and list(a) == list(b) and \
            all(same(a[k], b[k]) for k in a)
    if isinstance(a, list) or isinstance(b, list):
        return isinstance(a, list) and isinstance(b, list) and len(a) == len(b) and \
            all(same(x, y) for x, y in zip(a, b))
    return type(a) is type(b) and a == b


def tree_diff(a, b, p=()):
    """paths at which two canonical trees differ"""
    if isinstance(a, dict) and isinstance(b, dict):
        out = []
        for k in list(a) + [k for k in b if k not in a]:
            if k not in a or k not in b:
                out.append(p + (k,))
            else:
                out += tree_diff(a[k], b[k], p + (k,))
        return out
    return [] if same(a, b) else [p]


# ------------------------------------------------------------------ value pools per validator kind
def pools(kind):
    """(valid inputs, invalid inputs); valid inputs that are not None"""
    name, allowed = kind
    colors = G()["colors"]
    if name == "KBool":
        return [True, False], [1, "yes", 0.5]
    if name == "KBoolStrict":
        return [True, False], [None, 1, "a"]
    if name == "KNumGe0":
        return [0, 1, 2.5, 3, 0.25], [-1, "1", -0.5]
    if name == "KNumGt0":
        return [1, 2.5, 4, 7], [0, -2, "x"]
    if name == "KNumGt0Strict":
        return [1, 2.5, 4], [None, 0, -2]
    if name == "KUnit":
        return [0, 0.25, 0.5, 1, 0.75], [2, -0.5, "a"]
    if name == "KNum":
        return [-1, 0, 2.5, 3], ["a"]
    if name == "KIntGt0":
        return [1, 5, 10, 20], [0, 2.5, "a", -3]
    if name == "KStr":
        return ["abc", "x y", "", "lbl"], [1, 2.5, True]
    if name == "KToStr":
        return ["lbl", "other", "a_b", "third", ""], []
    if name == "KEnum":
        return [v for v in allowed], ["nope", 17]
    if name == "KColor":
        return [v for v, r in colors if r is not None], [v for v, r in colors if r is None]
    if name == "KColorSeq":
        return [("red", "blue"), ["#ff0000"], ("g", "#abc", "black")], [("red", "notacolor"), 5, ("wrongcolor",)]
    if name == "KFrames":
        return [1, 5, (0, 1), [2, 3], 7], ["a", 2.5, (1, 2.5)]
    if name == "KOutput":
        return ["a.mp4", "b.gif", "dir/c.gif"], ["c.avi", 5]
    if name == "KData":
        return [[]], []
    return [], []


def fixed_points(kind):
    """valid values that are stored exactly as given (used by the oracles, which compare with the input)"""
    name, _ = kind
    vals, _ = pools(kind)
    if name == "KColor":
        return ["red", "blue", "green", "black", "#ff0000", "magenta"]
    if name == "KColorSeq":
        return [("red", "blue"), ("#ff0000",), ("green", "#aabbcc", "black")]
    if name == "KFrames":
        return [1, 5, (0, 1), (2, 3), 7]
    if name == "KData":
        return []
    return vals


# ------------------------------------------------------------------ real objects
def make_obj(cls, style=None, kwargs=None):
    kwargs = kwargs or {}
    kw = {} if style is None else {"style": style}
    kw.update(kwargs)
    if cls == "MagpyMarkers":
        assert not kw
        return MagpyMarkers((0, 0, 0))
    if cls == "Collection":
        return magpy.Collection(**kw)
    if cls == "Sensor":
        return magpy.Sensor(**kw)
    if cls == "CustomSource":
        return magpy.misc.CustomSource(**kw)
    if cls == "TriangularMesh":
        v = [(0, 0, 0), (1, 0, 0), (0, 1, 0), (0, 0, 1)]
        f = [(0, 1, 2), (0, 1, 3), (0, 2, 3), (1, 2, 3)]
        return magpy.magnet.TriangularMesh(polarization=(0, 0, 1), vertices=v, faces=f, **kw)
    for mod in (magpy.magnet, magpy.current, magpy.misc):
        if hasattr(mod, cls):
            return getattr(mod, cls)(**kw)
    raise KeyError(cls)


def public_classes():
    out = []
    for c, _, _ in G()["object_classes"]:
        if not c.startswith("Base"):
            out.append(c)
    return out


def class_struct(cls):
    for c, sc, _ in G()["object_classes"]:
        if c == cls:
            return G()["style_classes"][sc]
    raise KeyError(cls)


def class_families(cls):
    for c, _, f in G()["object_classes"]:
        if c == cls:
            return f
    raise KeyError(cls)


def exc_class(e):
    if isinstance(e, (AttributeError, TypeError)):
        return "EName"
    if isinstance(e, (AssertionError, ValueError)):
        return "EValue"
    return "Other:" + type(e).__name__


def getp(x, p):
    for k in p:
        x = getattr(x, k)
    return x


def apply_set(root, p, v, how):
    """give leaf/sub-object p of `root` (a style or the defaults object) the value v.
    how = (notation, depth): 'attr' | 'under' | 'nested' | 'mixed'; update is called on root.<p[:depth]>"""
    notation, depth = how
    if notation == "attr":
        setattr(getp(root, p[:-1]), p[-1], v)
        return
    depth = min(depth, len(p) - 1)
    target = getp(root, p[:depth])
    rest = p[depth:]
    if notation == "under":
        target.update(**{"_".join(rest): v})
    elif notation == "nested":
        target.update(nest(rest, v))
    else:                                   # first two segments joined, the rest nested
        j = min(2, len(rest))
        target.update({"_".join(rest[:j]): nest(rest[j:], v)})


NOTATIONS = ("attr", "under", "nested", "mixed")


# ------------------------------------------------------------------ histories for the correspondence
def insert_enc(d, rest, v, notation):
    if notation == "under":
        k, val = "_".join(rest), v
    elif notation == "nested":
        k, val = rest[0], nest(rest[1:], v)
    else:
        j = min(2, len(rest))
        k, val = "_".join(rest[:j]), nest(rest[j:], v)
    if k in d and isinstance(d[k], dict) and isinstance(val, dict):
        def merge(a, b):
            for kk, vv in b.items():
                if kk in a and isinstance(a[kk], dict) and isinstance(vv, dict):
                    merge(a[kk], vv)
                else:
                    a[kk] = vv
        merge(d[k], val)
    else:
        d[k] = val


class HistGen:
    def __init__(self, rng):
        self.rng = rng

    def value(self, kind, p_bad=0.1, allow_none=True):
        ok, bad = pools(kind)
        x = self.rng.random()
        if bad and x < p_bad:
            return self.rng.choice(bad)
        if allow_none and x > 0.9 and kind[0] not in ("KBoolStrict", "KNumGt0Strict"):
            return None
        if not ok:
            return None
        return self.rng.choice(ok)

    def leaf(self, st, prefix=()):
        ls = [l for l in leaves(st) if l[0][:len(prefix)] == prefix]
        return self.rng.choice(ls)

    def arg(self, st, base=(), n=None):
        """an update dictionary for the object at `base`, 1..3 leaves, random notations, sometimes a bad name"""
        rng = self.rng
        d = {}
        sub = sub_struct(st, base)
        for _ in range(n or rng.choice([1, 1, 2, 3])):
            p, kind, _ = self.leaf(sub)
            v = self.value(kind)
            if rng.random() < 0.05:
                p = p[:-1] + (rng.choice(["bogus", "colr", "sizes"]),)
            insert_enc(d, p, v, rng.choice(["under", "nested", "mixed"]))
        return d

    def valid_arg(self, st):
        """update dictionary with valid names and values only (used to build a source style object)"""
        d = {}
        for _ in range(self.rng.choice([1, 2, 3])):
            p, kind, _ = self.leaf(st)
            ok, _ = pools(kind)
            if ok:
                insert_enc(d, p, self.rng.choice(ok), self.rng.choice(["under", "nested", "mixed"]))
        return d

    def obj_base(self, st):
        """path of a sub-object (possibly the root)"""
        subs = [p for p, _ in subobjects(st)]
        return self.rng.choice(subs) if self.rng.random() < 0.5 else ()

    def op(self, cls):
        rng = self.rng
        st = class_struct(cls)
        dst = G()["defaults_schema"]
        x = rng.random()
        if x < 0.3:
            base = self.obj_base(st)
            return {"op": "upd", "def": False, "sub": list(base), "arg": self.arg(st, base)}
        if x < 0.5:
            return self.asg(st, False)
        if x < 0.56:
            if cls == "MagpyMarkers":        # internal class without a style setter: plain update instead
                return {"op": "upd", "def": False, "sub": [], "arg": self.arg(st)}
            y = rng.random()
            if y < 0.45:
                return {"op": "setstyle", "arg": self.arg(st)}
            if y < 0.9:
                return {"op": "setstyleinst", "arg": self.valid_arg(st)}
            return {"op": "setstylewrong"}
        if x < 0.68:
            fams = [f for f in class_families(cls) + ["base"] if f in dict(sub_struct(dst, ("display", "style"))[5])]
            if rng.random() < 0.8 and fams:
                base = ("display", "style", rng.choice(fams))
                if rng.random() < 0.5:
                    subs = [p for p, _ in subobjects(sub_struct(dst, base))]
                    base = base + rng.choice(subs)
            else:
                base = rng.choice([(), ("display",), ("display", "animation"), ("display", "style")])
            return {"op": "upd", "def": True, "sub": list(base), "arg": self.arg(dst, base)}
        if x < 0.76:
            return self.asg(dst, True)
        if x < 0.84:
            return {"op": "reset"}
        # resolution: show(obj, style=..., style_x_y=...)
        kw = {}
        if rng.random() < 0.4:
            kw["style"] = {}
            for _ in range(rng.choice([1, 2])):
                p, kind, _ = self.leaf(st)
                insert_enc(kw["style"], p, self.value(kind, 0.05), "nested")
        for _ in range(rng.choice([0, 1, 2])):
            anyst = class_struct(rng.choice(public_classes())) if rng.random() < 0.2 else st
            p, kind, _ = self.leaf(anyst)
            kw["style_" + "_".join(p)] = self.value(kind, 0.05)
        if rng.random() < 0.04:
            kw["style_bogus_x"] = 1
        return {"op": "resolve", "kw": kw}

    def asg(self, st, on_def):
        rng = self.rng
        if rng.random() < 0.7:
            p, kind, _ = self.leaf(st)
            v = self.value(kind)
            if rng.random() < 0.04:
                p = p[:-1] + ("bogus",)
            return {"op": "asg", "def": on_def, "p": list(p), "v": v}
        subs = [(p, s) for p, s in subobjects(st) if p]
        p, s = rng.choice(subs)
        x = rng.random()
        if x < 0.15:
            v = None
        elif x < 0.25:
            v = rng.choice(["txt", 5])
        else:
            v = self.arg(st, p)
        return {"op": "asg", "def": on_def, "p": list(p), "v": v}

    def case(self, cls, nops):
        rng = self.rng
        st = class_struct(cls)
        style, kwargs = None, {}
        if cls != "MagpyMarkers":
            if rng.random() < 0.4:
                style = self.arg(st)
            for _ in range(rng.choice([0, 0, 1, 2])):
                p, kind, _ = self.leaf(st)
                kwargs["style_" + "_".join(p)] = self.value(kind)
        return {"cls": cls, "style": style, "kwargs": kwargs, "ops": [self.op(cls) for _ in range(nops)]}


def impl_step(obj, op):
    """returns (err, extra)"""
    k = op["op"]
    err, extra = None, None
    try:
        if k == "upd":
            root = magpy.defaults if op["def"] else obj.style
            getp(root, op["sub"]).update(copy.deepcopy(op["arg"]))
        elif k == "asg":
            root = magpy.defaults if op["def"] else obj.style
            setattr(getp(root, op["p"][:-1]), op["p"][-1], copy.deepcopy(op["v"]))
        elif k == "setstyle":
            obj.style = copy.deepcopy(op["arg"])
        elif k == "setstyleinst":
            src = make_obj(type(obj).__name__)
            src.style.update(copy.deepcopy(op["arg"]))
            obj.style = src.style
            src.style.update(label="changed-after")      # must not reach obj (a copy was taken)
        elif k == "setstylewrong":
            obj.style = 5
        elif k == "reset":
            magpy.defaults.reset()
        elif k == "resolve":
            kwargs = copy.deepcopy(op["kw"])
            # display.py:92-93
            style_kwargs = {kk: v for kk, v in kwargs.items() if kk.startswith("style")}
            style_kwargs = linearize_dict(style_kwargs, separator="_")
            extra = canon(get_style(obj, magpy.defaults, **style_kwargs).as_dict())
        else:
            raise KeyError(k)
    except Exception as e:   # pylint: disable=broad-except
        err = exc_class(e)
    if k in ("reset",) or (k in ("upd", "asg") and op["def"]):
        extra = canon(magpy.defaults.as_dict())
    return err, extra


def impl_run(case):
    magpy.defaults.__init__()      # DefaultSettings() from scratch (reset() alone is what is under test)
    try:
        obj = make_obj(case["cls"], copy.deepcopy(case["style"]), dict(case["kwargs"]))
        out = []
        err = None
        try:
            obj.style   # pylint: disable=pointless-statement
        except Exception as e:   # pylint: disable=broad-except
            err = exc_class(e)
        out.append((err, canon(obj.style.as_dict()), None))
        for op in case["ops"]:
            err, extra = impl_step(obj, op)
            out.append((err, canon(obj.style.as_dict()), extra))
        return out
    finally:
        magpy.defaults.__init__()


# ------------------------------------------------------------------ Coq text
def ctree(t):
    if isinstance(t, dict):
        return "(Node [" + "; ".join(f"({cstr(k)}, {ctree(v)})" for k, v in t.items()) + "])"
    return f"(Leaf {coval(t)})"


def cdict(d):
    return "[" + "; ".join(f"({cstr(k)}, {ctree(v)})" for k, v in (d or {}).items()) + "]"


def cpath(p):
    return clist([cstr(k) for k in p])


def cop(op):
    k = op["op"]
    b = lambda x: "true" if x else "false"    # noqa: E731
    if k == "upd":
        return f"(OUpd {b(op['def'])} {cpath(op['sub'])} {cdict(op['arg'])})"
    if k == "asg":
        return f"(OAsg {b(op['def'])} {cpath(op['p'])} {ctree(op['v'])})"
    if k == "setstyle":
        return f"(OSetStyle {cdict(op['arg'])})"
    if k == "setstyleinst":
        return f"(OSetStyleInst {cdict(op['arg'])})"
    if k == "setstylewrong":
        return "OSetStyleWrong"
    if k == "reset":
        return "OReset"
    return f"(OResolve {cdict(op['kw'])})"


def cobs(o):
    err, tree, extra = o
    e = "None" if err is None else f"(Some {err})"
    x = "None" if extra is None else f"(Some {ctree(extra)})"
    return f"(mkObs {e} {ctree(tree)} {x})"


def ccase(case, obs):
    return (f"(mkCase {cstr(case['cls'])} {cdict(case['style'])} {cdict(case['kwargs'])}\n  "
            f"{clist([cop(o) for o in case['ops']])}\n  {clist([cobs(o) for o in obs])})")


CASES_HEADER = """From Coq Require Import ZArith List Bool String.
From MV Require Import Lib.STree Model.StyleModel Gen.GenStyle Model.StyleExec.
Import ListNotations. Open Scope string_scope. Open Scope list_scope.
"""


def parse_z_list(out):
    m = re.search(r"=\s*\[(.*?)\]\s*:\s*list Z", out, flags=re.S)
    if not m:
        return None
    body = m.group(1).strip()
    if not body:
        return []
    return [int(x.strip().strip("()%Z ")) for x in body.split(";")]


def model_check(ctx, tag, pairs, chunk=120):
    bad = []
    want = ctx.extra.get("gen_fingerprint")
    for ci in range(0, len(pairs), chunk):
        part = pairs[ci:ci + chunk]
        txt = CASES_HEADER + "Definition cases : list xcase :=\n" + \
            clist([ccase(c, o) for c, o in part], ";\n ") + \
            ".\nEval vm_compute in (failing cases).\nEval vm_compute in gen_fingerprint.\n"
        for attempt in range(3):
            ok, out = ctx.coq_eval(f"c20_{tag}_{ci}", txt)
            m = re.search(r'=\s*"([0-9a-f]{40})"', out)
            if want is None or (m and m.group(1) == want) or attempt == 2:
                break
            # the model was rebuilt from another repository copy by a concurrent run: rebuild ours, try again
            ctx.log("cases evaluated against a GenStyle.vo of another repository copy: rebuilding")
            snap = (list(ctx.theorems), ctx.obligations, ctx.discharged, list(ctx.broken), dict(ctx.assumptions),
                    list(ctx.checker_cmds))
            ctx.regen(["GenStyle"])
            ctx.build_props()
            (ctx.theorems, ctx.obligations, ctx.discharged, ctx.broken, ctx.assumptions, ctx.checker_cmds) = snap
        res = parse_z_list(out) if ok else None
        if res is None:
            ctx.add_broken("broken-correspondence", f"c20_{tag}_{ci}", "model evaluation failed:\n" + out[-1500:])
            return None
        bad += [ci + i for i in res]
    return bad


def model_diff(ctx, case, obs):
    txt = CASES_HEADER + "Eval vm_compute in (case_diff " + ccase(case, obs) + ").\n"
    ok, out = ctx.coq_eval("c20_diff", txt)
    return out[-3000:] if ok else "evaluation failed: " + out[-1500:]


def usable(case, obs):
    """inputs outside the model's value domain (foreign exception classes) are not compared"""
    return all(o[0] in (None, "EName", "EValue") for o in obs) and "<" not in json.dumps([o[1:] for o in obs])


# ------------------------------------------------------------------ the oracles (implementation only)
def alias_trigger(st, leaf, stname):
    """trigger part of a signature: an alias property shadowing this leaf, else the leaf itself"""
    for cname, ap, target in alias_props(st):
        if tuple(leaf) in (tuple(target), tuple(ap)):
            return f"alias:{cname}.{ap[-1]}"
    return f"{stname}:{'.'.join(leaf)}"


def fresh_defaults():
    magpy.defaults.__init__()


def how_list(p, tier_all):
    """notations x depths for a leaf path"""
    out = [("attr", 0)]
    depths = range(len(p)) if tier_all else sorted({0, max(0, len(p) - 2)})
    for d in depths:
        if d >= len(p):
            continue
        out.append(("under", d))
        out.append(("nested", d))
        if len(p) - d >= 3:
            out.append(("mixed", d))
    return out


def two_values(kind, rng):
    vals = fixed_points(kind)
    if len(vals) < 2:
        return None
    a, b = rng.sample(vals, 2)
    return a, b


def oracle_last_wins(ctx, classes, all_hows):
    """second assignment of a leaf (any notation) decides its value; everything else is untouched;
    the three notations give the same style"""
    rng = ctx.rng
    for cls in classes:
        st = class_struct(cls)
        stname = st[1]
        for p, kind, alias in leaves(st):
            tv = two_values(kind, rng)
            if tv is None:
                continue
            v1, v2 = tv
            ref_obj = make_obj(cls)
            apply_set(ref_obj.style, p, v2, ("attr", 0))
            ref = canon(ref_obj.style.as_dict())
            if not same(leaf_value(ref_obj.style, p), canon(v2)):
                ctx.impl_fail(f"assignment/{alias_trigger(st, p, stname)}",
                              f"{cls}: attribute assignment of {'.'.join(p)}={v2!r} on a fresh style reads back "
                              f"{leaf_value(ref_obj.style, p)!r}", {"kind": "last-wins", "cls": cls, "p": list(p), "v1": None,
                                                    "v2": v2, "how1": None, "how2": ["attr", 0]})
                continue
            hows = how_list(p, all_hows)
            pairs = [(h1, h2) for h1 in hows for h2 in hows]
            if not all_hows:
                pairs = [(h1, h2) for h1, h2 in pairs if (h1 == ("attr", 0) and h2[1] == 0) or rng.random() < 0.1]
            for h1, h2 in pairs:
                res = check_last_wins(cls, p, v1, v2, h1, h2, ref)
                ctx.case(("lw", cls, p, h1, h2), True)
                ctx.bump("last-wins:" + h1[0] + ">" + h2[0])
                if res is not None:
                    leaf, what = res
                    ctx.impl_fail(f"last-wins/{alias_trigger(st, leaf, stname)}", f"{cls}: " + what,
                                  {"kind": "last-wins", "cls": cls, "p": list(p), "v1": v1, "v2": v2,
                                   "how1": list(h1), "how2": list(h2)})


def check_last_wins(cls, p, v1, v2, h1, h2, ref=None):
    p = tuple(p)
    if ref is None:
        ref_obj = make_obj(cls)
        apply_set(ref_obj.style, p, v2, ("attr", 0))
        ref = canon(ref_obj.style.as_dict())
    o = make_obj(cls)
    try:
        if h1 is not None:
            apply_set(o.style, p, v1, tuple(h1))
        apply_set(o.style, p, v2, tuple(h2))
    except Exception as e:   # pylint: disable=broad-except
        return p, f"valid assignment {'.'.join(p)}={v2!r} via {h2} raised {type(e).__name__}: {e}"
    got = canon(o.style.as_dict())
    d = tree_diff(got, ref)
    if d:
        leaf = d[0]
        return leaf, (f"after {'.'.join(p)}={v1!r} via {h1} then ={v2!r} via {h2}: {'.'.join(leaf)} is "
                      f"{tget(got, leaf)!r}, expected {tget(ref, leaf)!r}")
    return None


def resolved_style(obj, show_kwargs, container="none"):
    """the style object that the display code resolves for obj when show(<obj or the collection holding it>,
    **show_kwargs) is called (display.py:92-93 + get_flatten_objects_properties_recursive)"""
    kwargs = copy.deepcopy(show_kwargs)
    style_kwargs = {k: v for k, v in kwargs.items() if k.startswith("style")}
    style_kwargs = linearize_dict(style_kwargs, separator="_")
    top, holder = obj, None
    if container == "collection":
        top = holder = magpy.Collection(obj)
    elif container == "nested":
        holder = magpy.Collection(obj)
        top = magpy.Collection(magpy.Sensor(), holder)
    try:
        flat = get_flatten_objects_properties_recursive(
            top, style_kwargs=style_kwargs, colorsequence=magpy.defaults.display.colorsequence)
    finally:
        if holder is not None:
            holder.remove(obj)         # the object can be shown again in another collection
    return flat[obj]["style"]


def leaf_value(style, p):
    """getattr along the path (an alias property reads its target), canonical"""
    return canon(getp(style, p))


def spec_families(cls, p):
    """families of the class that have a default for this leaf, most generic first (subclass order)"""
    dst = sub_struct(G()["defaults_schema"], ("display", "style"))
    fam_structs = dict(dst[5])
    order = dict(G()["family_spec"])[cls]
    return [f for f in order if f in fam_structs and any(l[0] == tuple(p) for l in leaves(fam_structs[f]))]


PRESENT_NAMES = ("show-kwarg", "object", "own-family-default", "generic-family-default", "base-default")


def check_precedence(cls, p, vals, present, kwhow, objhow, container="none"):
    """vals = (kw, obj, own family, generic family, base) values; present = 5 booleans.
    returns None or (leaf, what, got)"""
    p = tuple(p)
    fresh_defaults()
    try:
        dstyle = magpy.defaults.display.style
        dst = sub_struct(G()["defaults_schema"], ("display", "style"))
        fam_structs = dict(dst[5])
        in_base = any(l[0] == p for l in leaves(fam_structs["base"]))
        fams = spec_families(cls, p)
        own = fams[-1] if fams else None
        # every default source of this leaf: absent (None) unless chosen
        for f in fams:
            if f == own:
                v = vals[2] if present[2] else None
            else:
                v = vals[3] if present[3] else None
            apply_set(getattr(dstyle, f), p, v, ("attr", 0))
        if in_base:
            apply_set(dstyle.base, p, vals[4] if present[4] else None, ("attr", 0))
        o = make_obj(cls)
        if present[1]:
            apply_set(o.style, p, vals[1], tuple(objhow))
        kw = {}
        if present[0]:
            if kwhow == "under":
                kw["style_" + "_".join(p)] = vals[0]
            else:
                kw["style"] = nest(p, vals[0])
        before = canon(o.style.as_dict())
        own_value = leaf_value(o.style, p)
        if present[0] and p[0] not in show_keys():
            # not a style argument that show() knows: handled by the show-label oracle
            return None
        res = resolved_style(o, kw, container)
        after = canon(o.style.as_dict())
        # sources in order of precedence; only a value GIVEN to the object is its own value: what the style
        # class constructor put there must not shadow the family / base defaults
        cand = [vals[0] if present[0] else None, vals[1] if present[1] else None,   # a new object has no own value
                vals[2] if present[2] and own else None,
                vals[3] if present[3] and len(fams) > 1 else None,
                vals[4] if present[4] and in_base else None]
        expected = next((c for c in cand if c is not None), None)
        got = leaf_value(res, p)
        if not same(after, before):
            return p, "resolution modified the object's own style", got
        if expected is None and p in (("label",), ("color",)):
            return None            # filled in by the display code (class name / colour cycle / parent colour)
        if not same(got, canon(expected)):
            if not present[0] and not present[1] and own_value is not None and same(got, own_value):
                return p, (f"{'.'.join(p)} of a new {cls} resolved to {got!r}, the constructor default of its style "
                           f"class, expected {expected!r} from the defaults (families {fams}, sources given: "
                           f"{[n for n, ok in zip(PRESENT_NAMES, present) if ok]})"), ("ctor-default", got)
            srcs = [n for n, ok in zip(PRESENT_NAMES, present) if ok]
            return p, (f"{'.'.join(p)} resolved to {got!r}, expected {expected!r} (sources given: {srcs}, "
                       f"values kw/obj/own-family/generic-family/base = {list(vals)!r}, families {fams}, "
                       f"shown {'directly' if container == 'none' else 'inside a ' + container})"), got
        return None
    finally:
        fresh_defaults()


def show_keys():
    """first-level style arguments that show() documents as available: the keys of the family defaults"""
    return {k for fam in G()["DEFAULTS"]["display"]["style"].values() for k in fam}


def leaf_owner(st, p):
    """<StyleClass>.<property> that owns the leaf"""
    return f"{sub_struct(st, tuple(p)[:-1])[1]}.{tuple(p)[-1]}"


def check_fresh_own(cls):
    """a new object has no own style value: every leaf of its style is None (user traces: an empty list)"""
    o = make_obj(cls)
    out = []
    for p, kind, alias in leaves(class_struct(cls)):
        if alias is not None or kind[0] == "KData":
            continue
        v = leaf_value(o.style, p)
        if v is not None:
            out.append((p, v))
    return out


def check_family_default(cls, p, v, when):
    """set the default of the object's own family (else the base default) of this leaf to v: an object without an own
    value - built before or after the change - resolves to v.  returns None or (trigger-kind, what)"""
    p = tuple(p)
    fresh_defaults()
    try:
        dstyle = magpy.defaults.display.style
        dst = sub_struct(G()["defaults_schema"], ("display", "style"))
        fam_structs = dict(dst[5])
        fams = spec_families(cls, p)
        fam = fams[-1] if fams else ("base" if any(l[0] == p for l in leaves(fam_structs["base"])) else None)
        if fam is None:
            return None
        o = make_obj(cls) if when == "object-first" else None
        apply_set(getattr(dstyle, fam), p, v, ("attr", 0))
        if o is None:
            o = make_obj(cls)
        own = leaf_value(o.style, p)
        got = leaf_value(resolved_style(o, {}), p)
        if not same(got, canon(v)):
            kind = "ctor-default" if own is not None and same(got, own) else "family-default"
            return kind, (f"defaults.display.style.{fam}.{'.'.join(p)} = {v!r}, then a {cls} without an own value "
                          f"({when}) resolves {'.'.join(p)} to {got!r}"
                          + (" - the constructor default of its style class" if kind == "ctor-default" else ""))
        return None
    finally:
        fresh_defaults()


def oracle_family_default(ctx, classes):
    rng = ctx.rng
    pr = canon(PRISTINE)
    for cls in classes:
        st = class_struct(cls)
        for p, v in check_fresh_own(cls):
            ctx.impl_fail(f"precedence/ctor-default:{leaf_owner(st, p)}",
                          f"a new {cls} already has its own {'.'.join(p)} = {v!r} (constructor default of the style "
                          f"class): the defaults of its family cannot apply", {"kind": "fresh-own", "cls": cls})
        ctx.case(("fresh-own", cls), True)
        ctx.bump("fresh-own")
        for p, kind, alias in leaves(st):
            if alias is not None or kind[0] == "KData":
                continue
            fams = spec_families(cls, p)
            fam = fams[-1] if fams else "base"
            builtin = tget(pr, ("display", "style", fam) + tuple(p))
            vals = [x for x in fixed_points(kind) if builtin is KeyError or not same(canon(x), builtin)]
            if not vals:
                continue
            for when in ("object-first", "default-first"):
                v = rng.choice(vals)
                try:
                    res = check_family_default(cls, p, v, when)
                except Exception as e:   # pylint: disable=broad-except
                    res = ("family-default", f"{cls} {'.'.join(p)}: raised {type(e).__name__}: {e}")
                ctx.case(("family-default", cls, p, when), True)
                ctx.bump("family-default:" + when)
                if res is not None:
                    trig = ("ctor-default:" + leaf_owner(st, p)) if res[0] == "ctor-default" else \
                        f"family-default:{st[1]}:{'.'.join(p)}"
                    ctx.impl_fail(f"precedence/{trig}", res[1], {"kind": "family-default", "cls": cls, "p": list(p),
                                                                  "v": v, "when": when})


# ------------------------------------------------------------------ a show() that fails part-way must not leak
def check_failed_show():
    """show(other, src, style keywords) raises while src is drawn (a valid user trace that the generic backend
    cannot draw): the objects' own styles are as before, and afterwards defaults still apply"""
    fresh_defaults()
    try:
        def cub():
            return magpy.magnet.Cuboid(polarization=(0, 0, 1), dimension=(1, 1, 1))

        def snap(o):
            d = canon(o.style.as_dict())
            d["model3d"] = dict(d["model3d"], data="<traces>")
            return d
        src, other = cub(), cub()
        src.style.label = "mine"
        src.style.model3d.add_trace(backend="generic", constructor="Surface",
                                    kwargs={"x": [[0, 1], [0, 1]], "y": [[0, 0], [1, 1]], "z": [[0, 0], [0, 0]]})
        before, before_other = snap(src), snap(other)
        kw = {"style_color": "red", "style_opacity": 0.25, "style_path_line_width": 7,
              "style_magnetization_color_north": "blue"}
        try:
            magpy.show(other, src, backend="plotly", return_fig=True, **kw)
            return None                        # nothing failed: not the situation this oracle is about
        except Exception:   # pylint: disable=broad-except
            pass
        for name, o, b in (("the object whose drawing failed", src, before), ("an object drawn before", other, before_other)):
            d = tree_diff(snap(o), b)
            if d:
                leaf = d[0]
                return ("independent/failed-show-leaks-into-object",
                        f"after a show(..., {kw}) that raised, the own style of {name} has {'.'.join(leaf)} = "
                        f"{tget(snap(o), leaf)!r} (before: {tget(b, leaf)!r})")
        src.style.model3d.data = []
        magpy.defaults.display.style.base.opacity = 0.5
        got = leaf_value(resolved_style(src, {}), ("opacity",))
        if not same(got, 0.5):
            return ("precedence/after-failed-show", f"after a failed show(), base default opacity 0.5 resolves to {got!r}")
        return None
    finally:
        fresh_defaults()


def precedence_trigger(st, stname, cls, p, vals, present, kwhow, objhow, container, got):
    """trigger of a precedence failure, from re-runs of the (already minimal) case"""
    if isinstance(got, tuple) and got and got[0] == "ctor-default":
        return "ctor-default:" + leaf_owner(st, p)
    if container != "none":
        try:
            if check_precedence(cls, p, vals, present, kwhow, objhow, "none") is None:
                return "collection-child"
        except Exception:   # pylint: disable=broad-except
            pass
    if present[2] and present[3] and not present[0] and not present[1] and same(got, canon(vals[3])):
        return "family-order:" + stname
    return alias_trigger(st, p, stname)


def oracle_precedence(ctx, classes, full):
    rng = ctx.rng
    for cls in classes:
        st = class_struct(cls)
        stname = st[1]
        for p, kind, alias in leaves(st):
            vals = fixed_points(kind)
            if len(vals) < 2 or kind[0] in ("KBoolStrict", "KData") or alias is not None:
                continue
            # neighbours in the precedence order get different values
            vals = [vals[i % len(vals)] for i in range(5)] if len(vals) < 5 else rng.sample(vals, 5)
            fams = spec_families(cls, p)
            combos = [tuple(bool(m >> i & 1) for i in range(5)) for m in range(32)]
            if len(fams) < 2:
                combos = [c for c in combos if not c[3]]
            forced = [(True, True, False, False, False), (False, False, True, True, False)]
            if not full:
                combos = [c for c in combos if rng.random() < 0.1 or (c in forced and (not c[3] or len(fams) > 1))]
            for present in combos:
                kwhow = rng.choice(["under", "nested"])
                objhow = rng.choice(how_list(p, False))
                container = "none" if cls in ("MagpyMarkers",) else rng.choice(["none", "collection", "nested"])
                try:
                    res = check_precedence(cls, p, vals, present, kwhow, objhow, container)
                except Exception as e:   # pylint: disable=broad-except
                    res = (p, f"resolution raised {type(e).__name__}: {e}", None)
                ctx.case(("prec", cls, p, present, container), True)
                ctx.bump("precedence:" + "".join("1" if x else "0" for x in present))
                ctx.bump("precedence-shown:" + container)
                if res is not None:
                    leaf, what, got = res
                    trig = precedence_trigger(st, stname, cls, p, vals, present, kwhow, objhow, container, got)
                    ctx.impl_fail(f"precedence/{trig}", f"{cls}: " + what,
                                  {"kind": "precedence", "cls": cls, "p": list(p), "vals": list(vals),
                                   "present": list(present), "kwhow": kwhow, "objhow": list(objhow),
                                   "container": container})


def check_show_label(cls, v="lbl"):
    """`label` is a style leaf of every object and a valid style_ keyword of every constructor: a value given
    in the show() call must be the effective one (the property's first clause) - not rejected as invalid"""
    o = make_obj(cls)
    try:
        res = resolved_style(o, {"style_label": v})
    except Exception as e:   # pylint: disable=broad-except
        return f"show({cls}, style_label={v!r}) raised {type(e).__name__}: {str(e).splitlines()[0][:120]}"
    got = leaf_value(res, ("label",))
    return None if same(got, v) else f"show({cls}, style_label={v!r}) resolved label {got!r}"


def check_assign_instance(cls, p, v):
    """obj.style = <style instance>: attribute assignment of a whole style; it must take effect (the last
    assignment wins) or be rejected - and afterwards the two styles must be independent"""
    p = tuple(p)
    src = make_obj(cls)
    apply_set(src.style, p, v, ("attr", 0))
    want = canon(src.style.as_dict())
    o = make_obj(cls)
    try:
        o.style = src.style
    except Exception:   # pylint: disable=broad-except
        return None                    # rejected: allowed
    got = canon(o.style.as_dict())
    if not same(got, want):
        leaf = tree_diff(got, want)[0]
        return ("last-wins/style-instance-ignored",
                f"{cls}: obj.style = <{type(src.style).__name__} with {'.'.join(p)}={v!r}> was accepted but "
                f"{'.'.join(leaf)} is {tget(got, leaf)!r}")
    o.style.label = "changed-after"
    if not same(canon(src.style.as_dict()), want):
        return ("independent/style-instance-shared", f"{cls}: obj.style = other.style shares the style object")
    return None


# ------------------------------------------------------------------ several leaves in ONE call, mixed notations
ENTRIES = ("update-dict", "update-kwargs", "update-dict+kwargs", "ctor-style", "ctor-style+kwargs", "setter",
           "copy", "sub-update", "sub-assign", "set-children")


def enc_item(p, v, notation):
    """(key, value) of one leaf in an update dictionary"""
    if notation == "under":
        return "_".join(p), v
    if notation == "nested":
        return p[0], nest(p[1:], v)
    j = min(2, len(p))
    return "_".join(p[:j]), nest(p[j:], v)


def key_kind(k, v):
    return "nested" if isinstance(v, dict) and "_" not in k else ("mixed" if isinstance(v, dict) else "underscore")


def check_multi(cls, items, entry):
    """items: [(path, value, notation)] for DIFFERENT leaves, given in one call in this key order.
    Expected: the style of a fresh object on which every leaf is assigned by attribute.
    returns None or (lost leaf, what)"""
    items = [(tuple(p), v, n) for p, v, n in items]
    ref = make_obj(cls)
    for p, v, _ in items:
        apply_set(ref.style, p, v, ("attr", 0))
    base = ()
    if entry in ("sub-update", "sub-assign"):
        # common first segment: the call goes to that sub-object
        heads = {p[0] for p, _, _ in items}
        if len(heads) != 1 or any(len(p) < 2 for p, _, _ in items):
            return None
        base = (items[0][0][0],)
        sub = sub_struct(class_struct(cls), base)
        if entry == "sub-assign" and not sub[3] and any(n != "nested" for _, _, n in items):
            return None      # Class(**dict) of a style class without **kwargs takes no underscore keys (ArrowCS)
    pairs = [enc_item(p[len(base):], v, n) for p, v, n in items]
    if len({k for k, _ in pairs}) != len(pairs):
        return None          # two leaves under the same key: a python dict cannot hold them
    arg = dict(pairs)
    try:
        if entry == "update-dict":
            o = make_obj(cls)
            o.style.update(copy.deepcopy(arg))
        elif entry == "update-kwargs":
            o = make_obj(cls)
            o.style.update(**copy.deepcopy(arg))
        elif entry == "update-dict+kwargs":
            o = make_obj(cls)
            o.style.update(copy.deepcopy(dict(pairs[:1])), **copy.deepcopy(dict(pairs[1:])))
        elif entry == "ctor-style":
            o = make_obj(cls, copy.deepcopy(arg))
        elif entry == "ctor-style+kwargs":
            o = make_obj(cls, copy.deepcopy(dict(pairs[:1])), {"style_" + k: copy.deepcopy(v) for k, v in pairs[1:]})
        elif entry == "setter":
            o = make_obj(cls)
            o.style = copy.deepcopy(arg)
        elif entry == "copy":
            o = make_obj(cls).copy(**{"style_" + k: copy.deepcopy(v) for k, v in pairs})
            ref.style.label = o.style.label
        elif entry == "sub-update":
            o = make_obj(cls)
            getp(o.style, base).update(copy.deepcopy(arg))
        elif entry == "sub-assign":
            o = make_obj(cls)
            setattr(o.style, base[0], copy.deepcopy(arg))
        elif entry == "set-children":
            o = make_obj(cls)
            magpy.Collection(magpy.Sensor(), magpy.Collection(o)).set_children_styles(copy.deepcopy(arg))
        else:
            raise KeyError(entry)
    except Exception as e:   # pylint: disable=broad-except
        return items[0][0], f"{cls} {entry} with {arg!r} raised {type(e).__name__}: {str(e)[:150]}"
    got, want = canon(o.style.as_dict()), canon(ref.style.as_dict())
    d = tree_diff(got, want)
    if d:
        leaf = d[0]
        return leaf, (f"{cls} {entry} with {arg!r} in one call: {'.'.join(leaf)} is {tget(got, leaf)!r}, "
                      f"expected {tget(want, leaf)!r}")
    return None


def multi_pattern(items, base=()):
    """how the keys of a (shrunk, two-leaf) call relate, in call order: the later key is a shorter head of the
    earlier one (underscore-then-nested), the other way round (nested-then-underscore), or unrelated"""
    keys = [enc_item(tuple(p)[len(base):], v, n)[0].split("_") for p, v, n in items]
    if len(keys) == 2:
        a, b = keys
        if len(b) < len(a) and a[:len(b)] == b:
            return "underscore-then-nested"
        if len(a) < len(b) and b[:len(a)] == a:
            p1 = tuple(items[0][0])[len(base):]
            if len(b) == len(a) + 1 and len(p1) > len(a) and b[-1] == p1[len(a)]:
                return "nested-then-underscore:same-subkey"      # the second key re-opens a sub-dict of the first
            return "nested-then-underscore"
    return "unrelated-keys"


def oracle_multi(ctx, classes, per_class):
    rng = ctx.rng
    for cls in classes:
        st = class_struct(cls)
        ls = [l for l in leaves(st) if fixed_points(l[1]) and l[2] is None and len(l[0]) >= 2]
        byhead = {}
        for l in ls:
            byhead.setdefault(l[0][0], []).append(l)
        heads = [h for h, v in byhead.items() if len(v) >= 2]
        for entry in ENTRIES:
            if cls == "MagpyMarkers" and entry not in ("update-dict", "update-kwargs", "update-dict+kwargs",
                                                       "sub-update", "sub-assign"):
                continue
            # fixed battery: two leaves with the same head, every notation pair, both orders
            combos = [(a, b) for a in ("under", "nested") for b in ("under", "nested")]
            trials = []
            for n1, n2 in combos:
                h = rng.choice(heads)
                l1, l2 = rng.sample(byhead[h], 2)
                trials.append([(l1[0], rng.choice(fixed_points(l1[1])), n1), (l2[0], rng.choice(fixed_points(l2[1])), n2)])
            # ... and two leaves sharing two segments: nested dict, then a key re-opening its sub-dictionary
            deep = {}
            for l in ls:
                if len(l[0]) >= 3:
                    deep.setdefault(l[0][:2], []).append(l)
            deep = [v for v in deep.values() if len(v) >= 2]
            if deep:
                for n1, n2 in (("nested", "mixed"), ("mixed", "nested")):
                    l1, l2 = rng.sample(rng.choice(deep), 2)
                    trials.append([(l1[0], rng.choice(fixed_points(l1[1])), n1),
                                   (l2[0], rng.choice(fixed_points(l2[1])), n2)])
            for _ in range(per_class):      # random: 2-3 leaves, any heads, any notation
                k = rng.choice([2, 3])
                picks = rng.sample(ls, k)
                trials.append([(l[0], rng.choice(fixed_points(l[1])), rng.choice(["under", "nested", "mixed"]))
                               for l in picks])
            for items in trials:
                try:
                    res = check_multi(cls, items, entry)
                except Exception as e:   # pylint: disable=broad-except
                    res = (items[0][0], f"{cls} {entry}: {type(e).__name__}: {e}")
                ctx.case(("multi", cls, entry, repr(items)), True)
                ctx.bump("one-call:" + entry)
                if res is not None:
                    small = items
                    if len(items) > 2:       # shrink to two leaves
                        for i in range(len(items)):
                            cand = items[:i] + items[i + 1:]
                            try:
                                if check_multi(cls, cand, entry) is not None:
                                    small = cand
                                    break
                            except Exception:   # pylint: disable=broad-except
                                pass
                        res = check_multi(cls, small, entry) or res
                    base = (small[0][0][0],) if entry in ("sub-update", "sub-assign") else ()
                    ctx.impl_fail(f"notations/mixed-call:{multi_pattern(small, base)}", res[1],
                                  {"kind": "multi", "cls": cls, "items": [[list(p), v, n] for p, v, n in small],
                                   "entry": entry})


# ------------------------------------------------------------------ histories with reads in between, against a twin
def check_history_twin(cls, ops):
    """ops: ("set", p, v, how, valid) | ("read", kind).  Every valid single-leaf assignment takes effect, every
    rejected one changes nothing, reads change nothing: the final style equals the style of a fresh twin on which
    the valid assignments were made by attribute, in order"""
    o, twin = make_obj(cls), make_obj(cls)
    fresh_defaults()
    try:
        for i, op in enumerate(ops):
            if op[0] == "read":
                before = canon(o.style.as_dict())
                if op[1] == "as_dict":
                    o.style.as_dict(flatten=True, separator="_")
                elif op[1] == "resolve":
                    resolved_style(o, {}, "none" if cls == "MagpyMarkers" else "collection")
                elif op[1] == "copy" and hasattr(o, "copy"):
                    o.copy().style.update(label="a copy")
                elif op[1] == "reset":
                    magpy.defaults.reset()
                    magpy.defaults.reset()
                elif op[1] == "repr":
                    repr(o.style)
                if not same(canon(o.style.as_dict()), before):
                    return i, f"{cls}: reading the style ({op[1]}) changed it"
                continue
            _, p, v, how, valid = op
            try:
                apply_set(o.style, tuple(p), v, tuple(how))
                raised = False
            except Exception:   # pylint: disable=broad-except
                raised = True
            if valid and raised:
                return i, f"{cls}: valid assignment {'.'.join(p)}={v!r} via {how} raised"
            if not valid and not raised:
                return i, f"{cls}: invalid value {'.'.join(p)}={v!r} via {how} was accepted"
            if valid:
                apply_set(twin.style, tuple(p), v, ("attr", 0))
            got, want = canon(o.style.as_dict()), canon(twin.style.as_dict())
            if not same(got, want):
                leaf = tree_diff(got, want)[0]
                return i, (f"{cls}: after step {i} ({'.'.join(p)}={v!r} via {how}, "
                           f"{'valid' if valid else 'rejected'}): {'.'.join(leaf)} is {tget(got, leaf)!r}, "
                           f"twin has {tget(want, leaf)!r}")
        return None
    finally:
        fresh_defaults()


def oracle_history(ctx, classes, per_class, nops):
    rng = ctx.rng
    for cls in classes:
        st = class_struct(cls)
        ls = [l for l in leaves(st) if fixed_points(l[1])]
        for _ in range(per_class):
            ops = []
            for _ in range(nops):
                x = rng.random()
                if x < 0.25:
                    ops.append(("read", rng.choice(["as_dict", "resolve", "copy", "reset", "repr"])))
                    continue
                p, kind, _ = rng.choice(ls)
                _, bad = pools(kind)
                if bad and x < 0.4:
                    ops.append(("set", list(p), rng.choice(bad), list(rng.choice(how_list(p, False))), False))
                else:
                    ops.append(("set", list(p), rng.choice(fixed_points(kind)),
                                list(rng.choice(how_list(p, False))), True))
            try:
                res = check_history_twin(cls, ops)
            except Exception as e:   # pylint: disable=broad-except
                res = (0, f"{cls}: {type(e).__name__}: {e}")
            ctx.case(("history", cls, repr(ops)), True)
            ctx.bump("history-twin")
            if res is not None:
                def fails(sub):
                    try:
                        return check_history_twin(cls, sub) is not None
                    except Exception:   # pylint: disable=broad-except
                        return False
                small = shrink_list(ops, fails, max_steps=40)
                r2 = check_history_twin(cls, small) or res
                last = small[r2[0]] if r2[0] < len(small) else small[-1]
                trig = ("read:" + last[1]) if last[0] == "read" else \
                    (alias_trigger(st, tuple(last[1]), st[1]) + (":rejected" if not last[4] else ""))
                ctx.impl_fail(f"history/{trig}", r2[1], {"kind": "history", "cls": cls, "ops": small})


# ------------------------------------------------------------------ several resets on one settings object
def check_reset_history(steps):
    """steps: [(p, v, how)]; on ONE fresh DefaultSettings object: change, reset, change, reset, ... and two resets
    in a row: after every reset the settings are the import-time ones"""
    from magpylib._src.defaults.defaults_classes import DefaultSettings
    d = DefaultSettings()
    want = canon(PRISTINE)
    if not same(canon(d.as_dict()), want):
        return 0, (), "a new DefaultSettings() differs from the settings at import time"
    for i, (p, v, how) in enumerate(steps):
        apply_set(d, tuple(p), v, tuple(how))
        d.reset()
        if i % 2:
            d.reset()
        got = canon(d.as_dict())
        diff = tree_diff(got, want)
        if diff:
            leaf = diff[0]
            return i, leaf, (f"change/reset cycle {i + 1} on one settings object ({'.'.join(p)}={v!r} via {how}): "
                             f"after reset() {'.'.join(leaf)} is {tget(got, leaf)!r}, default {tget(want, leaf)!r}")
    return None


def oracle_reset_history(ctx, n, cycles):
    rng = ctx.rng
    dst = G()["defaults_schema"]
    pr = canon(PRISTINE)
    ls = [l for l in leaves(dst) if fixed_points(l[1])]
    for _ in range(n):
        steps = []
        for _ in range(cycles):
            p, kind, _ = rng.choice(ls)
            cur = tget(pr, p)
            vals = [v for v in fixed_points(kind) if cur is KeyError or not same(canon(v), cur)]
            if not vals:
                continue
            steps.append((list(p), rng.choice(vals), list(rng.choice(how_list(p, False)))))
        try:
            res = check_reset_history(steps)
        except Exception as e:   # pylint: disable=broad-except
            res = (0, (), f"raised {type(e).__name__}: {e}")
        ctx.case(("reset-history", repr(steps)), True)
        ctx.bump("reset-history")
        if res is not None:
            i, leaf, what = res
            trig = reset_trigger(leaf) if i == 0 else "after-earlier-reset"
            ctx.impl_fail(f"reset/{trig}", what, {"kind": "reset-history", "steps": steps[:i + 1]})


# ------------------------------------------------------------------ many objects in one show() call
def check_batch(specs, kw):
    """specs: [(cls, p, v) | (cls, None, None)]: objects with one own style value each, shown TOGETHER (free,
    twice, and inside collections): every object's resolved style equals the one resolved when shown alone
    (colour and label, which the display fills in by position, excepted when not set)"""
    fresh_defaults()
    objs = []
    for cls, p, v in specs:
        o = make_obj(cls)
        if p is not None:
            apply_set(o.style, tuple(p), v, ("attr", 0))
        objs.append(o)
    kwargs = copy.deepcopy(kw)
    style_kwargs = linearize_dict({k: v for k, v in kwargs.items() if k.startswith("style")}, separator="_")
    n = len(objs)
    top = [objs[0], magpy.Collection(*objs[1:n // 2 + 1]), objs[0]] + \
        [magpy.Collection(magpy.Collection(*objs[n // 2 + 1:]))]
    flat = get_flatten_objects_properties_recursive(
        *top, style_kwargs=style_kwargs, colorsequence=magpy.defaults.display.colorsequence)
    for o, (cls, p, v) in zip(objs, specs):
        if o not in flat:
            return f"{cls} (object {objs.index(o)} of {n}) has no resolved style when shown with others"
        got = canon(flat[o]["style"].as_dict())
        alone = canon(resolved_style(o, kw).as_dict())
        own = canon(o.style.as_dict())
        for leaf in tree_diff(got, alone):
            if leaf in (("color",), ("label",)) and tget(own, leaf) is None and \
                    "style_" + leaf[0] not in style_kwargs:
                continue
            return (f"{cls} shown together with {n - 1} other objects: {'.'.join(leaf)} resolved to "
                    f"{tget(got, leaf)!r}, alone {tget(alone, leaf)!r} (show arguments {kw!r})")
    return None


def oracle_batch(ctx, classes, n):
    rng = ctx.rng
    cands = [c for c in classes if c not in ("MagpyMarkers", "Collection")]
    for _ in range(n):
        k = rng.choice([4, 5, 7, 16])
        specs = []
        for i in range(k):
            cls = rng.choice(cands) if i % 3 else cands[i % len(cands)]
            if specs and rng.random() < 0.25:
                specs.append(rng.choice(specs))            # a twin: same class, same own value
                continue
            ls = [l for l in leaves(class_struct(cls)) if fixed_points(l[1]) and l[2] is None]
            if rng.random() < 0.8:
                p, kind, _ = rng.choice(ls)
                specs.append((cls, list(p), rng.choice(fixed_points(kind))))
            else:
                specs.append((cls, None, None))
        kw = {}
        for _ in range(rng.choice([0, 1, 2])):
            cls = rng.choice([s[0] for s in specs])
            ls = [l for l in leaves(class_struct(cls)) if fixed_points(l[1]) and l[2] is None
                  and l[0][0] in show_keys()]
            p, kind, _ = rng.choice(ls)
            kw["style_" + "_".join(p)] = rng.choice(fixed_points(kind))
        try:
            res = check_batch(specs, kw)
        except Exception as e:   # pylint: disable=broad-except
            res = f"raised {type(e).__name__}: {e}"
        finally:
            fresh_defaults()
        ctx.case(("batch", repr(specs), repr(kw)), True)
        ctx.bump(f"batch-show:{k}")
        if res is not None:
            ctx.impl_fail("precedence/shown-with-others", res, {"kind": "batch", "specs": specs, "kw": kw})


# ------------------------------------------------------------------ the real show() (plotly figure, no window)
def check_show_figure():
    """precedence through the public entry point: the opacity of the rendered bodies"""
    import warnings as _w
    _w.filterwarnings("ignore")
    fresh_defaults()
    try:
        def cub(**kw):
            return magpy.magnet.Cuboid(polarization=(0, 0, 1), dimension=(1, 1, 1), **kw)

        def opac(*objs, **kw):
            fig = magpy.show(*objs, backend="plotly", return_fig=True, **kw)
            return [tr.opacity for tr in fig.data if tr.type == "mesh3d"]
        magpy.defaults.display.style.magnet.magnetization.show = False
        scenes = {"free": lambda: [cub(), cub(style_opacity=0.9, position=(3, 0, 0))],
                  "collection": lambda: [magpy.Collection(cub(), cub(style_opacity=0.9, position=(3, 0, 0)))],
                  "nested": lambda: [magpy.Collection(cub(), magpy.Collection(cub(style_opacity=0.9,
                                                                                 position=(3, 0, 0))))]}
        for name, mk in scenes.items():
            got = sorted(set(opac(*mk())))
            if got != [0.9, 1]:
                return f"show({name}): body opacities {got}, expected [0.9, 1] (object value over default)"
            for kw in ({"style_opacity": 0.4}, {"style": {"opacity": 0.4}}):
                got = sorted(set(opac(*mk(), **kw)))      # bodies with one style may be merged into one trace
                if got != [0.4]:
                    return f"show({name}, {kw}): body opacities {got}, expected all 0.4 (show argument wins)"
            magpy.defaults.display.style.base.opacity = 0.6
            got = sorted(set(opac(*mk())))
            magpy.defaults.display.style.base.opacity = 1
            if got != [0.6, 0.9]:
                return f"show({name}) with base default opacity 0.6: body opacities {got}, expected [0.6, 0.9]"
        return None
    finally:
        fresh_defaults()


# ------------------------------------------------------------------ aliasing through values handed over
def check_alias(cls, scenario, p, v):
    p = tuple(p)
    a, b = make_obj(cls), make_obj(cls)
    apply_set(a.style, p, v, ("attr", 0))
    want = canon(a.style.as_dict())
    if scenario == "as_dict-passed-back":
        d = a.style.as_dict()
        b.style.update(d)
        a.style.update(d)                                  # its own dict back in: no change
        if not same(canon(a.style.as_dict()), want):
            return "notations/as_dict-round-trip", f"{cls}: style.update(style.as_dict()) changed the style"
        if not same(canon(b.style.as_dict()), want):
            return "notations/as_dict-round-trip", f"{cls}: b.style.update(a.style.as_dict()) does not give a's style"
        a.style.update(label="changed-after")
        d["label"] = "changed-dict"
        if not same(canon(b.style.as_dict()), want):
            return "independent/as_dict-shared", f"{cls}: after b.style.update(a.style.as_dict()) changing a changed b"
    elif scenario == "flat-as_dict":
        b.style.update(**a.style.as_dict(flatten=True, separator="_"))
        if not same(canon(b.style.as_dict()), want):
            leaf = tree_diff(canon(b.style.as_dict()), want)[0]
            return ("notations/as_dict-round-trip",
                    f"{cls}: b.style.update(**a.style.as_dict(flatten=True, separator='_')) differs at {'.'.join(leaf)}")
    elif scenario == "sub-object-instance":
        if len(p) < 2:
            return None
        setattr(b.style, p[0], getattr(a.style, p[0]))
        if not same(tget(canon(b.style.as_dict()), p[:1]), tget(want, p[:1])):
            return ("last-wins/sub-object-instance", f"{cls}: b.style.{p[0]} = a.style.{p[0]} did not take a's values")
        before = canon(b.style.as_dict())
        others = [x for x in fixed_points(dict((l[0], l[1]) for l in leaves(class_struct(cls)))[p])
                  if not same(canon(x), canon(v))]
        apply_set(a.style, p, others[0] if others else None, ("attr", 0))
        if not same(canon(b.style.as_dict()), before):
            return ("independent/sub-object-instance-shared",
                    f"{cls}: after b.style.{p[0]} = a.style.{p[0]}, changing a.style.{'.'.join(p)} changed b's style")
    elif scenario == "set-children-arg":
        d = nest(p, v)
        d0 = copy.deepcopy(d)
        coll = magpy.Collection(b)
        coll.set_children_styles(d, label="kw")
        if d != d0:
            return ("independent/set-children-styles-mutates-arg",
                    f"Collection.set_children_styles(d, label='kw') changed the caller's d to {d!r}")
    return None


ALIAS_SCENARIOS = ("as_dict-passed-back", "flat-as_dict", "sub-object-instance", "set-children-arg")


def oracle_alias(ctx, classes, per_class):
    rng = ctx.rng
    for cls in classes:
        if cls == "MagpyMarkers":
            continue
        st = class_struct(cls)
        ls = [l for l in leaves(st) if fixed_points(l[1]) and l[2] is None and l[0] != ("label",)]
        for scenario in ALIAS_SCENARIOS:
            for _ in range(per_class):
                p, kind, _ = rng.choice(ls)
                v = rng.choice(fixed_points(kind))
                try:
                    res = check_alias(cls, scenario, p, v)
                except Exception as e:   # pylint: disable=broad-except
                    res = ("independent/raises:" + scenario, f"{cls}: {type(e).__name__}: {e}")
                ctx.case(("alias", cls, scenario, p), True)
                ctx.bump("aliasing:" + scenario)
                if res is not None:
                    ctx.impl_fail(res[0], res[1], {"kind": "alias", "cls": cls, "scenario": scenario,
                                                   "p": list(p), "v": v})


def check_lazy_assign(cls, p, v_ctor, v, q, w, form, ctor_mode):
    """the object is BUILT with style arguments (leaf p = v_ctor, leaf q = w) and its style is never read; then a
    style is assigned (instance / dict through the setter / update): the assignment is the last one and wins,
    exactly as if the style had been read in between.  returns None or what"""
    p, q = tuple(p), tuple(q)

    def build():
        if ctor_mode == "kwargs":
            return make_obj(cls, None, {"style_" + "_".join(p): v_ctor, "style_" + "_".join(q): w})
        d = nest(p, v_ctor)
        d2 = nest(q, w)
        return make_obj(cls, {**d, **{k: x for k, x in d2.items() if k not in d}} if p[0] != q[0]
                        else nest(p, v_ctor))
    twin = build()
    twin.style              # pylint: disable=pointless-statement
    o = build()             # style NOT read
    if form == "instance":
        src = make_obj(cls)
        apply_set(src.style, p, v, ("attr", 0))
        o.style = src.style
        twin.style = src.style
    elif form == "dict":
        o.style = nest(p, v)
        twin.style = nest(p, v)
    else:
        o.style.update(nest(p, v))
        twin.style.update(nest(p, v))
    got, want = canon(o.style.as_dict()), canon(twin.style.as_dict())
    if not same(leaf_value(twin.style, p), canon(v)):
        return f"{cls}: {form} assignment of {'.'.join(p)}={v!r} after construction did not win even with the style read"
    if not same(got, want):
        leaf = tree_diff(got, want)[0]
        return (f"{cls} built with style {ctor_mode} ({'.'.join(p)}={v_ctor!r}, {'.'.join(q)}={w!r}), style never read, then "
                f"{form} assignment of {'.'.join(p)}={v!r}: {'.'.join(leaf)} is {tget(got, leaf)!r}, but "
                f"{tget(want, leaf)!r} when the style was read before the assignment")
    return None


def oracle_lazy(ctx, classes, per_class):
    rng = ctx.rng
    for cls in classes:
        if cls == "MagpyMarkers":
            continue
        ls = [l for l in leaves(class_struct(cls)) if len(fixed_points(l[1])) >= 2 and l[2] is None
              and l[0] != ("label",)]
        for form in ("instance", "dict", "update"):
            for ctor_mode in ("kwargs", "dict"):
                for _ in range(per_class):
                    (p, kind, _), (q, kind2, _) = rng.sample(ls, 2)
                    v_ctor, v = rng.sample(fixed_points(kind), 2)
                    w = rng.choice(fixed_points(kind2))
                    try:
                        res = check_lazy_assign(cls, p, v_ctor, v, q, w, form, ctor_mode)
                    except Exception as e:   # pylint: disable=broad-except
                        res = f"{cls}: {type(e).__name__}: {e}"
                    ctx.case(("lazy", cls, form, ctor_mode, p, q), True)
                    ctx.bump("lazy-constructor-style:" + form)
                    if res is not None:
                        ctx.impl_fail(f"last-wins/lazy-constructor-style:{form}", res,
                                      {"kind": "lazy", "cls": cls, "p": list(p), "v_ctor": v_ctor, "v": v,
                                       "q": list(q), "w": w, "form": form, "ctor_mode": ctor_mode})


def oracle_extra(ctx, classes, per_class):
    rng = ctx.rng
    for cls in classes:
        res = check_show_label(cls)
        ctx.case(("show-label", cls), True)
        ctx.bump("show-label")
        if res is not None:
            ctx.impl_fail("precedence/show-rejects:label", res, {"kind": "show-label", "cls": cls})
        if cls == "MagpyMarkers":
            continue
        st = class_struct(cls)
        ls = [l for l in leaves(st) if fixed_points(l[1]) and l[0] != ("label",)]
        for _ in range(per_class):
            p, kind, _ = rng.choice(ls)
            v = rng.choice(fixed_points(kind))
            try:
                res = check_assign_instance(cls, p, v)
            except Exception as e:   # pylint: disable=broad-except
                res = ("last-wins/style-instance-raises", f"{cls}: {type(e).__name__}: {e}")
            ctx.case(("assign-instance", cls, p), True)
            ctx.bump("assign-instance")
            if res is not None:
                ctx.impl_fail(res[0], res[1], {"kind": "assign-instance", "cls": cls, "p": list(p), "v": v})


def in_defaults_literal(p):
    return tget(G()["DEFAULTS"], p) is not KeyError


def check_reset(p, v, how, pre=None):
    """change one leaf of the defaults, reset(); returns None or (leaf, what)"""
    fresh_defaults()
    try:
        if not same(canon(magpy.defaults.as_dict()), canon(PRISTINE)):
            return (), "DefaultSettings() differs from the defaults at import time"
        for q, w in pre or []:
            apply_set(magpy.defaults, tuple(q), w, ("attr", 0))
        apply_set(magpy.defaults, tuple(p), v, tuple(how))
        magpy.defaults.reset()
        got = canon(magpy.defaults.as_dict())
        d = tree_diff(got, canon(PRISTINE))
        if d:
            leaf = d[0]
            return leaf, (f"after defaults.{'.'.join(p)}={v!r} via {how} and defaults.reset(): {'.'.join(leaf)} is "
                          f"{tget(got, leaf)!r}, default is {tget(canon(PRISTINE), leaf)!r}")
        return None
    finally:
        fresh_defaults()


def reset_trigger(leaf):
    dst = G()["defaults_schema"]
    for cname, ap, target in alias_props(dst):
        if tuple(leaf) in (tuple(target), tuple(ap)):
            return f"alias:{cname}.{ap[-1]}"
    if not in_defaults_literal(leaf):
        return "leaf-not-in-DEFAULTS"
    return "DefaultSettings:" + ".".join(leaf)


def oracle_reset(ctx, full):
    rng = ctx.rng
    dst = G()["defaults_schema"]
    # the hard-coded DEFAULTS are what a fresh DefaultSettings holds (up to colour canonicalisation)
    pr = canon(PRISTINE)
    from magpylib._src.defaults.defaults_utility import color_validator
    for p, kind, alias in leaves(dst):
        lit = tget(G()["DEFAULTS"], p)
        if lit is KeyError:
            continue
        have = tget(pr, p)
        cands = [canon(lit)]
        try:
            if kind[0] == "KColor":
                cands.append(canon(color_validator(lit)))
            if kind[0] == "KColorSeq":
                cands.append(canon(tuple(color_validator(c) for c in lit)))
        except Exception:   # pylint: disable=broad-except
            pass
        ctx.case(("defaults-literal", p), True)
        if not any(same(have, c) for c in cands):
            ctx.impl_fail("reset/literal:" + ".".join(p), f"fresh defaults hold {have!r} at {'.'.join(p)}, "
                          f"DEFAULTS says {lit!r}", {"kind": "literal", "p": list(p)})
    for p, kind, alias in leaves(dst):
        cur = tget(pr, p)
        vals = [v for v in fixed_points(kind) if not same(canon(v), cur)]
        if not vals:
            continue
        hows = how_list(p, False)
        if not full:
            hows = [("attr", 0), rng.choice(hows[1:])]
        for how in hows:
            v = rng.choice(vals)
            try:
                res = check_reset(p, v, how)
            except Exception as e:   # pylint: disable=broad-except
                res = (p, f"raised {type(e).__name__}: {e}")
            ctx.case(("reset", p, how), True)
            ctx.bump("reset:" + how[0])
            if res is not None:
                leaf, what = res
                ctx.impl_fail(f"reset/{reset_trigger(leaf)}", what,
                              {"kind": "reset", "p": list(p), "v": v, "how": list(how)})


def check_independent(cls, p, v, how, scenario):
    """returns None or (clause, what)"""
    p = tuple(p)
    if scenario == "two-objects":
        a, b = make_obj(cls), make_obj(cls)
        b.style   # pylint: disable=pointless-statement
        before = canon(b.style.as_dict())
        apply_set(a.style, p, v, tuple(how))
        if not same(canon(b.style.as_dict()), before):
            return "independent/two-objects", f"changing {'.'.join(p)} on one {cls} changed another {cls}"
    elif scenario in ("copy-then-change-original", "copy-then-change-copy"):
        a = make_obj(cls)
        a.style.label = "orig"
        c = a.copy()
        x, y = (a, c) if scenario == "copy-then-change-original" else (c, a)
        before = canon(y.style.as_dict())
        apply_set(x.style, p, v, tuple(how))
        if not same(canon(y.style.as_dict()), before):
            return "independent/" + scenario, f"{cls}: changing {'.'.join(p)} on one side of a copy changed the other"
    elif scenario == "shared-constructor-dict":
        # three objects from ONE dict (style= only: the objects keep the caller's dict until first read), read in
        # turn: each gets the style of an object built from its own copy, the caller's dict stays as it was
        d = nest(p, v)
        d["label"] = "shared"
        d0 = copy.deepcopy(d)
        want = canon(make_obj(cls, copy.deepcopy(d0)).style.as_dict())
        objs = [make_obj(cls, d) for _ in range(3)]
        for i in (1, 0, 2):                       # read the second one first
            got = canon(objs[i].style.as_dict())
            if d != d0:
                return ("independent/shared-constructor-dict:read-changes-callers-dict",
                        f"{cls}: three objects built with style=d; reading the style of one of them changed the "
                        f"caller's d from {d0!r} to {d!r}")
            if not same(got, want):
                leaf = tree_diff(got, want)[0]
                return ("independent/shared-constructor-dict",
                        f"{cls}: three objects built with style=d ({d0!r}), read in turn: object {i} has "
                        f"{'.'.join(leaf)} = {tget(got, leaf)!r}, expected {tget(want, leaf)!r}")
        before = canon(objs[1].style.as_dict())
        objs[0].style.update(label="changed")
        if not same(canon(objs[1].style.as_dict()), before) or d != d0:
            return "independent/shared-constructor-dict", f"{cls}: objects built from one style dict share state"
    elif scenario == "constructor-kwarg-next-to-dict":
        # a second object built from the same dict plus a style_ keyword must not change the first
        ref = canon(make_obj(cls, {"label": "mine"}).style.as_dict())
        d = {"label": "mine"}
        a = make_obj(cls, d)
        make_obj(cls, d, {"style_" + "_".join(p): v})
        got = canon(a.style.as_dict())
        if not same(got, ref):
            leaf = tree_diff(got, ref)[0]
            return ("independent/constructor-mutates-style-dict",
                    f"{cls}(style=d) then {cls}(style=d, style_{'_'.join(p)}={v!r}): the first object's "
                    f"{'.'.join(leaf)} became {tget(got, leaf)!r} (the caller's dict d was modified and is still "
                    f"referenced by the first object)")
    elif scenario == "update-arg-reused":
        # update(d, key=..) must not write into the caller's nested dict d (it would leak into the next object)
        if len(p) < 2:
            return None
        a, b = make_obj(cls), make_obj(cls)
        ref = make_obj(cls)
        d = {p[0]: {}}
        ref.style.update(copy.deepcopy(d))
        a.style.update(d, **{"_".join(p): v})
        b.style.update(d)
        got, want = canon(b.style.as_dict()), canon(ref.style.as_dict())
        if not same(got, want):
            leaf = tree_diff(got, want)[0]
            return ("independent/update-mutates-nested-arg",
                    f"{cls}: a.style.update(d, {'_'.join(p)}={v!r}) wrote into d; b.style.update(d) then set "
                    f"{'.'.join(leaf)}={tget(got, leaf)!r}")
    elif scenario == "defaults-vs-object":
        fresh_defaults()
        try:
            a = make_obj(cls)
            a.style   # pylint: disable=pointless-statement
            before = canon(a.style.as_dict())
            dbefore = canon(magpy.defaults.as_dict())
            resolved_style(a, {"style_" + "_".join(p): v})
            apply_set(a.style, p, v, tuple(how))
            if not same(canon(magpy.defaults.as_dict()), dbefore):
                return "independent/object-to-defaults", f"{cls}: setting/resolving an object style changed the defaults"
            fam = [f for f in class_families(cls) if hasattr(magpy.defaults.display.style, f)]
            b = make_obj(cls)
            before = canon(b.style.as_dict())
            for f in fam:
                try:
                    apply_set(getattr(magpy.defaults.display.style, f), p, v, ("attr", 0))
                except AttributeError:
                    pass
            if not same(canon(b.style.as_dict()), before):
                return "independent/defaults-to-object", f"{cls}: changing family defaults changed an object's own style"
        finally:
            fresh_defaults()
    return None


SCENARIOS = ("two-objects", "copy-then-change-original", "copy-then-change-copy", "shared-constructor-dict",
             "constructor-kwarg-next-to-dict", "update-arg-reused", "defaults-vs-object")


def oracle_independent(ctx, classes, per_class):
    rng = ctx.rng
    for cls in classes:
        if cls == "MagpyMarkers":
            continue
        st = class_struct(cls)
        ls = [l for l in leaves(st) if len(fixed_points(l[1])) >= 1 and l[0] != ("label",)]
        for scenario in SCENARIOS:
            for _ in range(per_class):
                p, kind, _ = rng.choice(ls)
                v = rng.choice(fixed_points(kind))
                how = rng.choice(how_list(p, False))
                try:
                    res = check_independent(cls, p, v, how, scenario)
                except Exception as e:   # pylint: disable=broad-except
                    if scenario in ("shared-constructor-dict", "constructor-kwarg-next-to-dict"):
                        res = (f"constructor-style/{cls}", f"{cls}(style=dict) raised {type(e).__name__}: {e}")
                    else:
                        res = ("independent/raises:" + scenario, f"{cls}: {type(e).__name__}: {e}")
                ctx.case(("indep", cls, scenario, p, how), True)
                ctx.bump("independent:" + scenario)
                if res is not None:
                    ctx.impl_fail(res[0], res[1], {"kind": "independent", "cls": cls, "p": list(p), "v": v,
                                                   "how": list(how), "scenario": scenario})


def check_reject(cls, p, v, how, bad_name):
    """an invalid name or value must raise and leave the style as it was; returns None or (clause, what)"""
    p = tuple(p)
    o = make_obj(cls)
    o.style   # pylint: disable=pointless-statement
    before = canon(o.style.as_dict())
    try:
        apply_set(o.style, p, v, tuple(how))
    except Exception:   # pylint: disable=broad-except
        after = canon(o.style.as_dict())
        if not same(after, before):
            return "rejected-unchanged", f"{cls}: rejected {'.'.join(p)}={v!r} via {how} still changed the style"
        return None
    return ("rejects-name" if bad_name else "rejects-value",
            f"{cls}: invalid {'name' if bad_name else 'value'} {'.'.join(p)}={v!r} via {how} was accepted")


def oracle_reject(ctx, classes, full):
    rng = ctx.rng
    for cls in classes:
        st = class_struct(cls)
        stname = st[1]
        for p, kind, alias in leaves(st):
            _, bad = pools(kind)
            ok, _ = pools(kind)
            trials = [(p, b, False) for b in bad]
            if ok:
                trials.append((p[:-1] + ("bogus",), ok[0], True))
                if len(p) > 1:
                    trials.append((p[:-2] + ("bogus", p[-1]), ok[0], True))
            if not full:
                trials = [t for t in trials if rng.random() < 0.35]
            for q, v, bad_name in trials:
                hows = how_list(q, False)
                how = rng.choice(hows) if not full else None
                for h in ([how] if how else hows):
                    if bad_name and h[0] == "attr" and len(q) > 1 and q[-2] == "bogus":
                        pass
                    try:
                        res = check_reject(cls, q, v, h, bad_name)
                    except AttributeError:
                        res = None          # the path itself does not exist: rejected
                    ctx.case(("rej", cls, q, repr(v), h), True)
                    ctx.bump("reject:" + ("name" if bad_name else "value") + ":" + h[0])
                    if res is not None:
                        trig = "name" if bad_name else f"{kind[0]}:{alias_trigger(st, p, stname)}"
                        ctx.impl_fail(f"{res[0]}/{trig}", res[1],
                                      {"kind": "reject", "cls": cls, "p": list(q), "v": v, "how": list(h),
                                       "bad_name": bad_name})


def check_ctor(cls, p, v, mode):
    """Class(style=..)/Class(style_x=..) gives the same style as assignment on a fresh object"""
    p = tuple(p)
    ref = make_obj(cls)
    apply_set(ref.style, p, v, ("attr", 0))
    want = canon(ref.style.as_dict())
    try:
        if mode == "dict":
            o = make_obj(cls, nest(p, v))
        elif mode == "kwarg":
            o = make_obj(cls, None, {"style_" + "_".join(p): v})
        elif mode == "both":
            o = make_obj(cls, {"label": "both"}, {"style_" + "_".join(p): v})
            ref.style.label = "both"
            want = canon(ref.style.as_dict())
            if p == ("label",):
                return None
        elif mode == "setter":
            o = make_obj(cls)
            o.style = nest(p, v)
        else:
            o = make_obj(cls).copy(**{"style_" + "_".join(p): v})
            ref.style.label = o.style.label
            want = canon(ref.style.as_dict())
            if p == ("label",):
                return None
        got = canon(o.style.as_dict())
    except Exception as e:   # pylint: disable=broad-except
        return f"{cls}(style {mode}: {'.'.join(p)}={v!r}) raised {type(e).__name__}: {str(e)[:200]}"
    if not same(got, want):
        leaf = tree_diff(got, want)[0]
        return (f"{cls}(style {mode}: {'.'.join(p)}={v!r}): {'.'.join(leaf)} is {tget(got, leaf)!r}, "
                f"expected {tget(want, leaf)!r}")
    return None


def oracle_ctor(ctx, classes, per_class):
    rng = ctx.rng
    for cls in classes:
        if cls == "MagpyMarkers":
            continue
        st = class_struct(cls)
        ls = [l for l in leaves(st) if fixed_points(l[1])]
        for mode in ("dict", "kwarg", "both", "setter", "copy"):
            picks = [(("color",), "red")] + [(l[0], rng.choice(fixed_points(l[1])))
                                             for l in (rng.choice(ls) for _ in range(per_class))]
            for p, v in picks:
                res = check_ctor(cls, p, v, mode)
                ctx.case(("ctor", cls, mode, p), True)
                ctx.bump("constructor:" + mode)
                if res is not None:
                    ctx.impl_fail(f"constructor-style/{cls}", res,
                                  {"kind": "ctor", "cls": cls, "p": list(p), "v": v, "mode": mode})


# ------------------------------------------------------------------ Gen/GenStyle.v is shared with concurrent runs
def expected_fingerprint():
    m = re.search(r'gen_fingerprint : string := "([0-9a-f]+)"', gen_style.generate(REPO))
    return m.group(1)


def compiled_fingerprint(ctx):
    ok, out = ctx.coq_eval("c20_fp", "From Coq Require Import String.\nFrom MV Require Import Gen.GenStyle.\n"
                                     "Eval vm_compute in gen_fingerprint.\n")
    m = re.search(r'=\s*"([0-9a-f]+)"', out)
    return m.group(1) if ok and m else None


def regen_and_build(ctx):
    """regen + build; if another run (on another copy of the repository) rewrote Gen/GenStyle.v in between,
    the compiled fingerprint differs from ours: do it again"""
    ok = built = False
    for attempt in range(4):
        snap = (list(ctx.theorems), ctx.obligations, ctx.discharged, list(ctx.broken), dict(ctx.assumptions),
                list(ctx.checker_cmds), list(ctx.notes))
        ok = ctx.regen(["GenStyle"])
        built = ctx.build_props() and ok
        if not ok:
            return ok, built
        want = expected_fingerprint()
        if compiled_fingerprint(ctx) == want or attempt == 3:
            ctx.extra["gen_fingerprint"] = want
            return ok, built
        ctx.log("Gen/GenStyle.vo was rebuilt by a concurrent run on another repository copy: regenerating")
        (ctx.theorems, ctx.obligations, ctx.discharged, ctx.broken, ctx.assumptions, ctx.checker_cmds,
         ctx.notes) = snap
    return ok, built


# ------------------------------------------------------------------ main
def forwarding_obligation(ctx):
    """GenStyle.ctor_style: every public constructor hands `style` to BaseGeo.__init__'s style parameter"""
    for cls, ok, detail in G()["ctor_style"]:
        ctx.obligations += 1
        if ok:
            ctx.discharged += 1
        else:
            ctx.add_broken("broken-translator", f"GenStyle.ctor_style[{cls}]", detail)


def run(ctx):
    ctx.extra["rule"] = (
        "correspondence: a case is one object class + constructor style arguments + a history of update / "
        "assignment / style setter / defaults update / reset / resolution operations; after every operation the "
        "error class, obj.style.as_dict(), and the defaults' or the resolved style's as_dict() are compared "
        "type-exactly with the Coq model; distinct by canonical JSON, non-trivial if it has at least one operation. "
        "search: one evaluation = one oracle check (last-wins / precedence / reset / independence / rejection / "
        "constructor) on a real object for one leaf, one notation pair, one source combination")
    ctx.trusted += [
        "translator translate/gen_style.py: DEFAULTS by ast.literal_eval; style schema by introspection of the "
        "classes of /repo (dir() order) with every getter/setter AST matched against a closed table of shapes "
        "(fail closed); constructor forwarding of `style`; colour table = color_validator evaluated on a fixed pool",
        "hand model coq/Model/StyleModel.v of magic_to_dict / linearize_dict / update_nested_dict / "
        "MagicProperties.__init__,update,as_dict / validate_property_class / get_style / DefaultSettings.reset / "
        "BaseGeo style handling, tied by the history correspondence (harness/props/C20.py)",
        "values outside the generated pools (arbitrary colours, Trace3d data, non-str labels) are outside the model",
        "coqchk (thorough tier) re-checks Proofs/StyleGen.vo and the model definitions only; the reflexive "
        "schema-wide theorems (vm_compute) are checked by coqc alone",
    ]
    ok, built = regen_and_build(ctx)
    if ok:
        run_guarded(ctx, lambda: forwarding_obligation(ctx), "C20 forwarding table")
    if ctx.tier == "thorough" and built:
        # coqchk has no VM: it would re-evaluate the reflexive schema-wide proofs (minutes under vm_compute)
        # with lazy conversion and not finish; it re-checks the inductive part (and every model definition)
        ctx.coqchk("MV.Proofs.StyleGen")
    ctx.refuted = [t for t in ctx.theorems if t.endswith("_refuted")
                   and not (t == "precedence_show_label_refuted" and ok and "label" in show_keys())]
    ctx.partial = [t for t in ctx.theorems if t.endswith("_partial")]

    try:
        classes = public_classes()
    except Exception as e:   # pylint: disable=broad-except
        classes = []           # not even the schema can be read: nothing to enumerate
        ctx.log(f"no schema for the search: {type(e).__name__}: {str(e)[:200]}")

    def corr():
        gen = HistGen(ctx.rng)
        cases = []
        per = ctx.n(10, 60)
        for cls in classes:
            for _ in range(per):
                cases.append(gen.case(cls, ctx.rng.randint(1, 6)))
        pairs = []
        skipped = 0
        for c in cases:
            try:
                obs = impl_run(c)
            except Exception as e:   # pylint: disable=broad-except
                # the constructor itself raised on style arguments (errors in style values only surface at .style)
                ctx.impl_fail(f"constructor-style/{c['cls']}",
                              f"{c['cls']}(style={c['style']!r}, **{c['kwargs']!r}) raised {type(e).__name__}: {e}",
                              {"kind": "ctor-history", "cls": c["cls"], "style": c["style"], "kwargs": c["kwargs"]})
                continue
            if not usable(c, obs):
                skipped += 1
                ctx.bump("corr:skipped-foreign-exception")
                continue
            pairs.append((c, obs))
            ctx.case(json.dumps(c, sort_keys=True, default=str), len(c["ops"]) > 0)
            for op in c["ops"]:
                ctx.bump("corr-op:" + op["op"] + (":defaults" if op.get("def") else ""))
            for o in obs:
                ctx.bump("corr-outcome:" + (o[0] or "ok"))
        if skipped * 10 > len(cases):
            ctx.add_broken("broken-correspondence", "C20 generator",
                           f"{skipped}/{len(cases)} histories left the model's value domain")
        mid = pairs[len(pairs) // 2]
        ctx.samples.append({"case": mid[0], "observations": [[o[0], "<as_dict>", o[2] is not None] for o in mid[1]]})
        if not built:
            return
        bad = model_check(ctx, ctx.tier, pairs)
        if bad is None:
            return
        ctx.count("traces_validated_against_impl", len(pairs) - len(bad))
        for bi in bad[:3]:
            c, obs = pairs[bi]
            n = len(c["ops"])
            while n > 0:        # shortest failing prefix
                c2 = dict(c, ops=c["ops"][:n - 1])
                r = model_check(ctx, "shrink", [(c2, obs[:n])])
                if not r:
                    break
                n -= 1
            c2 = dict(c, ops=c["ops"][:n])
            ctx.add_broken("broken-correspondence", "StyleModel vs implementation",
                           json.dumps(c2, default=str) + "\nmodel says: " + model_diff(ctx, c2, obs[:n + 1]))

    if classes and ok:
        run_guarded(ctx, corr, "C20 correspondence")

    if not classes:      # the translator failed: search with the last good schema is impossible -> static list
        return
    big = bool(ctx.broken) or ctx.tier == "thorough"
    ctx.log("correspondence done")
    run_guarded(ctx, lambda: oracle_ctor(ctx, classes, 6 if big else 2), "C20 constructor sweep")
    ctx.log("constructor sweep done")
    run_guarded(ctx, lambda: oracle_last_wins(ctx, classes if big else pick_classes(ctx, classes), big),
                "C20 last-wins oracle")
    ctx.log("last-wins done")
    run_guarded(ctx, lambda: oracle_reset(ctx, big), "C20 reset oracle")
    ctx.log("reset done")
    run_guarded(ctx, lambda: oracle_precedence(ctx, classes if big else pick_classes(ctx, classes), big),
                "C20 precedence oracle")
    ctx.log("precedence done")
    run_guarded(ctx, lambda: oracle_independent(ctx, classes, 6 if big else 1), "C20 independence oracle")
    ctx.log("independence done")
    run_guarded(ctx, lambda: oracle_reject(ctx, classes if big else pick_classes(ctx, classes), big),
                "C20 rejection oracle")
    run_guarded(ctx, lambda: oracle_extra(ctx, classes, 4 if big else 1), "C20 show-label / style-instance oracle")
    ctx.log("rejection + extra done")
    sub = classes if big else pick_classes(ctx, classes)
    run_guarded(ctx, lambda: oracle_multi(ctx, sub, 4 if big else 1), "C20 one-call oracle")
    run_guarded(ctx, lambda: oracle_history(ctx, sub, 12 if big else 2, 8), "C20 history-twin oracle")
    run_guarded(ctx, lambda: oracle_reset_history(ctx, 40 if big else 8, 4), "C20 reset-history oracle")
    run_guarded(ctx, lambda: oracle_batch(ctx, classes, 30 if big else 6), "C20 batch-show oracle")
    run_guarded(ctx, lambda: oracle_alias(ctx, sub, 3 if big else 1), "C20 aliasing oracle")

    run_guarded(ctx, lambda: oracle_family_default(ctx, sub), "C20 family-default / fresh-object oracle")

    run_guarded(ctx, lambda: oracle_lazy(ctx, classes, 3 if big else 1), "C20 lazy constructor style oracle")

    def failed_show():
        res = check_failed_show()
        ctx.case(("failed-show",), True)
        ctx.bump("failed-show")
        if res is not None:
            ctx.impl_fail(res[0], res[1], {"kind": "failed-show"})
    run_guarded(ctx, failed_show, "C20 failed show() oracle")

    def fig():
        res = check_show_figure()
        ctx.case(("show-figure",), True)
        ctx.bump("show-figure")
        if res is not None:
            ctx.impl_fail("precedence/show-figure", res, {"kind": "show-figure"})
    run_guarded(ctx, fig, "C20 show() figure battery")
    ctx.log("wave-4 oracles done")


def pick_classes(ctx, classes):
    """one object class per style class (every leaf of every family), rotating with the seed"""
    by = {}
    for c in classes:
        by.setdefault(class_struct(c)[1] + "/" + ",".join(class_families(c)[:1]), []).append(c)
    return [v[ctx.seed % len(v)] for v in by.values()]


def replay(ctx, obj):
    rp = obj.get("replay", obj)
    k = rp.get("kind")
    res = "not-replayable"
    if k == "last-wins":
        res = check_last_wins(rp["cls"], rp["p"], rp["v1"], rp["v2"], rp["how1"], rp["how2"])
    elif k == "precedence":
        res = check_precedence(rp["cls"], rp["p"], rp["vals"], rp["present"], rp["kwhow"], rp["objhow"],
                               rp.get("container", "none"))
    elif k == "reset":
        res = check_reset(rp["p"], rp["v"], rp["how"])
    elif k == "independent":
        res = check_independent(rp["cls"], rp["p"], rp["v"], rp["how"], rp["scenario"])
    elif k == "reject":
        res = check_reject(rp["cls"], rp["p"], rp["v"], rp["how"], rp["bad_name"])
    elif k == "ctor":
        res = check_ctor(rp["cls"], rp["p"], rp["v"], rp["mode"])
    elif k == "multi":
        res = check_multi(rp["cls"], rp["items"], rp["entry"])
    elif k == "history":
        res = check_history_twin(rp["cls"], [tuple(o) for o in rp["ops"]])
    elif k == "reset-history":
        res = check_reset_history([tuple(x) for x in rp["steps"]])
    elif k == "batch":
        res = check_batch([tuple(x) for x in rp["specs"]], rp["kw"])
    elif k == "fresh-own":
        r = check_fresh_own(rp["cls"])
        res = None if not r else f"a new {rp['cls']} has own values {r!r}"
    elif k == "family-default":
        res = check_family_default(rp["cls"], rp["p"], rp["v"], rp["when"])
    elif k == "lazy":
        res = check_lazy_assign(rp["cls"], rp["p"], rp["v_ctor"], rp["v"], rp["q"], rp["w"], rp["form"],
                                rp["ctor_mode"])
    elif k == "failed-show":
        res = check_failed_show()
    elif k == "show-figure":
        res = check_show_figure()
    elif k == "alias":
        res = check_alias(rp["cls"], rp["scenario"], rp["p"], rp["v"])
    elif k == "show-label":
        res = check_show_label(rp["cls"])
    elif k == "assign-instance":
        res = check_assign_instance(rp["cls"], rp["p"], rp["v"])
    elif k == "ctor-history":
        try:
            make_obj(rp["cls"], rp["style"], rp["kwargs"])
            res = None
        except Exception as e:   # pylint: disable=broad-except
            res = f"{rp['cls']}(style=..) raised {type(e).__name__}: {e}"
    if res == "not-replayable":
        print(json.dumps(obj, indent=1)[:3000])
        return 0
    print("replay:", "property holds on this input" if res is None else f"FAILS: {res}")
    if res is not None:
        print(f"VIOLATION property=C20 replay={obj.get('how_to_rerun', '').split()[-1] or 'given'}")
    return 0 if res is None else 1
