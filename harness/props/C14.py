"""C14 -- returned fields obey the integral laws of magnetostatics.

Stages:
  build           Props/C14.v (differential form for the dipole / sphere models, jump conditions,
                  on-axis Ampere statement for the Circle; PARTIAL, see C14.meta.json)
  correspondence  the Coq models those theorems are about (dipole_BH, sphere_BH, on-axis
                  circle_BH of Model/CoreModel.v) are executed with binary64 floats under
                  vm_compute and compared with BHJM_dipole / BHJM_magnet_sphere / BHJM_circle of
                  the repo on the same rows
  search          the property itself on the implementation: flux of getB through closed boxes and
                  spheres, circulation of getH around circles and polygons, by globally adaptive
                  Gauss-Legendre quadrature with an error estimate (exploration / regression,
                  never counted as an obligation)
"""
import json
import math
import os
import re

import numpy as np
from scipy.spatial.transform import Rotation as R

from harness.common import run_guarded, COQ, Lock, sh, REPO
from harness import c14_quad as Q

import magpylib as magpy
from magpylib._src.fields import field_BH_dipole, field_BH_sphere, field_BH_circle, field_BH_polyline

MAGNETS = ("Cuboid", "Cylinder", "CylinderSegment", "Sphere", "Tetrahedron", "TriangularMesh")
CURRENTS = ("Circle", "Polyline")
KINDS = MAGNETS + ("Dipole",) + CURRENTS
# more cases where the code is most intricate (2500 lines of case distinctions)
WEIGHT = {("CylinderSegment", "flux"): 1.5, ("CylinderSegment", "circ"): 1.5,
          ("TriangularMesh", "flux"): 3.0, ("Tetrahedron", "flux"): 2.0, ("Circle", "circ"): 2.0, ("Polyline", "circ"): 2.0}
# rough cost of one field evaluation (seconds per observer), used only to size budgets
COST = {"Cuboid": 3e-6, "Cylinder": 4e-6, "CylinderSegment": 1.3e-4, "Sphere": 1e-6, "Tetrahedron": 6e-6,
        "TriangularMesh": 6e-5, "Dipole": 1e-6, "Circle": 1e-6, "Polyline": 4e-6}


# ====================================================================== sources
def rvec(rng, s=1.0):
    return [rng.uniform(-s, s) for _ in range(3)]


def runit(rng):
    while True:
        v = np.array([rng.gauss(0, 1) for _ in range(3)])
        n = np.linalg.norm(v)
        if n > 1e-3:
            return v / n


def rrotvec(rng):
    ang = rng.uniform(0, math.pi)
    return list(runit(rng) * ang)


def loguniform(rng, a, b):
    return math.exp(rng.uniform(math.log(a), math.log(b)))


def gen_source(rng, kind):
    s = loguniform(rng, 0.3, 3.0)
    src = {"type": kind, "pos": rvec(rng, 2.0 * s), "rotvec": rrotvec(rng)}
    x = rng.random()
    if x < 0.12:
        src["rotvec"] = [0.0, 0.0, 0.0]
    elif x < 0.27:       # quarter turns and 180-degree flips about the coordinate axes
        ax = [0.0, 0.0, 0.0]
        ax[rng.randrange(3)] = rng.choice([-1.0, 1.0]) * rng.choice([0.5 * math.pi, math.pi])
        src["rotvec"] = ax
    pol = list(runit(rng) * rng.uniform(0.1, 1.5))
    if rng.random() < 0.25:      # exactly along +-x, +-y, +-z (the other components exactly zero)
        pol = [0.0, 0.0, 0.0]
        pol[rng.randrange(3)] = rng.choice([-1.0, 1.0]) * rng.uniform(0.1, 1.5)
    # bodies with clearly different extents along their local axes, in every axis order
    aniso = [10.0 ** rng.uniform(-0.55, 0.45) for _ in range(3)]
    if rng.random() < 0.15:      # thin plates / rods
        aniso[rng.randrange(3)] *= 0.15
    if kind == "Cuboid":
        src.update(dimension=[s * a for a in aniso], polarization=pol)
    elif kind == "Cylinder":
        src.update(dimension=[s * aniso[0], s * aniso[2]], polarization=pol)
    elif kind == "CylinderSegment":
        r2 = s * rng.uniform(0.4, 1)
        x = rng.random()      # solid sector, ordinary ring sector, thin shell
        r1 = 0.0 if x < 0.25 else r2 * rng.uniform(0.1, 0.8) if x < 0.85 else r2 * rng.uniform(0.9, 0.98)
        # section angles are periodic (valid beyond +-360 since /repo 526c29b): every window, on both sides,
        # with spans that cross a multiple of 360
        x = rng.random()
        phi1 = (rng.uniform(-360, -180) if x < 0.25 else rng.uniform(-180, 0) if x < 0.4 else
                rng.uniform(0, 300) if x < 0.65 else rng.uniform(-1100, -360) if x < 0.825 else rng.uniform(300, 1000))
        x = rng.random()      # full ring, span just below 360, ordinary span
        phi2 = phi1 + (360.0 if x < 0.12 else rng.uniform(340, 359.9) if x < 0.24 else rng.uniform(25, 340))
        src.update(dimension=[r1, r2, s * aniso[2], phi1, phi2], polarization=pol)
    elif kind == "Sphere":
        src.update(diameter=s * rng.uniform(0.3, 1), polarization=pol)
    elif kind == "Tetrahedron":
        while True:
            V = np.array([rvec(rng, 0.5 * s) for _ in range(4)]) * np.array(aniso)
            vol = abs(np.linalg.det(V[1:] - V[0])) / 6
            if vol > 0.02 * s ** 3 * aniso[0] * aniso[1] * aniso[2]:
                break
        src.update(vertices=V.tolist(), polarization=pol)
    elif kind == "TriangularMesh":
        npts = rng.randint(5, 9)
        src.update(points=(np.array([rvec(rng, 0.5 * s) for _ in range(npts)]) * np.array(aniso)).tolist(),
                   polarization=pol)
    elif kind == "Dipole":
        src.update(moment=pol if 0.0 in pol else list(runit(rng) * rng.uniform(0.1, 10)))
    elif kind == "Circle":
        src.update(diameter=s * rng.uniform(0.3, 1), current=rng.choice([-1, 1]) * rng.uniform(0.2, 5))
    elif kind == "Polyline":
        k = rng.randint(3, 6)
        ang = sorted(rng.uniform(0, 2 * math.pi) for _ in range(k))
        if min((ang[(i + 1) % k] - ang[i]) % (2 * math.pi) for i in range(k)) < 0.3:
            ang = [2 * math.pi * i / k + rng.uniform(-0.2, 0.2) for i in range(k)]
        V = [[0.5 * s * rng.uniform(0.5, 1) * math.cos(a), 0.5 * s * rng.uniform(0.5, 1) * math.sin(a),
              0.5 * s * rng.uniform(-0.4, 0.4)] for a in ang]
        V.append(list(V[0]))
        src.update(vertices=V, current=rng.choice([-1, 1]) * rng.uniform(0.2, 5))
    else:
        raise ValueError(kind)
    # the laws do not know about units or about where the local origin is: for the classes whose
    # code has no absolute tolerance (those with one are C12's subject) use every length decade
    # from nm to km, and describe conductors by vertices far away from their local origin
    unit = None
    if kind in ("Cuboid", "Cylinder", "Sphere", "Circle", "Polyline", "Dipole") and rng.random() < 0.3:
        unit = rng.choice([1e-9, 1e-6, 1e-3, 1e3]) if rng.random() < 0.5 else 10.0 ** rng.uniform(-9, 3)
    elif kind in ("CylinderSegment", "Tetrahedron", "TriangularMesh") and rng.random() < 0.15:
        unit = rng.choice([1e-3, 1e3])      # mm and km; smaller sizes hit the absolute tolerances recorded under C12
    if unit is not None:
        src["pos"] = [x * unit for x in src["pos"]]
        for key in ("dimension", "diameter", "vertices", "points"):
            if key in src:
                arr = np.array(src[key], dtype=float)
                if kind == "CylinderSegment":
                    arr[:3] *= unit          # the last two entries are angles
                else:
                    arr = arr * unit
                src[key] = arr.tolist()
        src["unit"] = unit
    if kind in ("Tetrahedron", "TriangularMesh") and rng.random() < 0.4:     # body away from its local origin
        key = "vertices" if kind == "Tetrahedron" else "points"
        V = np.array(src[key], dtype=float)
        size = float(np.max(np.linalg.norm(V - V.mean(axis=0), axis=1)))
        src[key] = (V + runit(rng) * size * 10.0 ** rng.uniform(-0.5, 1.5)).tolist()
    if kind in CURRENTS and rng.random() < 0.03:
        src["current"] = 0.0
    if kind == "Polyline" and rng.random() < 0.5:
        V = np.array(src["vertices"], dtype=float)
        size = float(np.max(np.linalg.norm(V - V.mean(axis=0), axis=1)))
        off = runit(rng) * size * 10.0 ** rng.uniform(2, 6.5)
        src["vertices"] = (V + off).tolist()
        src["pos"] = list(np.array(src["pos"], dtype=float) - R.from_rotvec(src["rotvec"]).apply(off))
    return src


def make_obj(src):
    t = src["type"]
    kw = {"position": src["pos"], "orientation": R.from_rotvec(src["rotvec"])}
    if t == "Cuboid":
        return magpy.magnet.Cuboid(dimension=src["dimension"], polarization=src["polarization"], **kw)
    if t == "Cylinder":
        return magpy.magnet.Cylinder(dimension=src["dimension"], polarization=src["polarization"], **kw)
    if t == "CylinderSegment":
        return magpy.magnet.CylinderSegment(dimension=src["dimension"], polarization=src["polarization"], **kw)
    if t == "Sphere":
        return magpy.magnet.Sphere(diameter=src["diameter"], polarization=src["polarization"], **kw)
    if t == "Tetrahedron":
        return magpy.magnet.Tetrahedron(vertices=src["vertices"], polarization=src["polarization"], **kw)
    if t == "TriangularMesh":
        return magpy.magnet.TriangularMesh.from_ConvexHull(points=np.array(src["points"]),
                                                           polarization=src["polarization"], **kw)
    if t == "Dipole":
        return magpy.misc.Dipole(moment=src["moment"], **kw)
    if t == "Circle":
        return magpy.current.Circle(diameter=src["diameter"], current=src["current"], **kw)
    if t == "Polyline":
        return magpy.current.Polyline(vertices=src["vertices"], current=src["current"], **kw)
    raise ValueError(t)


def local_extent(src):
    """(local centre, bounding radius about it) of the source body in its own frame"""
    t = src["type"]
    if t == "Cuboid":
        return np.zeros(3), 0.5 * float(np.linalg.norm(src["dimension"]))
    if t == "Cylinder":
        d, h = src["dimension"]
        return np.zeros(3), 0.5 * math.hypot(d, h)
    if t == "CylinderSegment":
        r1, r2, h = src["dimension"][:3]
        return np.zeros(3), math.hypot(r2, 0.5 * h)
    if t == "Sphere":
        return np.zeros(3), 0.5 * abs(src["diameter"])
    if t in ("Tetrahedron", "Polyline"):
        V = np.array(src["vertices"], dtype=float)
        c = V.mean(axis=0)
        return c, float(np.max(np.linalg.norm(V - c, axis=1)))
    if t == "TriangularMesh":
        V = np.array(src["points"], dtype=float)
        c = V.mean(axis=0)
        return c, float(np.max(np.linalg.norm(V - c, axis=1)))
    if t == "Dipole":
        return np.zeros(3), 0.0
    if t == "Circle":
        return np.zeros(3), 0.5 * abs(src["diameter"])
    raise ValueError(t)


def local_bbox(src):
    """(lo, hi) of the source body in its own frame"""
    t = src["type"]
    if t == "Cuboid":
        h = 0.5 * np.abs(np.array(src["dimension"], dtype=float))
        return -h, h
    if t == "Cylinder":
        d, hh = src["dimension"]
        h = np.array([0.5 * d, 0.5 * d, 0.5 * hh])
        return -h, h
    if t == "CylinderSegment":
        r2, hh = src["dimension"][1], src["dimension"][2]
        h = np.array([r2, r2, 0.5 * hh])
        return -h, h
    if t in ("Sphere", "Circle"):
        h = 0.5 * abs(src["diameter"]) * np.ones(3)
        return -h, h
    if t in ("Tetrahedron", "Polyline", "TriangularMesh"):
        V = np.array(src["vertices"] if t != "TriangularMesh" else src["points"], dtype=float)
        return V.min(axis=0), V.max(axis=0)
    return -0.3 * np.ones(3), 0.3 * np.ones(3)


class FieldRaised(Exception):
    pass


class Scene:
    """the magpylib objects of a case plus the global geometry the oracle needs"""

    def __init__(self, case):
        try:
            objs = [make_obj(s) for s in case["sources"]]
            coll = case.get("coll")
            if coll is not None:
                nest = coll.get("nest")
                if nest:      # nesting depth 2: an inner collection with its own pose inside the posed outer one
                    inner = magpy.Collection(*[objs[i] for i in nest["idx"]])
                    inner.move(nest["move"])
                    inner.rotate(R.from_rotvec(nest["rotvec"]))
                    rest = [o for i, o in enumerate(objs) if i not in nest["idx"]]
                    top = magpy.Collection(*rest[:1], inner, *rest[1:])
                else:
                    top = magpy.Collection(*objs)
                top.move(coll["move"])
                top.rotate(R.from_rotvec(coll["rotvec"]))
        except Exception as e:   # pylint: disable=broad-except
            raise FieldRaised(f"construction: {type(e).__name__}: {e}") from e
        if coll is not None:
            pass                      # top is the posed Collection built above
        elif len(objs) == 1:
            top = objs[0]
        else:
            top = objs
        self.top = top
        self.entry = case.get("entry", "func")
        self.info = []
        for s, o in zip(case["sources"], objs):
            pos = np.array(o.position, dtype=float).reshape(-1, 3)[-1]
            rot = o.orientation[-1] if len(np.shape(o.orientation.as_quat())) == 2 else o.orientation
            c_loc, rb = local_extent(s)
            inf = {"type": s["type"], "centre": rot.apply(c_loc) + pos, "rb": rb, "wire": None,
                   "pos": pos, "rot": rot, "bbox": local_bbox(s)}
            if s["type"] == "Circle":
                inf["wire"] = ("circle", pos, rot.apply([0.0, 0.0, 1.0]), 0.5 * abs(s["diameter"]),
                               float(s["current"]), rot)
            elif s["type"] == "Polyline":
                inf["wire"] = ("poly", rot.apply(np.array(s["vertices"], dtype=float)) + pos, float(s["current"]))
            self.info.append(inf)

    def field(self, which, pts):
        f = magpy.getB if which == "B" else magpy.getH
        try:
            if self.entry == "sensor":        # the observers as pixels of a Sensor
                obs = magpy.Sensor(pixel=pts)
            else:
                obs = pts
            if isinstance(self.top, list):
                out = f(self.top, obs, sumup=True)
            elif self.entry == "method":      # the method of the source / collection
                out = (self.top.getB if which == "B" else self.top.getH)(obs)
            else:
                out = f(self.top, obs)
        except Exception as e:   # pylint: disable=broad-except
            raise FieldRaised(f"{type(e).__name__}: {e}") from e
        return np.asarray(out, dtype=float).reshape(-1, 3)

    def has_magnet(self):
        return any(i["type"] in MAGNETS for i in self.info)

    def jflag(self, pts):
        """the polarization seen at the points (sum over the magnets containing them): constant on
        every region of space that the magnet boundaries do not cut"""
        try:
            if isinstance(self.top, list):
                out = magpy.getJ(self.top, pts, sumup=True)
            else:
                out = magpy.getJ(self.top, pts)
        except Exception as e:   # pylint: disable=broad-except
            raise FieldRaised(f"{type(e).__name__}: {e}") from e
        return np.asarray(out, dtype=float).reshape(-1, 3)

    def wire_points(self, n=256):
        """sample points on all conductors and the positions of all dipoles: the singular set"""
        out = []
        for inf in self.info:
            w = inf["wire"]
            if w is None:
                if inf["type"] == "Dipole":
                    out.append(inf["centre"][None, :])
                continue
            if w[0] == "circle":
                _, p, _, r0, _, rot = w
                ph = np.linspace(0, 2 * np.pi, n, endpoint=False)
                loc = np.stack([r0 * np.cos(ph), r0 * np.sin(ph), 0 * ph], axis=1)
                out.append(rot.apply(loc) + p)
            else:
                V = w[1]
                t = np.linspace(0, 1, 48, endpoint=False)[:, None]
                for a, b in zip(V[:-1], V[1:]):
                    out.append(a + t * (b - a))
        return np.concatenate(out) if out else np.zeros((0, 3))


# ====================================================================== test surfaces and loops
class Geom:
    def __init__(self, g):
        self.g = g
        k = g["kind"]
        self.dim = 2 if k in ("box", "sphere") else 1
        if k == "box":
            self.c = np.array(g["c"], dtype=float)
            self.a = np.array(g["a"], dtype=float)
            self.M = R.from_rotvec(g["rotvec"]).as_matrix()
            self.npatch = 6
            self.measure = 8.0 * (self.a[0] * self.a[1] + self.a[1] * self.a[2] + self.a[0] * self.a[2])
            self.size = float(np.linalg.norm(self.a))
        elif k == "sphere":
            self.c = np.array(g["c"], dtype=float)
            self.r = float(g["r"])
            self.npatch = 1
            self.measure = 4 * math.pi * self.r ** 2
            self.size = self.r
        elif k == "circle":
            self.c = np.array(g["c"], dtype=float)
            self.r = float(g["r"])
            self.M = R.from_rotvec(g["rotvec"]).as_matrix()
            self.npatch = 1
            self.measure = 2 * math.pi * self.r
            self.size = self.r
        elif k == "polygon":
            self.V = np.array(g["verts"], dtype=float)
            self.npatch = len(self.V)
            self.E = np.roll(self.V, -1, axis=0) - self.V
            self.measure = float(np.linalg.norm(self.E, axis=1).sum())
            self.c = self.V.mean(axis=0)
            self.size = float(np.max(np.linalg.norm(self.V - self.c, axis=1)))
        else:
            raise ValueError(k)

    def points(self, pid, U):
        """positions (m,3) and vector measure elements (m,3): n dA/(du dv) or dl/du"""
        k = self.g["kind"]
        if k == "box":
            ax = pid // 2
            sg = np.where(pid % 2 == 0, 1.0, -1.0)
            j = (ax + 1) % 3
            l = (ax + 2) % 3
            m = len(pid)
            loc = np.zeros((m, 3))
            idx = np.arange(m)
            loc[idx, ax] = sg * self.a[ax]
            loc[idx, j] = (2 * U[:, 0] - 1) * self.a[j]
            loc[idx, l] = (2 * U[:, 1] - 1) * self.a[l]
            nloc = np.zeros((m, 3))
            nloc[idx, ax] = sg * 4.0 * self.a[j] * self.a[l]
            return loc @ self.M.T + self.c, nloc @ self.M.T
        if k == "sphere":
            th = math.pi * U[:, 0]
            ph = 2 * math.pi * U[:, 1]
            rh = np.stack([np.sin(th) * np.cos(ph), np.sin(th) * np.sin(ph), np.cos(th)], axis=1)
            return self.c + self.r * rh, rh * (self.r ** 2 * np.sin(th) * 2 * math.pi ** 2)[:, None]
        if k == "circle":
            ph = 2 * math.pi * U[:, 0]
            loc = np.stack([np.cos(ph), np.sin(ph), 0 * ph], axis=1)
            tan = np.stack([-np.sin(ph), np.cos(ph), 0 * ph], axis=1)
            return self.c + self.r * (loc @ self.M.T), (2 * math.pi * self.r) * (tan @ self.M.T)
        return self.V[pid] + U[:, 0:1] * self.E[pid], self.E[pid]

    def sample(self, n):
        """points spread over the surface / along the loop (closed polygon order for loops)"""
        if self.dim == 1:
            per = max(2, n // self.npatch)
            u = (np.arange(per) / per)[:, None]
            pid = np.repeat(np.arange(self.npatch), per)
            return self.points(pid, np.tile(u, (self.npatch, 1)))[0]
        per = max(4, int(math.sqrt(n / self.npatch)))
        u = (np.arange(per) + 0.5) / per
        a, b = np.meshgrid(u, u, indexing="ij")
        U = np.stack([a.ravel(), b.ravel()], axis=1)
        pid = np.repeat(np.arange(self.npatch), len(U))
        return self.points(pid, np.tile(U, (self.npatch, 1)))[0]

    def dist_to(self, P):
        """distance of points P (m,3) from the surface / loop"""
        k = self.g["kind"]
        if len(P) == 0:
            return np.zeros(0)
        if k == "box":
            q = np.abs((P - self.c) @ self.M)
            out = np.linalg.norm(np.maximum(q - self.a, 0.0), axis=1)
            ins = np.all(q <= self.a, axis=1)
            return np.where(ins, np.min(self.a - q, axis=1), out)
        if k == "sphere":
            return np.abs(np.linalg.norm(P - self.c, axis=1) - self.r)
        X = self.sample(1024)
        d = np.linalg.norm(P[:, None, :] - X[None, :, :], axis=2)
        return d.min(axis=1)


def gen_geom(rng, law, scene, focus, kind, size_factor, place):
    """a closed surface (law=flux) or loop (law=circ) placed relative to source `focus`"""
    inf = scene.info[focus]
    rb = inf["rb"] if inf["rb"] > 0 else 0.3
    rho = size_factor * rb
    u = runit(rng)
    if place == "centre":
        c = inf["centre"] + u * rb * rng.uniform(0, 0.5)
    elif place == "surface":
        c = inf["centre"] + u * rb * rng.uniform(0.4, 1.1)
    elif place == "away":
        c = inf["centre"] + u * (rb * rng.uniform(1.3, 4) + rho * rng.uniform(0.5, 1.5))
    elif place == "part":
        # anywhere in (or just around) the body: upper / lower / left / right parts, not only its centre
        lo, hi = inf["bbox"]
        mid, half = 0.5 * (lo + hi), 0.55 * (hi - lo)
        loc = mid + half * np.array([rng.uniform(-1, 1) for _ in range(3)])
        c = inf["rot"].apply(loc) + inf["pos"]
    elif place == "reach":
        c = inf["centre"]
    elif place == "link":
        # centre next to a point of the conductor, loop plane roughly across the conductor
        W = scene.wire_points()
        w = W[rng.randrange(len(W))] if len(W) else inf["centre"]
        c = w + u * rho * rng.uniform(0.2, 0.7)
    else:
        raise ValueError(place)
    rot = rrotvec(rng)
    if place == "reach":
        # a long loop that comes within a fraction of the source size of the conductor AND extends to
        # tens .. ten thousands of source sizes, all of it evaluated in one call
        W = scene.wire_points()
        i = rng.randrange(len(W))
        w = W[i]
        tdir = W[(i + 1) % len(W)] - W[i - 1]
        tdir = tdir / (np.linalg.norm(tdir) + 1e-300)
        n1 = np.cross(tdir, runit(rng))
        n1 /= np.linalg.norm(n1) + 1e-300
        n2 = np.cross(tdir, n1)
        d1, d2 = rb * rng.uniform(0.07, 0.3), rb * rng.uniform(0.07, 0.3)
        L = rb * 10.0 ** rng.uniform(1.7, 4.3)
        far1, far2 = runit(rng), runit(rng)
        V = [w + d1 * n1, w + d2 * n2 * rng.choice([-1, 1]), w + L * far2, w + L * rng.uniform(0.3, 1) * far1]
        return {"kind": "polygon", "verts": [list(v) for v in V]}
    if place == "link":
        # orient the loop normal close to the local conductor direction so that it links
        W = scene.wire_points()
        if len(W) > 2:
            i = int(np.argmin(np.linalg.norm(W - c, axis=1)))
            tdir = W[(i + 1) % len(W)] - W[i - 1]
            tdir = tdir / (np.linalg.norm(tdir) + 1e-300) + 0.3 * runit(rng)
            tdir /= np.linalg.norm(tdir)
            z = np.array([0.0, 0.0, 1.0])
            axis = np.cross(z, tdir)
            sn = np.linalg.norm(axis)
            if sn > 1e-9:
                rot = list(axis / sn * math.atan2(sn, float(z @ tdir)))
    if kind == "box":
        a = [rho * rng.uniform(0.4, 1) for _ in range(3)]
        return {"kind": "box", "c": list(c), "a": a, "rotvec": rot}
    if kind == "sphere":
        return {"kind": "sphere", "c": list(c), "r": rho}
    if kind == "circle":
        return {"kind": "circle", "c": list(c), "r": rho, "rotvec": rot}
    k = rng.randint(3, 6)
    ang = [2 * math.pi * (i + rng.uniform(-0.3, 0.3)) / k for i in range(k)]
    M = R.from_rotvec(rot).as_matrix()
    V = [list(c + M @ np.array([rho * rng.uniform(0.6, 1) * math.cos(a), rho * rng.uniform(0.6, 1) * math.sin(a),
                                rho * rng.uniform(-0.3, 0.3)])) for a in ang]
    return {"kind": "polygon", "verts": V}


# ====================================================================== linking numbers
def link_disc(X, p, n, r0):
    """signed number of times the closed polygon X passes through the disc (centre p, unit normal n,
    radius r0) in the +n direction"""
    Xn = np.roll(X, -1, axis=0)
    s = (X - p) @ n
    sn = (Xn - p) @ n
    idx = np.nonzero((s < 0) != (sn < 0))[0]      # a point exactly in the plane counts as on the + side
    tot = 0
    for i in idx:
        t = s[i] / (s[i] - sn[i])
        q = X[i] + t * (Xn[i] - X[i]) - p
        q = q - (q @ n) * n
        if np.linalg.norm(q) < r0:
            tot += 1 if sn[i] > s[i] else -1
    return tot


def link_fan(X, V):
    """signed number of times the closed polygon X passes through the fan of triangles
    (V0, Vi, Vi+1) spanning the closed polygon V (closing vertex not repeated)"""
    Xn = np.roll(X, -1, axis=0)
    d = Xn - X
    tot = 0
    v0 = V[0]
    for i in range(1, len(V) - 1):
        v1, v2 = V[i], V[i + 1]
        nrm = np.cross(v1 - v0, v2 - v0)
        sa = (X - v0) @ nrm
        sb = (Xn - v0) @ nrm
        cand = np.nonzero((sa < 0) != (sb < 0))[0]
        if len(cand) == 0:
            continue
        a = X[cand]
        dd = d[cand]

        def vol(p, q):
            return np.einsum("ij,ij->i", dd, np.cross(p - a, q - a))
        w0, w1, w2 = vol(v0, v1), vol(v1, v2), vol(v2, v0)
        through = ((w0 >= 0) & (w1 >= 0) & (w2 >= 0)) | ((w0 <= 0) & (w1 <= 0) & (w2 <= 0))
        sg = np.where(sb[cand] > sa[cand], 1, -1)
        tot += int(sg[through].sum())
    return tot


def threading_current(scene, geom):
    """sum over conductors of current * linking number with the loop, and the list of linking numbers"""
    X = geom.sample(4096)
    tot, links = 0.0, []
    for inf in scene.info:
        w = inf["wire"]
        if w is None:
            continue
        if w[0] == "circle":
            lk = link_disc(X, w[1], w[2], w[3])
            cur = w[4]
        else:
            V = w[1][:-1]
            lk = link_fan(X, V)
            cur = w[2]
        links.append(lk)
        tot += cur * lk
    return tot, links


# ====================================================================== the oracle
FLOOR = {("flux", False): 2e-6, ("flux", True): 1e-3, ("circ", False): 2e-6, ("circ", True): 3e-3}
CLEAR = 0.04       # minimal distance from conductors / dipoles, relative to min(test size, source size)
INCONCLUSIVE = 1e-2
NOISE = 1e-11        # see evaluate()
MU0 = 4e-7 * math.pi


def case_cost(case):
    return sum(COST[s["type"]] * (len(s.get("points", [])) / 6.0 if s["type"] == "TriangularMesh" else 1.0)
               for s in case["sources"])


def clearance_ok(scene, geom):
    W = scene.wire_points()
    if len(W) == 0:
        return True, float("inf")
    d = float(geom.dist_to(W).min())
    rbs = [i["rb"] for i in scene.info if i["wire"] is not None and i["rb"] > 0]
    ref = min([geom.size] + rbs)
    return d >= CLEAR * ref, d


def touches_magnet(scene, geom):
    X = geom.sample(600 if geom.dim == 2 else 256)
    for inf in scene.info:
        if inf["type"] in MAGNETS:
            d = np.linalg.norm(X - inf["centre"], axis=1)
            spacing = geom.measure / 256 if geom.dim == 1 else math.sqrt(geom.measure / 600)
            if d.min() <= 1.05 * inf["rb"] + spacing:
                return True
    return False


def evaluate(case, seconds=1.5, min_evals=2e4, inconclusive=None):
    """returns dict(status, value, expected, err, scale, ...); status in ok | fail | inconclusive | skipped"""
    scene = Scene(case)
    geom = Geom(case["geom"])
    law = case["law"]
    ok, dmin = clearance_ok(scene, geom)
    if not ok:
        return {"status": "skipped", "why": "too close to a conductor or dipole"}
    cut = touches_magnet(scene, geom)
    which = "B" if law == "flux" else "H"

    # every call of getB/getH contains observers spread over the WHOLE surface / loop (as a user's single
    # call with all quadrature nodes would), so that a batch-dependent value cannot hide in the
    # near-only batches of the adaptive refinement
    anchor = geom.sample(96)

    def f(pid, U):
        P, dA = geom.points(pid, U)
        F = scene.field(which, np.concatenate([P, anchor]))[:len(P)]
        return np.einsum("ij,ij->i", F, dA), np.linalg.norm(F, axis=1)

    max_evals = int(min(3e6, max(min_evals, case.get("min_evals", 0), seconds / case_cost(case))))
    if geom.dim == 1:
        init = max(8, 512 // geom.npatch) if cut else max(8, 64 // geom.npatch)
    else:
        init = 4 if geom.npatch == 6 else 8
    flagf = None
    if cut and scene.has_magnet():
        def flagf(pid, U):
            return scene.jflag(geom.points(pid, U)[0])
    res = Q.integrate(f, geom.dim, geom.npatch, init, geom.measure, 1e-8 if not cut else 1e-7, max_evals,
                      flagf=flagf)
    out = {"evals": res.evals, "cut": cut, "dmin": dmin}
    if not res.finite:
        out.update(status="skipped", why="non-finite field value on the surface/loop (C15 territory)")
        return out
    scale = res.maxmag * geom.measure
    expected, links = (0.0, [])
    if law == "circ":
        expected, links = threading_current(scene, geom)
    out.update(value=res.value, expected=expected, err=res.err, scale=scale, l1=res.l1, links=links)
    if scale == 0.0:
        # the field vanishes identically on the surface / loop: fine unless a current is threaded
        out["status"] = "ok" if expected == 0.0 else "fail"
        out["rel"] = 0.0 if expected == 0.0 else float("inf")
        out["thr_rel"] = 0.0
        return out
    if res.err > (inconclusive or case.get("inconclusive") or INCONCLUSIVE) * scale:
        out["status"] = "inconclusive"
        return out
    # binary64 cancellation noise of the magnet formulas far from the body: absolute, relative to the
    # field scale AT the magnet (|J| for B, |J|/mu0 for H), not to the (tiny) far field
    near = sum(float(np.linalg.norm(s["polarization"])) for s in case["sources"] if s["type"] in MAGNETS)
    if which == "H":
        near /= MU0
    # floors: free space -> relative to the integral of |F.n| or |H.dl| (conditioning of the sum);
    # through magnets -> relative to max|F| * measure (missed slivers scale with that)
    floor = FLOOR[(law, cut)] * (scale if cut else res.l1)
    thr = 3.0 * res.err + floor + NOISE * near * geom.measure
    out["rel"] = abs(res.value - expected) / scale
    out["thr_rel"] = thr / scale
    out["status"] = "fail" if abs(res.value - expected) > thr else "ok"
    return out


def placement_class(case, res):
    if case["law"] == "circ":
        lk = res.get("links") or []
        return ("linked" if any(lk) else "unlinked") + (":through-magnet" if res.get("cut") else "")
    return "cut-or-inside" if res.get("cut") else "free"


def signature(case, res):
    clause = "flux-B" if case["law"] == "flux" else "circulation-H"
    types = "+".join(sorted({s["type"] for s in case["sources"]}))
    return f"{clause}/{types}:{placement_class(case, res)}"


def shrink_case(case, seconds, min_evals=2e4):
    """smaller failing case: single sources, no collection pose, identity source pose"""
    def fails(c):
        try:
            return evaluate(c, seconds, min_evals)["status"] == "fail"
        except Exception:   # pylint: disable=broad-except
            return False
    cur = case
    if len(cur["sources"]) > 1:
        for i in range(len(cur["sources"])):
            c = dict(cur, sources=[cur["sources"][i]], focus=0)
            if fails(c):
                cur = c
                break
    return cur


# ====================================================================== generation of cases
def scale_exc(src, f):
    for key in ("polarization", "moment"):
        if key in src:
            src[key] = [x * f for x in src[key]]
    if "current" in src:
        src["current"] = src["current"] * f
    return src


def equal_polylines(rng, n):
    """n closed Polyline loops with the SAME number of vertices and different currents (also of opposite
    sign): the equal-vertex-count fast path of current_vertices_field handles them in one block"""
    first = gen_source(rng, "Polyline")
    nv = len(first["vertices"])
    srcs = [first]
    while len(srcs) < n:
        s = gen_source(rng, "Polyline")
        if len(s["vertices"]) == nv:
            srcs.append(s)
    cur = rng.uniform(1.0, 5.0)
    for i, s in enumerate(srcs):
        s["current"] = cur * (1.0 if i == 0 else rng.choice([-1, 1]) * rng.uniform(0.15, 0.6) ** i)
    rng.shuffle(srcs)
    return srcs


def gen_collinear_case(rng):
    """an Ampere loop around one side of an unrotated closed Polyline at the origin (dyadic vertices) with
    one CORNER exactly on the straight extension of another side - a free-space point, off the wire - so
    that every getH call of the quadrature contains an observer that is exactly collinear with a segment
    (the corners are among the observers added to every call); currents far from 1 A, optionally a second
    loop with a current of the opposite sign"""
    for _ in range(40):
        s = rng.choice([0.5, 1.0, 2.0])
        V = np.array([[0, 0, 0], [s, 0, 0], [s, s, 0.5 * s], [0, s, 0], [0, 0, 0]], dtype=float)
        cur = rng.choice([-1, 1]) * rng.uniform(1.5, 8.0)
        srcs = [{"type": "Polyline", "pos": [0.0, 0.0, 0.0], "rotvec": [0.0, 0.0, 0.0], "vertices": V.tolist(),
                 "current": cur}]
        if rng.random() < 0.5:
            other = gen_source(rng, "Polyline")
            other["current"] = -math.copysign(rng.uniform(1.5, 8.0), cur)
            srcs.append(other)
        # the corner: on the extension of side k beyond its end point, exact in binary64
        k = rng.randrange(4)
        p0 = V[k + 1] + rng.choice([0.5, 1.0, 2.0]) * (V[k + 1] - V[k])
        # three more corners around the middle of another side
        j = (k + rng.choice([1, 2, 3])) % 4
        w = 0.5 * (V[j] + V[j + 1])
        t = (V[j + 1] - V[j]) / np.linalg.norm(V[j + 1] - V[j])
        n1 = np.cross(t, runit(rng))
        n1 /= np.linalg.norm(n1)
        n2 = np.cross(t, n1)
        rho = s * rng.uniform(0.15, 0.35)
        a0 = rng.uniform(0, 2 * math.pi)
        ring = [w + rho * (math.cos(a0 + q) * n1 + math.sin(a0 + q) * n2) + 0.1 * rho * rng.uniform(-1, 1) * t
                for q in (0.0, 2.1, 4.2)]
        case = {"law": "circ", "sources": srcs, "coll": None if len(srcs) == 1 or rng.random() < 0.5 else
                {"move": [0.0, 0.0, 0.0], "rotvec": [0.0, 0.0, 0.0]}, "focus": 0,
                "entry": rng.choice(["func", "method", "sensor"]), "place": "collinear-corner", "size_factor": rho / s,
                "geom": {"kind": "polygon", "verts": [list(map(float, p0))] + [list(map(float, v)) for v in ring]}}
        if clearance_ok(Scene(case), Geom(case["geom"]))[0]:
            return case
    return None


def gen_case(rng, law, kinds, coll=False):
    equal = coll == "equal-polylines"
    if equal:
        coll = rng.random() < 0.5          # as a Collection or as a plain list of sources
    for _ in range(40):
        srcs = equal_polylines(rng, len(kinds)) if equal else [gen_source(rng, k) for k in kinds]
        case = {"law": law, "sources": srcs, "coll": None, "focus": rng.randrange(len(srcs))}
        if coll:
            case["coll"] = {"move": rvec(rng, 2.0), "rotvec": rrotvec(rng)}
        case["entry"] = rng.choice(["func", "func", "method", "sensor"])
        if len(srcs) > 1 and not equal:
            x = rng.random()
            if x < 0.3:        # twin: same geometry and pose, different excitation
                i = rng.randrange(len(srcs))
                srcs.insert(rng.randrange(len(srcs) + 1), scale_exc(json.loads(json.dumps(srcs[i])),
                                                                   rng.choice([-1, 1]) * rng.uniform(0.3, 2)))
            elif x < 0.4:      # exact duplicate
                srcs.append(json.loads(json.dumps(srcs[rng.randrange(len(srcs))])))
            if rng.random() < 0.2:       # excitations that differ by 6..9 decades, either way round
                scale_exc(srcs[rng.randrange(len(srcs))], 10.0 ** (rng.choice([-1, 1]) * rng.uniform(6, 9)))
            case["focus"] = rng.randrange(len(srcs))
            if coll and len(srcs) >= 3 and rng.random() < 0.4:
                idx = sorted(rng.sample(range(len(srcs)), 2))
                case["coll"]["nest"] = {"idx": idx, "move": rvec(rng, 1.0), "rotvec": rrotvec(rng)}
        scene = Scene(case)
        ftype = srcs[case["focus"]]["type"]
        places = ["centre", "surface", "away"]
        if law == "circ" and ftype in CURRENTS:
            places += ["link", "link", "link", "reach", "reach"]
        if ftype in MAGNETS:
            places += ["surface", "part", "part", "part"]
        place = rng.choice(places)
        sf = loguniform(rng, 1e-2, 1e2)
        if ftype in MAGNETS and rng.random() < 0.5:
            sf = loguniform(rng, 0.1, 4)      # surfaces / loops that cut through the magnet boundary
        if place == "part":
            sf = loguniform(rng, 0.03, 0.7)
        if place == "away" and sf > 20:
            sf = loguniform(rng, 1e-2, 20)
        gk = rng.choice(["box", "sphere"]) if law == "flux" else rng.choice(["circle", "polygon"])
        case["geom"] = gen_geom(rng, law, scene, case["focus"], gk, sf, place)
        case["place"] = place
        case["size_factor"] = sf
        if clearance_ok(scene, Geom(case["geom"]))[0]:
            return case
    return None


def gen_special_case(rng, law, kind):
    """surfaces / loops aligned with the symmetry axes and planes of an unrotated source at the
    origin: a whole face or edge then lies on a set where the code takes a special-case branch
    (r == 0 of Circle / Cylinder, x == 0 planes, the extension of a Polyline segment), which
    randomly placed geometry never visits on a set of positive measure"""
    for _ in range(40):
        src = gen_source(rng, kind)
        src["pos"] = [0.0, 0.0, 0.0]
        src["rotvec"] = [0.0, 0.0, 0.0]
        if kind == "Polyline":
            s = rng.choice([0.5, 1.0, 2.0])
            src["vertices"] = [[0, 0, 0], [s, 0, 0], [s, s, 0.5 * s], [0, s, 0], [0, 0, 0]]
        if kind == "CylinderSegment":
            # general position: keep the segment's own phi-faces out of the coordinate planes (a test face
            # lying IN a magnet face would sample the code's on-surface convention on a set of positive
            # measure, which is a statement about surface points, not about flux or circulation)
            d = src["dimension"]
            if abs(d[3] % 90.0) < 1e-6:
                d[3] += 7.0
            if abs(d[4] % 90.0) < 1e-6:
                d[4] -= 7.0
        case = {"law": law, "sources": [src], "coll": None, "focus": 0, "place": "special"}
        scene = Scene(case)
        rb = scene.info[0]["rb"] if scene.info[0]["rb"] > 0 else 0.3
        ax = rng.randrange(3)
        if kind in ("Circle", "Cylinder", "CylinderSegment") and rng.random() < 0.7:
            ax = 2
        if kind == "Polyline":
            ax = 0
        if kind == "CylinderSegment" and law == "circ" and src["dimension"][0] == 0.0 and ax == 2:
            ax = rng.randrange(2)      # general position: with r1 = 0 the z-axis IS an edge of the magnet
        j, l = (ax + 1) % 3, (ax + 2) % 3
        sf = loguniform(rng, 0.2, 5)
        if law == "circ":
            # rectangle with one edge on coordinate axis `ax`
            if kind == "Polyline":
                s = src["vertices"][1][0]
                lo, hi = s * rng.choice([1.25, 1.5]), s * rng.choice([2.0, 3.0, 4.0])
            else:
                hi = rb * sf
                lo = -hi if rng.random() < 0.7 else hi * 0.25
            X = rb * rng.uniform(1.3, 4) * rng.choice([-1, 1])
            Y = rb * rng.uniform(-0.5, 0.5)
            V = []
            for (t, u, w) in ((lo, 0.0, 0.0), (hi, 0.0, 0.0), (hi, X, Y), (lo, X, Y)):
                v = [0.0, 0.0, 0.0]
                v[ax], v[j], v[l] = t, u, w
                V.append(v)
            case["geom"] = {"kind": "polygon", "verts": V}
        else:
            a = [rb * sf * rng.uniform(0.4, 1) for _ in range(3)]
            c = [rb * rng.uniform(-0.5, 0.5) for _ in range(3)]
            c[ax] = a[ax] * rng.choice([-1, 1])          # one face exactly in the coordinate plane
            case["geom"] = {"kind": "box", "c": c, "a": a, "rotvec": [0.0, 0.0, 0.0]}
        case["size_factor"] = sf
        if clearance_ok(scene, Geom(case["geom"]))[0]:
            return case
    return None


def ray_start_constants():
    """the absolute offset of the ray start point in mask_inside_trimesh, read from the source
    (fail closed: raises if the literal cannot be found)"""
    import ast
    path = os.path.join(REPO, "magpylib", "_src", "fields", "field_BH_triangularmesh.py")
    tree = ast.parse(open(path).read())
    for fn in ast.walk(tree):
        if isinstance(fn, ast.FunctionDef) and fn.name == "mask_inside_trimesh":
            for node in ast.walk(fn):
                if (isinstance(node, ast.Call) and getattr(node.func, "attr", "") == "array" and node.args
                        and isinstance(node.args[0], (ast.List, ast.Tuple)) and len(node.args[0].elts) == 3):
                    vals = [ast.literal_eval(e) for e in node.args[0].elts]
                    if all(isinstance(v, (int, float)) for v in vals):
                        return [float(v) for v in vals]
    raise LookupError("no 3-vector literal np.array([...]) found in mask_inside_trimesh")


def whitebox_mesh_cases(rng, off, full=True):
    """TriangularMesh bodies placed, in their LOCAL frame, where the inside test's absolute ray-start
    offset could end up inside the body (before / after its internal normalisation, both signs, three
    length scales), each with closed boxes across its boundary and in its interior"""
    off = np.array(off, dtype=float)
    cases = []
    for size in (1.0, 1e-3, 1e3):
        for variant in range(8):
            if not full and (variant >= 4 or (variant >= 2 and size != 1.0)):
                continue
            corners = np.array([[i, j, k] for i in (0, 1) for j in (0, 1) for k in (0, 1)], dtype=float)
            P0 = corners + (0.5 - corners) * np.array([[rng.uniform(0, 0.2) for _ in range(3)] for _ in range(8)])
            P0 = P0 * np.array([rng.uniform(0.6, 1.0) for _ in range(3)])
            P0 -= P0.min(axis=0)
            ext = P0.max(axis=0)
            mid_n = 0.5 * ext / ext.max()                     # bbox centre in the code's unit-size copy
            sg = 1.0 if variant % 2 == 0 else -1.0
            if variant < 2:        # (pre-normalisation vmin) -+ offset lands in the unit-size body
                vmin = sg * off + mid_n
            elif variant < 4:      # the body contains +-offset itself (unnormalised)
                vmin = sg * off - 0.5 * size * ext
            elif variant < 6:      # the same in units of the body size
                vmin = size * (sg * off + mid_n)
            else:                  # vmin = +-2*offset (start point = +-offset would be a vertex region)
                vmin = sg * 2 * off - 0.5 * size * ext
            pts = size * P0 + vmin
            pol = [rng.uniform(-0.2, 0.2), rng.uniform(-0.2, 0.2), rng.choice([-1, 1]) * rng.uniform(0.6, 1.2)]
            src = {"type": "TriangularMesh", "pos": [0.0, 0.0, 0.0], "rotvec": [0.0, 0.0, 0.0],
                   "points": pts.tolist(), "polarization": pol}
            lo, hi = pts.min(axis=0), pts.max(axis=0)
            # a box that straddles the top side of the body (J mostly normal to it: an inverted inside test
            # shows as a flux of order |J| * cut area), and in the full battery one across a lateral side
            boxes = [([0.5 * (lo[0] + hi[0]), 0.5 * (lo[1] + hi[1]), hi[2]], "top")]
            if full:
                boxes.append(([hi[0], 0.5 * (lo[1] + hi[1]), 0.5 * (lo[2] + hi[2])], "side"))
            for c, name in boxes:
                half = [0.25 * (hi[k] - lo[k]) * rng.uniform(0.8, 1.2) for k in range(3)]
                cases.append({"law": "flux", "sources": [src], "coll": None, "focus": 0, "entry": "func",
                              "inconclusive": 5e-2, "min_evals": 6e4, "place": "whitebox-" + name,
                              "size_factor": 0.25,
                              "geom": {"kind": "box", "c": [float(x) for x in c], "a": half,
                                       "rotvec": [0.0, 0.0, 0.0]}})
    return cases


def whitebox_cylseg_cases(rng, full=True):
    """CylinderSegment wedges whose section angles cross the multiples of 360 (and 180) at which
    BHJM_cylinder_segment reduces / aliases angles, on both sides and beyond +-360, each with a closed
    box that straddles the top face in the part of the wedge just beyond that multiple"""
    cases = []
    for mult in (-720.0, -360.0, -180.0, 0.0, 360.0, 720.0):
        below, beyond = rng.uniform(20, 60), rng.uniform(15, 50)
        phi1, phi2 = mult - below, mult + beyond
        r2 = rng.uniform(0.6, 1.2)
        r1 = r2 * rng.uniform(0.3, 0.6)
        h = rng.uniform(0.5, 1.2)
        pol = [rng.uniform(-0.3, 0.3), rng.uniform(-0.3, 0.3), rng.choice([-1, 1]) * rng.uniform(0.6, 1.2)]
        src = {"type": "CylinderSegment", "pos": [0.0, 0.0, 0.0], "rotvec": [0.0, 0.0, 0.0],
               "dimension": [r1, r2, h, phi1, phi2], "polarization": pol}
        spots = [mult + 0.5 * beyond] + ([mult - 0.5 * below] if full or mult == -180.0 else [])
        for az in spots:
            rho = 0.5 * (r1 + r2)
            a = math.radians(az)
            half = 0.3 * min(r2 - r1, rho * math.radians(min(below, beyond)))
            case = {"law": "flux", "sources": [src], "coll": None, "focus": 0, "entry": "func",
                    "inconclusive": 5e-2, "place": "whitebox-top-face", "size_factor": half / math.hypot(r2, 0.5 * h),
                    "geom": {"kind": "box", "c": [rho * math.cos(a), rho * math.sin(a), 0.5 * h + 0.2 * half],
                             "a": [half, half * rng.uniform(0.7, 1), half * rng.uniform(0.7, 1)],
                             "rotvec": [0.0, 0.0, a]}}
            cases.append(case)
    return cases


def sweep(ctx, n_per_kind, n_coll, seconds, n_special=0, min_evals=2e4):
    rng = ctx.rng
    plan = []
    for kind in KINDS:
        for law in ("flux", "circ"):
            plan += [(law, [kind], False)] * int(round(n_per_kind * WEIGHT.get((kind, law), 1.0)))
    for _ in range(n_coll):
        k = rng.choice([2, 2, 3, 3, 4, 5])
        kinds = [rng.choice(KINDS) for _ in range(k)]
        # keep expensive classes rare inside collections
        kinds = [x if x not in ("CylinderSegment", "TriangularMesh") or rng.random() < 0.3 else "Cuboid" for x in kinds]
        plan.append((rng.choice(["flux", "circ"]), kinds, rng.random() < 0.7))
    for kind in KINDS:
        for law in ("flux", "circ"):
            plan += [(law, [kind], "special")] * n_special
    if "Polyline" in KINDS and n_special:
        for i in range(3 * n_special):
            plan.append(("circ", ["Polyline"] * (2 + i % 2), "equal-polylines"))
        plan += [("circ", ["Polyline"], "collinear")] * (2 * n_special)
    if "TriangularMesh" in KINDS and n_special:
        try:
            off = ray_start_constants()
            ctx.extra["whitebox_ray_start_offset"] = off
            import random as _random
            for c in whitebox_mesh_cases(_random.Random(ctx.seed * 1000 + 14), off, full=ctx.tier != "quick"):
                plan.append(("flux", ["TriangularMesh"], ("case", c)))
        except (LookupError, OSError, SyntaxError, ValueError) as e:      # fail closed
            ctx.add_broken("broken-translator", "C14 white-box battery: ray-start offset of mask_inside_trimesh",
                           f"{type(e).__name__}: {e}")
    if "CylinderSegment" in KINDS and n_special:
        import random as _random
        for c in whitebox_cylseg_cases(_random.Random(ctx.seed * 1000 + 15), full=ctx.tier != "quick"):
            plan.append(("flux", ["CylinderSegment"], ("case", c)))
    worst = {}
    for law, kinds, coll in plan:
        try:
            if isinstance(coll, tuple):
                case = coll[1]
            elif coll == "collinear":
                case = gen_collinear_case(rng)
            else:
                case = gen_special_case(rng, law, kinds[0]) if coll == "special" else gen_case(rng, law, kinds, coll)
        except FieldRaised as e:
            ctx.bump(f"{law}:construction-raised")
            if len(ctx.notes) < 5:
                ctx.notes.append(f"constructing a generated source raised ({'+'.join(kinds)}): {e}")
            continue
        if case is None:
            ctx.bump("generation-gave-up")
            continue
        try:
            res = evaluate(case, seconds, min_evals)
        except FieldRaised as e:
            # an exception of getB/getH on a valid input is not a statement about flux or circulation
            # (C15/C17 territory): counted and noted, never an alarm of this property
            ctx.bump(f"{law}:field-raised")
            if len(ctx.notes) < 5:
                ctx.notes.append(f"getB/getH raised on a generated case ({'+'.join(kinds)}): {e}")
            continue
        st = res["status"]
        ctx.bump(f"{law}:{st}")
        ctx.bump(f"{law}:{'+'.join(sorted(set(kinds))) if len(kinds) == 1 else 'collection'}")
        if coll == "special":
            ctx.bump(f"{law}:axis-aligned-special")
        if isinstance(coll, tuple):
            ctx.bump(f"{law}:whitebox-{kinds[0]}")
        if st in ("ok", "fail"):
            decade = int(math.floor(math.log10(case["size_factor"])))
            ctx.bump(f"size-decade:1e{decade}")
            ctx.bump(f"{law}:{placement_class(case, res)}")
            ctx.case(json.dumps(case, sort_keys=True), True,
                     sample={"law": law, "sources": [s["type"] for s in case["sources"]],
                             "geom": case["geom"]["kind"], "size_factor": case["size_factor"],
                             "value": res["value"], "expected": res["expected"], "scale": res["scale"],
                             "quadrature_error_estimate": res["err"], "evals": res["evals"]})
            key = (law, res["cut"])
            worst[key] = max(worst.get(key, 0.0), float(res.get("rel", 0.0)))
            ratio = float(res.get("rel", 0.0)) / res["thr_rel"] if res.get("thr_rel") else 0.0
            if not math.isfinite(ratio):
                ratio = 0.0
            wr = ctx.extra.setdefault("worst_residual_over_threshold", {})
            name = f"{law}:{'cut' if res['cut'] else 'free'}"
            if ratio > wr.get(name, 0.0):
                wr[name] = ratio
                ctx.extra.setdefault("worst_cases", {})[name] = {
                    "sources": [x["type"] for x in case["sources"]], "geom": case["geom"]["kind"],
                    "place": case.get("place"), "size_factor": case["size_factor"],
                    "residual_rel": float(res["rel"]), "threshold_rel": float(res["thr_rel"]),
                    "quadrature_error_rel": float(res["err"] / res["scale"]), "links": res.get("links")}
        ctx.count("field_evaluations", res.get("evals", 0))
        if st == "fail":
            if any(f["signature"] == signature(case, res) for f in ctx.impl_failures) and len(case["sources"]) == 1:
                ctx.impl_fail(signature(case, res), "", {})      # same finding again: only counted
                continue
            # confirm with a four times larger quadrature budget before believing it
            res = evaluate(case, 4 * seconds, 4 * min_evals)
            if res["status"] != "fail":
                ctx.bump(f"{law}:not-confirmed-with-larger-budget")
                continue
            small = shrink_case(case, 4 * seconds, 4 * min_evals)
            r2 = evaluate(small, 4 * seconds, 4 * min_evals)
            if r2["status"] != "fail":
                small, r2 = case, res
            ctx.impl_fail(signature(small, r2),
                          f"{'flux of B' if law == 'flux' else 'circulation of H'} = {r2['value']:.6g}, expected "
                          f"{r2['expected']:.6g} (quadrature error estimate {r2['err']:.2g}, scale max|F|*measure "
                          f"{r2['scale']:.4g}) for {[s['type'] for s in small['sources']]} and a "
                          f"{small['geom']['kind']} of relative size {small['size_factor']:.3g}",
                          {"kind": "c14-case", "case": small})
    ctx.extra.setdefault("worst_relative_residual", {}).update(
        {f"{k[0]}:{'cut' if k[1] else 'free'}": v for k, v in worst.items()})


# ====================================================================== correspondence
def fhex(x):
    x = float(x)
    if x != x or x in (float("inf"), float("-inf")):
        raise ValueError("non-finite input")
    h = x.hex()
    return f"({h})" if h.startswith("-") else h


def fv(v):
    return "(" + ", ".join(fhex(x) for x in v) + ")"


def parse_rows(out):
    body = out[out.index("=") + 1:]
    body = body[:body.rindex(":")]
    rows = []
    for m in re.finditer(r"\[([^\[\]]*)\]", body):
        toks = [t.strip().replace("%float", "").strip("()") for t in m.group(1).split(";")]
        row = []
        for t in toks:
            if t == "nan":
                row.append(float("nan"))
            elif t == "infinity":
                row.append(float("inf"))
            elif t == "neg_infinity":
                row.append(float("-inf"))
            else:
                row.append(float(t))
        rows.append(row)
    return rows


CASES_HEADER = """From Coq Require Import ZArith List Floats.PrimFloat.
From MV Require Import Model.CoreNum Model.CoreModel Model.CoreExec Model.LawsModel Model.LawsExec.
Import ListNotations. Open Scope float_scope.
"""


def dy(rng, lo=-4.0, hi=4.0):
    return rng.uniform(lo, hi)


def gen_rows(rng, n):
    rows = []
    for i in range(n):
        which = ("dipole", "sphere", "circle", "polyline", "polysum")[i % 5]
        fld = "B" if rng.random() < 0.5 else "H"
        if which == "dipole":
            o = [dy(rng) for _ in range(3)]
            if i % 30 == 0:
                o = [0.0, 0.0, 0.0]
            m = [dy(rng, -10, 10) for _ in range(3)]
            if i % 60 == 0:
                m[1] = 0.0
            rows.append(("dipole", fld, o, m))
        elif which == "sphere":
            d = rng.uniform(0.2, 5) * rng.choice([1, 1, 1, -1])
            o = list(runit(rng) * abs(d) / 2 * loguniform(rng, 0.05, 20))
            rows.append(("sphere", fld, o, d, [dy(rng, -2, 2) for _ in range(3)]))
        elif which == "polyline":
            p1 = [dy(rng) for _ in range(3)]
            p2 = [dy(rng) for _ in range(3)]
            x = rng.random()
            if x < 0.6:
                o = [dy(rng) for _ in range(3)]
            elif x < 0.9:      # foot of the perpendicular beyond one end / between the ends
                t = rng.choice([-3.0, -1.5, -0.25, 0.25, 0.5, 1.5, 4.0])
                o = [a + t * (b - a) + 0.3 * dy(rng) for a, b in zip(p1, p2)]
            elif x < 0.95:     # exactly on the supporting line (dyadic, exact in binary64)
                p1 = [float(rng.randint(-4, 4)) for _ in range(3)]
                p2 = [a + float(rng.choice([-2, -1, 1, 2])) for a in p1]
                t = rng.choice([-2.0, 0.25, 0.5, 3.0])
                o = [a + t * (b - a) for a, b in zip(p1, p2)]
            else:              # zero-length segment
                o, p2 = [dy(rng) for _ in range(3)], list(p1)
            rows.append(("polyline", fld, o, p1, p2, dy(rng, -10, 10)))
        elif which == "polysum":
            k = rng.randint(3, 5)
            vs = [[dy(rng) for _ in range(3)] for _ in range(k)]
            if rng.random() < 0.8:
                vs.append(list(vs[0]))
            if rng.random() < 0.15:
                vs.insert(1, list(vs[0]))     # a zero-length segment inside the chain
            rows.append(("polysum", fld, [dy(rng) for _ in range(3)], vs, dy(rng, -10, 10)))
        else:
            d = rng.uniform(0.2, 5) * rng.choice([1, 1, -1])
            cur = dy(rng, -10, 10)
            x = rng.random()
            if x < 0.75:
                o = [0.0, 0.0, dy(rng) * abs(d)]
            elif x < 0.85:
                o = [dy(rng), dy(rng), dy(rng)]
            elif x < 0.92:
                o = [abs(d) / 2, 0.0, 0.0]
            else:
                o, d = [0.0, 0.0, dy(rng)], 0.0
            rows.append(("circle", fld, o, d, cur))
    return [special_row(rng, r) for r in rows]


def special_row(rng, row):
    """exact special values (excitation along one axis, zero current) and other length units"""
    row = list(row)
    which = row[0]
    x = rng.random()
    if x < 0.2:
        if which in ("dipole", "sphere"):
            k = 3 if which == "dipole" else 4
            v = [0.0, 0.0, 0.0]
            v[rng.randrange(3)] = rng.choice([-1.0, 1.0]) * rng.uniform(0.1, 5)
            row[k] = v
        elif rng.random() < 0.2:
            row[-1] = 0.0            # zero current
    if rng.random() < 0.3:
        u = rng.choice([1e-6, 1e-3, 1e3])
        row[2] = [a * u for a in row[2]]
        if which in ("sphere", "circle"):
            row[3] = row[3] * u
        elif which == "polyline":
            row[3] = [a * u for a in row[3]]
            row[4] = [a * u for a in row[4]]
        elif which == "polysum":
            row[3] = [[a * u for a in v] for v in row[3]]
    return tuple(row)


def impl_batched(rows):
    """the same rows, but every class in ONE call per field (>= 16 rows, all dispatch regions of the
    class mixed); returns {row index: vector}"""
    out = {}
    groups = {}
    for i, r in enumerate(rows):
        key = (r[0], r[1]) if r[0] != "polysum" else (r[0], r[1], len(r[3]))
        groups.setdefault(key, []).append(i)
    for key, idx in groups.items():
        which, fld = key[0], key[1]
        A = lambda k: np.array([rows[i][k] for i in idx], dtype=float)     # noqa: E731
        if which == "dipole":
            v = field_BH_dipole.BHJM_dipole(fld, A(2), A(3))
        elif which == "sphere":
            v = field_BH_sphere.BHJM_magnet_sphere(fld, A(2), A(3), A(4))
        elif which == "circle":
            v = field_BH_circle.BHJM_circle(fld, A(2), A(3), A(4))
        elif which == "polyline":
            v = field_BH_polyline.BHJM_current_polyline(fld, A(2), A(3), A(4), A(5))
        else:
            v = field_BH_polyline.current_vertices_field(fld, A(2), A(4), vertices=A(3))
        for i, vi in zip(idx, v):
            out[i] = [float(x) for x in vi]
    # ragged vertex sets of different lengths in one call
    for fld in ("B", "H"):
        idx = [i for i, r in enumerate(rows) if r[0] == "polysum" and r[1] == fld]
        if len({len(rows[i][3]) for i in idx}) > 1:
            verts = np.empty(len(idx), dtype=object)
            for j, i in enumerate(idx):
                verts[j] = np.array(rows[i][3], dtype=float)
            v = field_BH_polyline.current_vertices_field(
                fld, np.array([rows[i][2] for i in idx], dtype=float),
                np.array([rows[i][4] for i in idx], dtype=float), vertices=verts)
            for i, vi in zip(idx, v):
                out[("ragged", i)] = [float(x) for x in vi]
    return out


def impl_row(row):
    which, fld = row[0], row[1]
    if which == "dipole":
        v = field_BH_dipole.BHJM_dipole(fld, np.array([row[2]], dtype=float), np.array([row[3]], dtype=float))[0]
        return [0.0] + list(v)
    if which == "sphere":
        o = np.array([row[2]], dtype=float)
        v = field_BH_sphere.BHJM_magnet_sphere(fld, o, np.array([row[3]], dtype=float),
                                               np.array([row[4]], dtype=float))[0]
        code = 1.0 if np.sqrt(o[0, 0] ** 2 + o[0, 1] ** 2 + o[0, 2] ** 2) > abs(row[3]) / 2 else 0.0
        return [code] + list(v)
    if which == "polyline":
        v = field_BH_polyline.BHJM_current_polyline(fld, np.array([row[2]], dtype=float),
                                                    np.array([row[3]], dtype=float), np.array([row[4]], dtype=float),
                                                    np.array([row[5]], dtype=float))[0]
        return [None] + list(v)
    if which == "polysum":
        v = field_BH_polyline.current_vertices_field(fld, np.array([row[2]], dtype=float),
                                                     np.array([row[4]], dtype=float),
                                                     vertices=np.array([row[3]], dtype=float))[0]
        return [float(len(row[3]))] + list(v)
    o = np.array([row[2]], dtype=float)
    v = field_BH_circle.BHJM_circle(fld, o, np.array([row[3]], dtype=float), np.array([row[4]], dtype=float))[0]
    return [None] + list(v)


def coq_row(row):
    which, fld = row[0], "F" + row[1]
    if which == "dipole":
        return f"run14_dipole {fld} {fhex(field_BH_dipole.MU0)} {fv(row[2])} {fv(row[3])}"
    if which == "sphere":
        return f"run14_sphere {fld} {fhex(field_BH_sphere.MU0)} {fv(row[2])} {fhex(row[3])} {fv(row[4])}"
    if which == "polyline":
        return (f"run14_polyline {fld} {fhex(field_BH_polyline.MU0)} {fv(row[2])} {fv(row[3])} {fv(row[4])} "
                f"{fhex(row[5])}")
    if which == "polysum":
        return (f"run14_polysum {fld} {fhex(field_BH_polyline.MU0)} {fhex(row[4])} "
                f"[{'; '.join(fv(v) for v in row[3])}] {fv(row[2])}")
    return f"run14_circle {fld} {fhex(field_BH_circle.MU0)} {fv(row[2])} {fhex(row[3])} {fhex(row[4])}"


def close(a, b, scale):
    if math.isinf(a) or math.isinf(b):
        return a == b
    return abs(a - b) <= 1e-9 * scale + 1e-300


def correspondence(ctx, n):
    rows = gen_rows(ctx.rng, n)
    impl = [impl_row(r) for r in rows]
    batched = impl_batched(rows)
    txt = CASES_HEADER + "Eval vm_compute in [\n " + ";\n ".join(coq_row(r) for r in rows) + "].\n"
    name = f"c14_{ctx.tier}_{os.getpid()}"       # concurrent checks must not share the cases file
    ok, out = ctx.coq_eval(name, txt)
    for ext in (".v", ".vo", ".vok", ".vos", ".glob"):
        try:
            os.remove(os.path.join(COQ, "Cases", name + ext))
        except OSError:
            pass
    if not ok:
        ctx.add_broken("broken-correspondence", "c14 model evaluation", out[-1500:])
        return
    got = parse_rows(out)
    if len(got) != len(rows):
        ctx.add_broken("broken-correspondence", "c14 model evaluation", f"{len(got)} rows for {len(rows)} cases")
        return
    bad = 0
    for ri, (r, e, g) in enumerate(zip(rows, impl, got)):
        code, vec = g[0], g[1:]
        ctx.bump(f"corr:{r[0]}:{r[1]}:branch{int(code)}")
        if r[0] == "circle" and code == 2:
            ctx.case(("corr", repr(r)), False)
            continue        # general branch: not modelled, nothing to compare
        ctx.case(("corr", repr(r)), True)
        scale = max([abs(x) for x in e[1:] if math.isfinite(x)] + [0.0])
        same = (e[0] is None or e[0] == code) and all(close(float(a), float(b), scale) for a, b in zip(e[1:], vec))
        for key in (ri, ("ragged", ri)):
            if key in batched and not all(close(float(a), float(b), scale) for a, b in zip(batched[key], vec)):
                same = False
                ctx.bump("corr:batched-call-differs")
        if same:
            ctx.count("traces_validated_against_impl")
        else:
            bad += 1
            if bad <= 3:
                ctx.add_broken("broken-correspondence", f"CoreModel {r[0]} vs implementation",
                               json.dumps({"row": r, "impl": [None if x is None else float(x) for x in e], "model": g}))
    if len(ctx.samples) < 8 and rows:
        ctx.samples.append({"correspondence_row": rows[1], "impl": [float(x) if x is not None else None for x in impl[1]],
                            "model": got[1]})


# ====================================================================== entry points
def run(ctx):
    ctx.extra["rule"] = (
        "search: one case = (sources with poses, optional collection pose, a closed box/sphere or a closed "
        "circle/polygon); distinct by canonical JSON; counted when the adaptive quadrature reached an error "
        "estimate below 2e-3 of max|field|*measure.  correspondence: one row of BHJM_dipole / BHJM_magnet_sphere / "
        "BHJM_circle / BHJM_current_polyline / current_vertices_field; non-trivial unless it falls into the Circle's "
        "unmodelled general branch")
    ctx.trusted += [
        "hand models dipole_BH / sphere_BH / circle_BH (on-axis and zero branches) / polyline_H_br of "
        "coq/Model/CoreModel.v (owner C01) and poly_sum_gen of coq/Model/LawsModel.v, tied to BHJM_dipole / "
        "BHJM_magnet_sphere / BHJM_circle / BHJM_current_polyline / current_vertices_field by the float "
        "correspondence of this check (binary64 vm_compute vs numpy, rtol 1e-9, all branches): validates the "
        "model, proves nothing; NaN masks of the polyline wrapper are not modelled",
        "Coquelicot (Derive, is_derive, RInt, filterlim) and the standard-library real-number axioms listed "
        "under print_assumptions",
        "the integral laws themselves (flux through closed surfaces, circulation around closed loops) are NOT "
        "proved: no divergence/Stokes theorem is available; they are only searched by quadrature on the "
        "implementation (harness/c14_quad.py, linking numbers by signed crossing counts)",
    ]
    ctx.partial += ["C14_dipole_source_free_partial", "C14_sphere_exterior_source_free_partial",
                    "C14_sphere_interior_source_free_partial", "C14_circle_axis_ampere_partial",
                    "C14_closed_polyline_source_free_partial", "C14_closed_polyline_B_source_free_partial"]
    built = ctx.build_props()
    if ctx.tier == "thorough" and built:
        ctx.coqchk("MV.Props.C14")
    if built:
        # the runners of the correspondence are not a dependency of Props/C14.vo: build them too
        with Lock():
            rc, out = sh("make -j4 Model/LawsExec.vo", 600, cwd=COQ)
        if rc != 0:
            ctx.add_broken("broken-correspondence", "Model/LawsExec.v does not compile", out[-1500:])
        else:
            run_guarded(ctx, lambda: correspondence(ctx, ctx.n(600, 6000)), "C14 correspondence")
    big = bool(ctx.broken)
    mult = 4 if big else 1
    run_guarded(ctx, lambda: sweep(ctx, ctx.n(12, 40) * mult, ctx.n(30, 150) * mult, ctx.n(0.35, 1.0),
                                   ctx.n(3, 12) * mult, ctx.n(2e4, 3e4)),
                "C14 quadrature sweep")


def replay(ctx, obj):
    rp = obj.get("replay", obj)
    if rp.get("kind") == "c14-case":
        res = evaluate(rp["case"], 6.0, 1e5)
        print("replay:", json.dumps({k: v for k, v in res.items()}, default=str))
        if res["status"] == "fail":
            print(f"VIOLATION property=C14 replay={obj.get('how_to_rerun', '').split()[-1] or 'given'}")
            return 1
        return 0
    print(json.dumps(obj, indent=1)[:3000])
    return 0
