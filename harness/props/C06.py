"""C06 -- each output element depends only on its own source, path index and observer."""
import json

import numpy as np

from harness.common import run_guarded
from harness import level2 as l2
from harness import l2_real as lr
from harness import batch_corr as bc
from harness import numeric_battery as nb
from harness import octa
from harness.octa import clist
from harness.shrink import shrink_list

import magpylib as magpy


# ------------------------------------------------------------------ exact cases (stub sources)
def smallest_cases():
    """one source, one observer, one path step -- and the first steps up from there"""
    out = []
    for key in (0, 10):
        for pix in (None, [[1, 2, 3]], [[1, 0, 0], [0, 2, 0]]):
            for n_src in (1, 2):
                for plen in (1, 2):
                    leaf = {"key": key, "tag": [1] if key < 10 else None, "pos": [[1, 0, 0]] * plen,
                            "ori": [3] * plen, "fresh": False}
                    srcs = [{"leaf": dict(leaf, pos=[[i + 1, j, 0] for j in range(plen)])} for i in range(n_src)]
                    sens = [{"pos": [[0, 0, 1]], "ori": [octa.IDENT], "pixel": pix, "left": False}]
                    out.append({"sources": srcs, "sensors": sens, "agg": 0, "sumup": False})
    # several groups interleaved so that the grouping permutation is not an involution
    for pat in ([0, 1, 2, 0, 1, 2], [0, 1, 0, 2, 1, 0, 2], [2, 10, 1, 1, 10, 2, 10], [11, 0, 10, 11, 0, 10]):
        srcs = [{"leaf": {"key": k, "tag": [i + 1, -i][:1 + i % 2] if k < 10 else None, "fresh": False,
                          "pos": [[i, j, -i] for j in range(1 + i % 3)], "ori": [(5 * i + j) % 24 for j in range(1 + i % 3)]}}
                for i, k in enumerate(pat)]
        sens = [{"pos": [[0, 0, 1], [1, 0, 1]], "ori": [3, 7], "pixel": [[1, 0, 2], [0, -1, 1]], "left": False}]
        out.append({"sources": srcs, "sensors": sens, "agg": 0, "sumup": False})
    return out


def interleaved_case(rng):
    """1-6 sources of 1-3 groups in interleaved order, path lengths 1..5 independently, ragged tags
    (several sources of one class with different property lengths), 1-3 sensors"""
    n = rng.randint(1, 6)
    keys = [rng.choice([0, 1, 2, 10, 11]) for _ in range(3)][:rng.randint(1, 3)]
    srcs = []
    for _ in range(n):
        k = rng.choice(keys)
        pos, ori = l2.g_path(rng, 5)
        leaf = {"key": k, "pos": pos, "ori": ori, "fresh": False,
                "tag": [rng.randint(-2, 2) for _ in range(rng.randint(1, 4))] if k < 10 else None}
        srcs.append({"leaf": leaf})
    shape0 = rng.choice([None, (), (2,), (2, 2)])
    sens = [l2.g_sensor(rng, 5, shape=shape0) for _ in range(rng.randint(1, 3))]
    return {"sources": srcs, "sensors": sens, "agg": 0, "sumup": False}


def bucket(ctx, case):
    srcs = l2.resolve(case["sources"])
    leaves = [x for s in srcs for x in (l2.flatten_tree(s["tree"]) if "tree" in s else [s["leaf"]])]
    ctx.bump(f"exact:sources={min(len(srcs), 6)}")
    ctx.bump(f"exact:groups={len({(x['key'], x.get('fresh', False)) for x in leaves})}")
    ctx.bump(f"exact:sensors={len(case['sensors'])}")
    ctx.bump(f"exact:maxpath={max(len(x['pos']) for x in leaves + l2.resolve(case['sensors']))}")
    if any("tree" in s for s in srcs):
        ctx.bump("exact:with-collection")
    if any("dup" in s for s in case["sources"]):
        ctx.bump("exact:duplicate-source")


def shape_case_text(case, sh_nosq, sh_sq):
    return "(mkL2S %s %s %d%%nat %s %s %s)" % (
        clist([l2.c_src(s) for s in l2.resolve(case["sources"])]), clist([l2.c_sens(s) for s in l2.resolve(case["sensors"])]),
        case["agg"], "true" if case["sumup"] else "false",
        clist([f"{n}%nat" for n in sh_nosq]), clist([f"{n}%nat" for n in sh_sq]))


def impl_squeeze(case):
    """shapes with squeeze False / True and whether the data buffers agree"""
    srcs, sens = l2.build(case)
    kw = dict(sumup=case["sumup"], pixel_agg=l2.AGG[case["agg"]])
    a = magpy.getB(srcs, sens, squeeze=False, **kw)
    b = magpy.getB(srcs, sens, squeeze=True, **kw)
    return list(a.shape), list(np.shape(b)), bool(np.array_equal(np.ravel(a), np.ravel(b)))


def exact_oracle(ctx, cases, limit):
    """the property itself on the exact cases: element-by-element via single static calls"""
    done = 0
    for case in cases:
        if done >= limit:
            break
        if case["sumup"] or case["agg"]:
            continue
        done += 1
        try:
            got = l2.impl_run(case)
            exp = octa.ints(np.array(l2.oracle_element(case), dtype=float))
        except Exception as e:   # pylint: disable=broad-except
            ctx.impl_fail("element-spec/raises", f"valid call raised {type(e).__name__}: {e}", {"kind": "exact", "case": case})
            continue
        ctx.count("exact_oracle_cases")
        if got != exp:
            def fails(srcs, case=case):
                if not srcs:
                    return False
                c2 = dict(case, sources=[s for s in srcs if "dup" not in s])
                try:
                    return l2.impl_run(c2) != octa.ints(np.array(l2.oracle_element(c2), dtype=float))
                except Exception:   # pylint: disable=broad-except
                    return False
            srcs = shrink_list(case["sources"], fails, max_steps=20)
            c2 = dict(case, sources=[s for s in srcs if "dup" not in s]) if fails(srcs) else case
            n_s, n_k = len(c2["sources"]), len(c2["sensors"])
            ctx.impl_fail(f"element-spec/stub:sources={'1' if n_s == 1 else 'many'}:sensors={'1' if n_k == 1 else 'many'}",
                          "vectorised result differs from the element-by-element evaluation on exact stub sources",
                          {"kind": "exact", "case": c2})


# ------------------------------------------------------------------ search on the real classes
def real_sweep(ctx, n_cases, n_special):
    for i in range(n_cases):
        case = lr.g_case(ctx.rng, one_class=(i % 3 == 0), max_src=4 if i % 5 else 6)
        if i % 4 == 3:       # the same kind of scene in mm, um and km
            case = lr.scale_case(case, lr.LENGTH_SCALES[(i // 4) % 3])
            ctx.bump("real:length-scale")
        check_real(ctx, case, "generic")
    for i in range(n_special):
        cls = lr.SPECIAL_CLASSES[i % len(lr.SPECIAL_CLASSES)]
        sc = lr.LENGTH_SCALES[(i // 7) % 3] if (i // 7) % 2 else 1.0
        check_real(ctx, lr.g_special_case(ctx.rng, cls, mixed=(i // len(lr.SPECIAL_CLASSES)) % 3 != 2, scale=sc,
                                          full=(i // len(lr.SPECIAL_CLASSES)) % 3 == 0), "special")
    for _ in range(max(3, n_cases // 12)):
        check_real(ctx, lr.g_interleaved_case(ctx.rng), "interleaved-3-classes")
    # in_out modes of the bodies with an inside/outside decision
    for i in range(max(4, n_cases // 9)):
        cls = ("TriangularMesh", "Tetrahedron")[i % 2]
        case = {"sources": [lr.g_leaf(ctx.rng, 2, cls) for _ in range(ctx.rng.randint(2, 3))]}
        pts = [lr.inside_point(ctx.rng, s) for s in case["sources"]] + [lr.rvec(ctx.rng, -3, 3)]
        case["sensors"] = [{"pos": [[0.0, 0.0, 0.0]], "rot": [[0.0, 0.0, 0.0]], "pixel": pts, "left": False}]
        check_real(ctx, case, "in_out", kw={"in_out": ("inside", "outside")[(i // 2) % 2]})
    # other public entry points / observer formats / output modes, and call -> mutation -> call histories
    for i in range(max(10, n_cases // 3)):
        case = lr.g_case(ctx.rng, max_src=3, max_sens=2, maxlen=3) if i % 2 else \
            lr.g_hetero_case(ctx.rng, lr.HETERO_CLASSES[i % len(lr.HETERO_CLASSES)])
        if i % 5 == 4:
            case = lr.scale_case(case, lr.LENGTH_SCALES[i % 3])
        field = lr.FIELDS[i % 4]
        cache = {}
        for kind in ("source-method", "dataframe", "squeeze", "positions", "observer-collection"):
            try:
                X = lr.entry_variants(case, field, kind)
            except Exception as e:   # pylint: disable=broad-except
                ctx.impl_fail(f"row-independent/entry:{kind}:raises", f"{kind} form of get{field} raised {type(e).__name__}: {e}",
                              {"kind": "real", "field": field, "case": case})
                continue
            if X is None:
                continue
            ctx.bump("real:entry:" + kind)
            mm = lr.element_mismatches(case, field, B=X, cache=cache)
            if mm:
                l, m, k, p, got, one = mm[0]
                ctx.impl_fail(f"row-independent/entry:{kind}:{lr.cls_of(case['sources'][l])}:{field}",
                              f"get{field} through `{kind}`: element (source {l}, path {m}, sensor {k}, pixel {p}) = {got}, "
                              f"the same source / step / pixel alone = {one}",
                              {"kind": "real-entry", "entry": kind, "field": field, "case": case})
        try:
            h = lr.history_mismatch(ctx.rng, case, field)
        except Exception as e:   # pylint: disable=broad-except
            h = f"raised {type(e).__name__}: {e}"
        ctx.bump("real:history")
        if h:
            ctx.impl_fail(f"row-independent/history:{field}", "call -> public mutations -> call differs from the call on fresh "
                          "twins of the mutated objects: " + h[:400], {"kind": "real-history", "field": field, "case": case})
    # groups of exactly one row at the end: two meshes / polylines with different counts, one observer each
    for cls in ("TriangularMesh", "Polyline", "Tetrahedron"):
        for _ in range(max(2, n_cases // 20)):
            a, b = lr.g_leaf(ctx.rng, 1, cls), lr.g_leaf(ctx.rng, 1, cls)
            case = {"sources": [a, b],
                    "sensors": [{"pos": [[0.0, 0.0, 0.0]], "rot": [[0.0, 0.0, 0.0]], "pixel": lr.inside_point(ctx.rng, b), "left": False}]}
            check_real(ctx, case, "last-group-of-one")
    # rows of one group in different parameter regions of the class's dispatch (heterogeneous masks)
    for i in range(max(30, n_cases // 2)):
        cls = lr.HETERO_CLASSES[i % len(lr.HETERO_CLASSES)] if i % 3 else "CylinderSegment"
        check_real(ctx, lr.g_hetero_case(ctx.rng, cls), "hetero-dispatch")
    # large field ratios inside one vectorised group, strong source before and after the weak ones
    for i in range(max(8, n_cases // 4)):
        cls = ("Polyline", "Polyline", "TriangularMesh")[i % 3]
        check_real(ctx, lr.g_dynamic_case(ctx.rng, cls, ragged=(i // 3) % 4 != 3, strong_first=(i // 12) % 2 == 0 if i >= 12 else i % 2 == 0),
                   "dynamic-range")
    # equal bodies with different excitations share a group: each row must keep its own excitation
    for cls in ("TriangularMesh", "Tetrahedron", "Cuboid", "CylinderSegment"):
        for _ in range(max(2, n_cases // 20)):
            a = lr.g_leaf(ctx.rng, 1, cls)
            b = lr.g_leaf(ctx.rng, 1, cls)
            b = dict(b, args=dict(a["args"], pol=lr.g_pol(ctx.rng)))
            pts = [lr.inside_point(ctx.rng, b), lr.inside_point(ctx.rng, a)]
            case = {"sources": [a, b],
                    "sensors": [{"pos": [[0.0, 0.0, 0.0]], "rot": [[0.0, 0.0, 0.0]], "pixel": pts, "left": False}]}
            check_real(ctx, case, "equal-bodies-different-excitation")


def check_real(ctx, case, kind, kw=None):
    for field in lr.FIELDS:
        try:
            mm = lr.element_mismatches(case, field, kw=kw)
        except Exception as e:   # pylint: disable=broad-except
            ctx.impl_fail(f"row-independent/raises:{type(e).__name__}",
                          f"get{field} raised {type(e).__name__}: {e}", {"kind": "real", "field": field, "case": case})
            continue
        ctx.case(json.dumps([case, field], sort_keys=True), True,
                 sample={"kind": kind, "field": field, "case": case} if len(ctx.samples) < 3 else None)
        ctx.count("real_elements_compared", lr.n_elements(case))
        ctx.bump(f"real:{kind}")
        for s in case["sources"]:
            ctx.bump("real-class:" + lr.cls_of(s).split("(")[0])
        if mm and kw:
            l, m, k, p, got, one = mm[0]
            ctx.impl_fail(f"row-independent/{lr.cls_of(case['sources'][l])}:{field}:{sorted(kw.items())}",
                          f"get{field}({kw}) element (source {l}, path {m}, sensor {k}, pixel {p}) in the call = {got}, alone = {one}",
                          {"kind": "real", "field": field, "case": case, "kw": kw})
        elif mm:
            report_real(ctx, case, field, mm[0])


def report_real(ctx, case, field, mm):
    l, m, k, p, got, one = mm
    c2, l2_, m2, k2, p2, trig = lr.shrink_element(case, field, l, m, k, p)
    if not lr.element_fails(c2, field, l2_, m2, k2, p2):
        c2, l2_, m2, k2, p2 = case, l, m, k, p
    sig = lr.signature(c2, field, l2_, m2, k2, p2, trig)
    again = lr.element_mismatches(c2, field, only=(l2_, m2, k2, p2))
    got, one = (again[0][4], again[0][5]) if again else (got, one)
    ctx.impl_fail(sig, f"get{field} element (source {l2_}, path {m2}, sensor {k2}, pixel {p2}) in the call = {got}, "
                       f"the same source / step / pixel alone = {one}",
                  {"kind": "real", "field": field, "case": c2, "element": [l2_, m2, k2, p2]})


# ------------------------------------------------------------------ run
def run(ctx):
    ctx.extra["rule"] = ("exact: getB through the real getBH_level2 with harness-defined integer stub sources "
                         "(octahedral rotations, integer positions) compared with the Coq model AND its declarative "
                         "element specification; a case is distinct by its canonical JSON, non-trivial if it has more "
                         "than one element. real: every (source, path index, sensor, pixel) element of a vectorised "
                         "getB/getH/getJ/getM call on real classes compared with the isolated static single call")
    ctx.trusted += [
        "translator translate/gen_l2arith.py (python expressions of the level-2 data flow -> deep embedding pyexp)",
        "translator translate/gen_batch.py (inventory of batch-level constructs by syntactic pattern; structural "
        "translation of the TriangularMesh grouping loop bounds, cel/cel_iter switches, CylinderSegment exit order)",
        "hand model coq/Model/Level2Model.v of getBH_level2 (grouping, tiling, scatter, collection loop, sensor "
        "rotation, pixel shaping) tied by the exact correspondence; coq/Model/BatchModel.v list-level models of the "
        "batch constructs are hand-written from the source, tied only through the translated parameters, the "
        "inventory and the vectorised-vs-single search",
        "closed-form cores (what a row computes) are abstract row-wise functions in every theorem",
    ]
    ok = ctx.regen(["GenBatch", "GenL2Arith"])
    built = ctx.build_props() and ok
    if built:
        ctx.refuted += ["C06_cel_switch_refuted", "C06_cel_iterv_refuted"]
        # C06_cylseg_J/M_refuted and C06_cylseg_JM are both conditional on the translated flags: say which is live
        import os
        import re
        from harness.common import COQ
        gen = open(os.path.join(COQ, "Gen", "GenBatch.v")).read()
        flags = dict(re.findall(r"Definition (cylseg_\w+) : bool := (true|false)\.", gen))
        for f in "JM":
            rowwise = flags.get(f"cylseg_exit_before_{f}") == "false" or flags.get(f"cylseg_{f}_zero_on_surface") == "true"
            ctx.extra.setdefault("cylseg_JM_live_theorem", {})[f] = "C06_cylseg_JM (row-wise)" if rowwise else f"C06_cylseg_{f}_refuted"
            if not rowwise:
                ctx.refuted.append(f"C06_cylseg_{f}_refuted")
        ctx.partial += ["C06_cel_switch_partial", "C06_cel_iterv_partial"]
    if ctx.tier == "thorough" and built:
        ctx.coqchk("MV.Props.C06")

    def corr():
        cases = smallest_cases()
        for _ in range(ctx.n(150, 1500)):
            cases.append(interleaved_case(ctx.rng))
        for _ in range(ctx.n(100, 1000)):
            cases.append(l2.g_case(ctx.rng, max_src=5, max_sens=3, maxlen=5))
        cs, shp = [], []
        for c in cases:
            try:
                out = l2.impl_run(c)
                sh = impl_squeeze(c)
            except Exception as e:   # pylint: disable=broad-except
                ctx.impl_fail("element-spec/raises", f"valid call raised {type(e).__name__}: {e}", {"kind": "exact", "case": c})
                continue
            if not sh[2]:
                ctx.impl_fail("squeeze/data-changed", "squeeze=True changed the data, not only the shape", {"kind": "exact", "case": c})
            cs.append((c, out))
            shp.append((c, sh))
            ctx.case(json.dumps(c, sort_keys=True), np.size(out) > 3)
            bucket(ctx, c)
        ctx.samples.append({"exact_case": cs[len(cs) // 2][0], "impl_out": cs[len(cs) // 2][1]})
        if not built:
            return cases
        bad = l2.model_check(ctx, "c06_" + ctx.tier, cs)
        if bad is None:
            return cases
        ctx.count("traces_validated_against_impl", len(cs) - len(bad))
        for bi in bad[:3]:
            ctx.add_broken("broken-correspondence", "Level2Model / spec vs getBH_level2", json.dumps(cs[bi][0]))
        # shapes with and without squeeze
        for ci in range(0, len(shp), 100):
            part = shp[ci:ci + 100]
            txt = l2.HEADER + "Definition cases : list l2shape :=\n[" + \
                ";\n ".join(shape_case_text(c, s[0], s[1]) for c, s in part) + "].\nEval vm_compute in (failing_l2shape cases).\n"
            okc, outc = ctx.coq_eval(f"l2shape_{ctx.tier}_{ci}", txt)
            res = octa.parse_z_list(outc) if okc else None
            if res is None:
                ctx.add_broken("broken-correspondence", "result_shape evaluation", outc[-1500:])
                break
            ctx.count("shapes_validated", len(part) - len(res))
            for bi in res[:3]:
                c, s = part[bi]
                # is it the implementation that breaks the property (squeeze must only drop unit axes)?
                if [n for n in s[0] if n != 1] != s[1]:
                    ctx.impl_fail("squeeze/not-unit-axes", f"squeeze=False shape {s[0]}, squeeze=True shape {s[1]}",
                                  {"kind": "exact", "case": c})
                else:
                    ctx.add_broken("broken-correspondence", "result_shape vs implementation", json.dumps([c, s]))
        return cases

    cases = run_guarded(ctx, corr, "C06 correspondence") or []

    def batch_stage():
        if not built:
            return
        bad = bc.run(ctx, ctx.n(60, 600)) or []
        for kind, case, out in bad[:4]:
            # is the real function (with row-wise stub cores) itself not row-wise on this input?
            single = None
            if kind == "cvf":
                single = [bc.run_cvf([r])[0] for r in case]
            elif kind == "tm":
                single = [bc.run_tm(dict(case, rows=[r]))[0] for r in case["rows"]]
            if single is not None and single != out:
                fn = "current_vertices_field" if kind == "cvf" else "BHJM_magnet_trimesh"
                ctx.impl_fail(f"row-independent/stub-cores:{fn}",
                              f"{fn} with row-wise integer stub cores: batch result {out} differs from row-by-row {single}",
                              {"kind": "batch-stub", "which": kind, "case": case})
            else:
                ctx.add_broken("broken-correspondence", f"BatchModel ({kind}) vs implementation", json.dumps([case, out]))
    run_guarded(ctx, batch_stage, "C06 batch-model correspondence")
    # dedicated batched-vs-single batteries for the code paths with verdict NumericOnly in the inventory
    run_guarded(ctx, lambda: nb.run(ctx, ctx.n(60, 1500) * (4 if ctx.broken else 1)), "C06 numeric batteries")
    big = bool(ctx.broken)
    run_guarded(ctx, lambda: exact_oracle(ctx, cases, ctx.n(40, 400) * (5 if big else 1)), "C06 exact oracle")
    run_guarded(ctx, lambda: real_sweep(ctx, ctx.n(36, 600) * (4 if big else 1), ctx.n(42, 420) * (3 if big else 1)),
                "C06 real-class sweep")


def replay(ctx, obj):
    rp = obj.get("replay", obj)
    if rp.get("kind") == "real":
        l, m, k, p = rp.get("element", [None] * 4)
        mm = lr.element_mismatches(rp["case"], rp["field"], only=(l, m, k, p) if l is not None else None, kw=rp.get("kw"))
        print("replay:", "property holds on this call" if not mm else
              f"FAILS: element {mm[0][:4]} in the call = {mm[0][4]}, alone = {mm[0][5]}")
        if mm:
            print("VIOLATION property=C06 replay=given")
        return 1 if mm else 0
    if rp.get("kind") == "real-entry":
        X = lr.entry_variants(rp["case"], rp["field"], rp["entry"])
        mm = lr.element_mismatches(rp["case"], rp["field"], B=X)
        print("replay:", "property holds" if not mm else f"FAILS: element {mm[0][:4]} = {mm[0][4]}, alone = {mm[0][5]}")
        if mm:
            print("VIOLATION property=C06 replay=given")
        return 1 if mm else 0
    if rp.get("kind") == "battery":
        ok, batch, single = nb.replay(rp)
        print("replay:", "row-wise on this input" if ok else f"FAILS: batch {batch.tolist()} row-by-row {single.tolist()}")
        if not ok:
            print("VIOLATION property=C06 replay=given")
        return 0 if ok else 1
    if rp.get("kind") == "batch-stub":
        case = rp["case"]
        if rp["which"] == "cvf":
            out, single = bc.run_cvf(case), [bc.run_cvf([r])[0] for r in case]
        else:
            out, single = bc.run_tm(case), [bc.run_tm(dict(case, rows=[r]))[0] for r in case["rows"]]
        print("replay:", "row-wise on this input" if out == single else f"FAILS: batch {out} row-by-row {single}")
        if out != single:
            print("VIOLATION property=C06 replay=given")
        return 0 if out == single else 1
    if rp.get("kind") == "exact":
        c = rp["case"]
        got = l2.impl_run(c)
        exp = octa.ints(np.array(l2.oracle_element(c), dtype=float))
        print("replay:", "property holds on this call" if got == exp else f"FAILS: got {got} expected {exp}")
        if got != exp:
            print("VIOLATION property=C06 replay=given")
        return 0 if got == exp else 1
    print(json.dumps(obj, indent=1)[:3000])
    return 0
