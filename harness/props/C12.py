"""C12 -- results are invariant under the choice of the length unit.

stage 1  regen GenTol (translate/gen_tol.py: fail-closed symbolic execution of the anchored functions)
stage 2  build Props/C12.v (dimension check of every comparison / returned component, lifted by Dim.v)
stage 3  (a) the ACTIVE exclusions are read back from Coq (`failing_now`) and compared with the table;
         (b) translator validation: the generated expressions are evaluated numerically and compared with
             what the real functions return on the same inputs (validates the symbolic execution)
stage 4  search on the implementation: one configuration per class generated at scales 2^-30..2^30
         (exact scaling, 1e-9..1e9) and powers of ten, excitations 2^-40..2^40; compares the field scale
         law, the inside/outside decision (getJ), mesh status and face orientation
"""
import json
import math
import os
import random
import re

import numpy as np
from scipy.spatial.transform import Rotation as R

from harness.common import run_guarded, COQ, REPO

import magpylib as magpy

# ------------------------------------------------------------------ exclusion id -> finding signature
FINDING_OF_ID = [
    ("triangle>", "scale-law/triangle_Bfield:ind>1e-12"),
    ("trimesh_facet_inwards>", "face-orientation/is_facet_inwards:eps=1e-5"),
    ("trimesh_inside>mask_inside_trimesh>mask_inside_enclosing_box", "inside-outside/mask_inside_enclosing_box:eps=1e-12"),
    ("trimesh_inside>mask_inside_trimesh>lines_end_in_trimesh", "inside-outside/mask_inside_trimesh:fixed-ray-offset"),
    ("trimesh_lines_end>", "inside-outside/lines_end_in_trimesh:area-eps=1e-12"),
    ("trimesh_selfintersect>", "mesh-status/segments_intersect_facets:eps=1e-6"),
    ("cylinder_segment", "scale-law/cylinder_segment:close-atol=1e-12"),
]


def finding_of(eid):
    for pre, sig in FINDING_OF_ID:
        if eid.startswith(pre):
            return sig
    return None


# ------------------------------------------------------------------ stage 3a: active exclusions from Coq
FAILING_STANDALONE = """From Coq Require Import ZArith String List Bool.
From MV Require Import Lib.Dim Gen.GenTol.
Import ListNotations.
Definition cmp_ok (f : fn_record) (c : bexpr) : bool :=
  homog (env_of (fn_env_len f)) c && homog (env_of (fn_env_exc f)) c.
Definition deg_ok (f : fn_record) (k : Z * Z) (e : dexpr) : bool :=
  has_deg (env_of (fn_env_len f)) (fst k) e && has_deg (env_of (fn_env_exc f)) (snd k) e.
Definition failing_degs (f : fn_record) (l : list (string * (Z * Z) * dexpr)) : list string :=
  map (fun d => fst (fst d)) (filter (fun d : string * (Z * Z) * dexpr => negb (deg_ok f (snd (fst d)) (snd d))) l).
Definition failing_fn (f : fn_record) : list string :=
  map fst (filter (fun ic : string * list bexpr => negb (forallb (cmp_ok f) (snd ic))) (fn_cmps f)) ++
  failing_degs f (fn_rets f) ++ failing_degs f (fn_args f).
Eval vm_compute in (flat_map failing_fn functions).
"""


def parse_string_list(out):
    m = re.search(r"=\s*\[(.*?)\]\s*:\s*list string", out, flags=re.S)
    if not m:
        return None
    return [s.replace('""', '"') for s in re.findall(r'"((?:[^"]|"")*)"', m.group(1))]


def exclusion_table():
    src = open(os.path.join(COQ, "Proofs", "DimProofs.v")).read()
    src = re.sub(r"\(\*.*?\*\)", "", src, flags=re.S)
    m = re.search(r"Definition exclusions : list string := \[(.*?)\]\.", src, flags=re.S)
    return [s.replace('""', '"') for s in re.findall(r'"((?:[^"]|"")*)"', m.group(1))] if m else []


def active_exclusions(ctx, built):
    if built:
        ok, out = ctx.coq_eval("c12_failing", "From Coq Require Import String List.\n"
                               "From MV Require Import Proofs.DimProofs.\nImport ListNotations.\n"
                               "Eval vm_compute in failing_now.\n")
    else:
        ok, out = ctx.coq_eval("c12_failing", FAILING_STANDALONE, timeout=900)
    lst = parse_string_list(out) if ok else None
    if lst is None:
        ctx.add_broken("broken-correspondence", "c12_failing", "could not read the failing ids from Coq:\n" + out[-1500:])
        return None
    return lst


# ------------------------------------------------------------------ stage 3b: translator validation
def make_evaluator(values):
    """numeric evaluation of translate.gen_tol nodes under a valuation of the variables"""
    from magpylib._src.fields.special_cel import cel_iter
    from magpylib._src.fields.field_BH_cylinder import (magnet_cylinder_axial_Bfield,
                                                        magnet_cylinder_diametral_Hfield)
    from magpylib._src.fields.field_BH_cylinder_segment import magnet_cylinder_segment_Hfield
    memo = {}

    def args_of(n):
        out = []
        while n is not None:
            out.append(ev(n.args[0]))
            n = n.args[1] if len(n.args) > 1 else None
        return out

    def fn0(name, a):
        if name == "log":
            return math.log(a[0]) if a[0] > 0 else float("nan")
        if name in ("sin", "cos", "tan"):
            return getattr(math, name)(a[0])
        if name == "arctan":
            return math.atan(a[0])
        if name == "mod":
            return float(np.mod(a[0], a[1]))
        if name == "round":
            return float(np.round(a[0]))
        if name in ("ceil", "floor"):
            return float(getattr(np, name)(a[0]))
        if name == "cel_iter":
            return float(cel_iter(*[np.array([x]) for x in a])[0])
        base, i = name.rsplit(".", 1)
        arr = [np.array([x]) for x in a]
        if base == "cylinder_axial":
            return float(magnet_cylinder_axial_Bfield(*arr)[int(i)][0])
        if base == "cylinder_diametral":
            return float(magnet_cylinder_diametral_Hfield(*arr)[int(i)][0])
        if base == "cylinder_segment_H":
            return float(magnet_cylinder_segment_Hfield(magnetizations=np.array([a[0:3]]), dimensions=np.array([a[3:9]]),
                                                        observers=np.array([a[9:12]]))[0][int(i)])
        raise KeyError(name)

    def ev(n):
        r = memo.get(n.id)
        if r is None:
            r = memo[n.id] = ev1(n)
        return r

    def ev1(n):
        op, a = n.op, n.args
        if op == "Var":
            return values[a[0]]
        if op == "Const":
            return a[0] / a[1]
        if op == "CPi":
            return math.pi
        if op == "Add":
            return ev(a[0]) + ev(a[1])
        if op == "Sub":
            return ev(a[0]) - ev(a[1])
        if op == "Mul":
            return ev(a[0]) * ev(a[1])
        if op == "Div":
            d = ev(a[1])
            return ev(a[0]) / d if d != 0 else float("nan")
        if op == "Neg":
            return -ev(a[0])
        if op == "Abs":
            return abs(ev(a[0]))
        if op == "Sqrt":
            x = ev(a[0])
            return math.sqrt(x) if x >= 0 else float("nan")
        if op == "Pow":
            return ev(a[0]) ** a[1]
        if op == "Sign":
            return float(np.sign(ev(a[0])))
        if op == "Min":
            return min(ev(a[0]), ev(a[1]))
        if op == "Max":
            return max(ev(a[0]), ev(a[1]))
        if op == "Fn0":
            return fn0(a[0], args_of(a[1]) if len(a) > 1 else [])
        if op == "FnH":
            y, x = args_of(a[1])
            return math.atan2(y, x)
        if op == "Ite":
            return ev(a[1]) if ev(a[0]) else ev(a[2])
        if op == "BLt":
            return ev(a[0]) < ev(a[1])
        if op == "BLe":
            return ev(a[0]) <= ev(a[1])
        if op == "BEq":
            return ev(a[0]) == ev(a[1])
        if op == "BAnd":
            return ev(a[0]) and ev(a[1])
        if op == "BOr":
            return ev(a[0]) or ev(a[1])
        if op == "BNot":
            return not ev(a[0])
        if op == "BConst":
            return a[0]
        raise KeyError(op)
    return ev


def validate_translator(ctx, n_per_entry):
    """the expressions the translator produced, evaluated on random inputs, equal what the real
    functions return on the same inputs (fields: rtol 1e-9 of the field scale; masks: equal)"""
    import importlib
    from translate import gen_tol as g
    g.N.reset()
    interp = g.Interp(REPO, g.OPAQUE_FUNCS)
    interp.inline_modular = True
    g.MAX_SIZE, old_max = 10 ** 9, g.MAX_SIZE
    try:
        _validate(ctx, n_per_entry, g, interp, importlib)
    finally:
        g.MAX_SIZE = old_max


def _validate(ctx, n_per_entry, g, interp, importlib):
    mu0 = float(magpy.mu_0)
    for entry in g.ENTRIES:
        key, modname, fname, params, variants, ret = entry[:6]
        if key in ("trimesh_inside", "trimesh_facet_inwards", "cylinder_segment_cases") or len(entry) > 6:
            continue          # results contain the opaque result of a modular call / integer case numbers
        mod = interp.module(modname)
        realf = getattr(importlib.import_module(modname), fname)
        envs = {"MU0": (0, 0)}
        interp.envs = envs
        base, shapes = {}, {}
        for p, spec in params.items():
            if spec[0] == "arr":
                base[p] = g.sym_array(f"{p}@{key}", spec[1], spec[2], envs)
                shapes[p] = spec[1]
            else:
                base[p] = spec[1]
        names = list(variants)
        combos = [[]]
        for nme in names:
            combos = [c + [v] for c in combos for v in variants[nme]]
        for combo in combos:
            kw = {k: (v.copy() if isinstance(v, np.ndarray) else v) for k, v in base.items()}
            kw.update(dict(zip(names, combo)))
            interp.stack = [key]
            interp.arg_obligations = []
            sym = interp.call_function(mod.globals[fname], [], kw, fname)
            comps = list(np.ravel(g.obj(sym)))
            for t in range(n_per_entry):
                vals = {"MU0": mu0}
                real_kw = dict(zip(names, combo))
                for p, spec in params.items():
                    if spec[0] != "arr":
                        real_kw[p] = spec[1]
                        continue
                    arr = np.array([round(ctx.rng.uniform(-2, 2), 3) for _ in range(int(np.prod(spec[1])))]).reshape(spec[1])
                    if key == "cylinder_segment" and p == "dimension":
                        arr = np.array([[0.4, 1.3, 1.1, 20.0 + 10 * t, 250.0]])
                    if p in ("diameter",) or (p == "dimension" and key != "cylinder_segment"):
                        arr = np.abs(arr) + 0.3
                    real_kw[p] = arr
                    for idx in np.ndindex(*spec[1]):
                        vals["".join(f"{i}." for i in idx) + f"{p}@{key}"] = float(arr[idx])
                ev = make_evaluator(vals)
                try:
                    got = np.array([ev(x) if isinstance(x, g.N) else x for x in comps], dtype=float)
                    want = np.ravel(np.asarray(realf(**{k: (v.copy() if isinstance(v, np.ndarray) else v)
                                                        for k, v in real_kw.items()}), dtype=float))
                except Exception as e:   # pylint: disable=broad-except
                    ctx.add_broken("broken-correspondence", f"GenTol validation {key}",
                                   f"{type(e).__name__}: {e} on {real_kw}")
                    break
                ctx.count("traces_validated_against_impl")
                ctx.bump("translator-validation:" + key)
                scale = max(1e-300, float(np.nanmax(np.abs(want)))) if want.size else 1.0
                okv = got.shape == want.shape and np.all((np.abs(got - want) <= 1e-9 * scale)
                                                         | (np.isnan(got) & np.isnan(want)))
                if not okv:
                    ctx.add_broken("broken-correspondence", f"GenTol validation {key}",
                                   json.dumps({"entry": key, "variant": combo, "inputs": {k: np.asarray(v).tolist() for k, v in real_kw.items() if isinstance(v, np.ndarray)},
                                               "translated": got.tolist(), "implementation": want.tolist()}))
                    break


# ------------------------------------------------------------------ stage 4: search on the implementation
def P2(k):
    return 2.0 ** k


SCALES_EXACT = [P2(k) for k in (-30, -27, -20, -17, -13, -10, -7, -3, 3, 7, 10, 17, 20, 30)]
SCALES_TEN = [10.0 ** k for k in (-9, -6, -5, -3, 2, 3, 6, 9)]
EXCITATIONS = [P2(-40), P2(-20), P2(20), P2(40), 1e-12, 1e12]
LENGTH_DEGREE = {"Dipole": -3, "Circle": -1, "Polyline": -1}

TETRA_V = [(0, 0, 0), (1, 0, 0), (0, 1, 0), (0, 0, 1)]
TETRA_F = [(0, 2, 1), (0, 1, 3), (1, 2, 3), (0, 3, 2)]
CUBE_V = [(x, y, z) for x in (0, 1) for y in (0, 1) for z in (0, 1)]
CUBE_F = [(0, 1, 3), (0, 3, 2), (4, 6, 7), (4, 7, 5), (0, 4, 5), (0, 5, 1), (2, 3, 7), (2, 7, 6), (0, 2, 6), (0, 6, 4),
          (1, 5, 7), (1, 7, 3)]


def rnd(rng, lo, hi):
    return round(rng.uniform(lo, hi), 3)


def gen_config(rng, cls, aligned=False):
    """a configuration at scale 1: lengths are O(1) numbers; aligned: no rotation, dyadic position, so that
    observers given with a coordinate exactly 0 / exactly in a symmetry plane stay there in the local frame"""
    pose = {"position": [rnd(rng, -1, 1) for _ in range(3)], "rotvec": [rnd(rng, -2, 2) for _ in range(3)]}
    if aligned:
        pose = {"position": [rng.randint(-8, 8) / 8 for _ in range(3)], "rotvec": [0.0, 0.0, 0.0]}
    pol = [rnd(rng, -1, 1) for _ in range(3)]
    c = {"cls": cls, "pose": pose}
    if cls == "Cuboid":
        c.update(exc=pol, dim=[rnd(rng, 0.4, 2) for _ in range(3)])
    elif cls == "Cylinder":
        c.update(exc=pol, dim=[rnd(rng, 0.4, 2), rnd(rng, 0.4, 2)])
    elif cls == "CylinderSegment":
        r1 = rnd(rng, 0.2, 1)
        p1 = rnd(rng, -180, 100)
        c.update(exc=pol, dim=[r1, r1 + rnd(rng, 0.3, 1), rnd(rng, 0.4, 2), p1, p1 + rnd(rng, 30, 250)])
    elif cls == "Sphere":
        c.update(exc=pol, dim=rnd(rng, 0.4, 2))
    elif cls == "Tetrahedron":
        c.update(exc=pol, verts=[[v[i] * 1.0 + rnd(rng, -0.2, 0.2) for i in range(3)] for v in TETRA_V])
    elif cls == "Triangle":
        c.update(exc=pol, verts=[[v[i] * 1.0 + rnd(rng, -0.2, 0.2) for i in range(3)] for v in TETRA_V[:3]])
    elif cls == "TriangularMesh":
        kind = rng.choice(["tetra", "cube", "tetra-flipped", "cube-flipped", "cube-mixed"])
        V, Fc = (TETRA_V, TETRA_F) if kind.startswith("tetra") else (CUBE_V, CUBE_F)
        Fc = [list(f) for f in Fc]
        if kind.endswith("flipped"):
            Fc = [[f[0], f[2], f[1]] for f in Fc]
        elif kind.endswith("mixed"):
            Fc = [[f[0], f[2], f[1]] if i % 3 == 0 else f for i, f in enumerate(Fc)]
        jit = 0.0 if kind.startswith("cube") else 0.15
        c.update(exc=pol, verts=[[v[i] * 1.0 + rnd(rng, -jit, jit) for i in range(3)] for v in V], faces=Fc, kind=kind)
    elif cls == "Circle":
        c.update(exc=rnd(rng, 0.5, 3), dim=rnd(rng, 0.4, 2))
    elif cls == "Polyline":
        c.update(exc=rnd(rng, 0.5, 3), verts=[[rnd(rng, -1, 1) for _ in range(3)] for _ in range(rng.randint(2, 4))])
    elif cls == "Dipole":
        c.update(exc=pol)
    return c


def build(c, s=1.0, e=1.0, with_pose=True):
    cls = c["cls"]
    kw = {}
    if with_pose:
        kw = {"position": np.array(c["pose"]["position"]) * s, "orientation": R.from_rotvec(c["pose"]["rotvec"])}
    exc = np.array(c["exc"], dtype=float) * e
    if cls == "Cuboid":
        return magpy.magnet.Cuboid(polarization=exc, dimension=np.array(c["dim"]) * s, **kw)
    if cls == "Cylinder":
        return magpy.magnet.Cylinder(polarization=exc, dimension=np.array(c["dim"]) * s, **kw)
    if cls == "CylinderSegment":
        d = np.array(c["dim"], dtype=float)
        d[:3] *= s
        return magpy.magnet.CylinderSegment(polarization=exc, dimension=d, **kw)
    if cls == "Sphere":
        return magpy.magnet.Sphere(polarization=exc, diameter=c["dim"] * s, **kw)
    if cls == "Tetrahedron":
        return magpy.magnet.Tetrahedron(polarization=exc, vertices=np.array(c["verts"]) * s, **kw)
    if cls == "Triangle":
        return magpy.misc.Triangle(polarization=exc, vertices=np.array(c["verts"]) * s, **kw)
    if cls == "TriangularMesh":
        return magpy.magnet.TriangularMesh(polarization=exc, vertices=np.array(c["verts"]) * s, faces=np.array(c["faces"]),
                                           check_open="ignore", check_disconnected="ignore",
                                           check_selfintersecting="ignore", reorient_faces="ignore", **kw)
    if cls == "Circle":
        return magpy.current.Circle(current=float(exc), diameter=c["dim"] * s, **kw)
    if cls == "Polyline":
        return magpy.current.Polyline(current=float(exc), vertices=np.array(c["verts"]) * s, **kw)
    if cls == "Dipole":
        return magpy.misc.Dipole(moment=exc, **kw)
    raise ValueError(cls)


def local_observers(rng, c, n):
    """observer points in the LOCAL frame of the source, with the region each one lies in"""
    cls = c["cls"]
    pts = []
    for _ in range(n):
        pts.append(("generic", [rnd(rng, -2.5, 2.5) for _ in range(3)]))
    off = [1e-4, -1e-4, 1e-7, -1e-7, 0.0]
    off2 = [1e-5, -1e-5, 1e-6, -1e-6, 1e-7, -1e-7]      # both coordinates of an edge / rim displaced
    if cls == "Cuboid":
        a, b, cc = [d / 2 for d in c["dim"]]
        for o in off:
            pts.append(("near-face", [a * (1 + o), 0.3 * b, -0.2 * cc]))
            pts.append(("near-edge", [a * (1 + o), b * (1 + o), 0.1 * cc]))
        for o in off2:
            pts.append(("near-edge", [0.2 * a, b * (1 + o), -cc * (1 + o)]))
            pts.append(("near-corner", [a * (1 + o), b * (1 + o), cc * (1 + o)]))
        pts += [("corner", [a, b, cc]), ("center", [0, 0, 0]), ("edge-extension", [a, b, 2 * cc])]
    elif cls in ("Cylinder", "CylinderSegment"):
        if cls == "Cylinder":
            r2, h = c["dim"][0] / 2, c["dim"][1]
            r1, phi = 0.0, 0.7
        else:
            r1, r2, h, p1, p2 = c["dim"]
            phi = math.radians((p1 + p2) / 2)
        for o in off:
            pts.append(("near-hull", [r2 * (1 + o) * math.cos(phi), r2 * (1 + o) * math.sin(phi), 0.1 * h]))
            pts.append(("near-base", [(r1 + r2) / 2 * math.cos(phi), (r1 + r2) / 2 * math.sin(phi), h / 2 * (1 + o)]))
            if cls == "CylinderSegment":
                pts.append(("near-inner-hull", [r1 * (1 + o) * math.cos(phi), r1 * (1 + o) * math.sin(phi), -0.1 * h]))
                pa = math.radians(c["dim"][3]) + o
                pts.append(("near-phi-face", [(r1 + r2) / 2 * math.cos(pa), (r1 + r2) / 2 * math.sin(pa), 0.05 * h]))
        for o in off2:      # rim: within o (relative) of the hull AND of a base plane
            for rr in ([r2] if cls == "Cylinder" else [r1, r2]):
                pts.append(("near-rim", [rr * (1 + o) * math.cos(phi), rr * (1 + o) * math.sin(phi), h / 2 * (1 + o)]))
                pts.append(("near-rim", [rr * (1 + o) * math.cos(phi), rr * (1 + o) * math.sin(phi), -h / 2 * (1 - o)]))
        pts += [("axis", [0, 0, 0.3 * h]), ("axis-far", [0, 0, 3 * h]),
                ("inside", [(r1 + r2) / 2 * math.cos(phi), (r1 + r2) / 2 * math.sin(phi), 0.0])]
    elif cls == "Sphere":
        r = c["dim"] / 2
        for o in off + off2:
            pts.append(("near-surface", [r * (1 + o) * 0.6, r * (1 + o) * 0.0, r * (1 + o) * 0.8]))
        pts.append(("center", [0, 0, 0]))
    elif cls in ("Tetrahedron", "Triangle", "TriangularMesh"):
        V = np.array(c["verts"])
        cen = V.mean(axis=0)
        faces = c.get("faces") or ([[0, 1, 2]] if cls == "Triangle" else TETRA_F)
        for f in faces[:4]:
            fc = V[list(f)].mean(axis=0)
            nrm = np.cross(V[f[1]] - V[f[0]], V[f[2]] - V[f[0]])
            nrm = nrm / np.linalg.norm(nrm)
            if np.dot(nrm, fc - cen) < 0:
                nrm = -nrm
            for o in off[:4]:
                pts.append(("near-face", list(fc + nrm * o)))
            e0, e1 = V[f[0]], V[f[1]]
            for o in (1e-2, 1e-4, 1e-6):
                pts.append(("near-edge-extension", list(e1 + (e1 - e0) * 0.7 + nrm * o)))
                pts.append(("near-edge", list((e0 + e1) / 2 + nrm * o)))
        pts.append(("inside" if cls != "Triangle" else "generic", list(cen * 0.9 + V[0] * 0.1)))
    elif cls == "Circle":
        r = c["dim"] / 2
        pts += [("axis", [0, 0, 0.4]), ("axis", [0, 0, -3.0]), ("center", [0, 0, 0])]
        pts += [("in-plane", [0.25 * r, 0, 0]), ("in-plane", [-0.3 * r, 0.6 * r, 0]), ("in-plane", [1.5 * r, 0.25 * r, 0]),
                ("in-plane", [0, -3.0 * r, 0])]
        for o in off[:4]:
            pts.append(("near-wire", [r * (1 + o), 0, 0]))
            pts.append(("near-wire", [r * 0.6, r * 0.8, o]))
    elif cls == "Polyline":
        V = np.array(c["verts"])
        for o in (1e-2, 1e-5, 1e-8):
            pts.append(("near-extension", list(V[1] + (V[1] - V[0]) * 0.8 + np.array([o, -o, o / 2]))))
            pts.append(("near-wire", list((V[0] + V[1]) / 2 + np.array([o, o, -o]))))
    elif cls == "Dipole":
        for o in (1e-3, 1e-6):
            pts.append(("near", [o, -o, 2 * o]))
    return pts


def to_global(c, pts_local, s):
    rot = R.from_rotvec(c["pose"]["rotvec"])
    return rot.apply(np.array(pts_local, dtype=float) * s) + np.array(c["pose"]["position"]) * s


def decade(s):
    return f"1e{int(round(math.log10(s))):+d}"


def scale_class(s):
    return "small" if s < 1 else "large"


def close_field(a, b, scale):
    """element-wise; the tolerance is relative to the norm of the observer's OWN field row (1e-9), with an
    absolute floor of 1e-13 of the largest row of the call (`scale`)"""
    a, b = np.asarray(a, dtype=float), np.asarray(b, dtype=float)
    fin = np.isfinite(a) & np.isfinite(b)
    same_nonfin = (np.isnan(a) & np.isnan(b)) | ((a == b) & ~fin)
    w = np.where(np.isfinite(b), b, 0.0)
    rown = np.sqrt(np.sum(w * w, axis=-1, keepdims=True))
    return (np.abs(np.where(fin, a - b, 0.0)) <= 1e-9 * rown + 1e-13 * scale) & (fin | same_nonfin)


def triangle_ind_flips(verts, p, s):
    """does the decision `ind > 1e-12` of triangle_Bfield differ between scale 1 and scale s ?"""
    V = np.array(verts, dtype=float)

    def dec(t):
        Rv = V * t - np.array(p) * t
        r = np.sqrt(np.sum(Rv * Rv, axis=-1))
        Lv = (V[[1, 2, 0]] - V[[0, 1, 2]]) * t
        l = np.sqrt(np.sum(Lv * Lv, axis=-1))
        b = np.sum(Rv * Lv, axis=-1)
        return np.fabs(r + b / l) > 1.0e-12
    return bool(np.any(dec(1.0) != dec(s)))


_ANALYSIS = None


def translated_records(key):
    """the comparisons of one GenTol entry, as translated from the CURRENT source: [(id, [nodes])]"""
    global _ANALYSIS
    if _ANALYSIS is None:
        from translate import gen_tol as g
        res = g.analyse(REPO)
        bounds = [pe[1] for pe in res["per_entry"]] + [len(res["interp"].records)]
        _ANALYSIS = {pe[0]: [(r[0], r[2]) for r in res["interp"].records[bounds[i]:bounds[i + 1]]]
                     for i, pe in enumerate(res["per_entry"])}
    return _ANALYSIS.get(key, [])


def translated_flips(key, vals1, vals2):
    """ids of the entry's comparisons that decide differently under the two valuations"""
    e1, e2 = make_evaluator(vals1), make_evaluator(vals2)
    out = []
    for rid, nodes in translated_records(key):
        try:
            if any(bool(e1(n)) != bool(e2(n)) for n in nodes):
                out.append(rid)
        except Exception:   # pylint: disable=broad-except
            continue
    return out


def cylseg_flips(c, p, s):
    """which comparisons of BHJM_cylinder_segment / determine_cases (current source) decide differently at
    scale s for the local observer p (as magpylib computes it from the global one)"""
    rot, pos = R.from_rotvec(c["pose"]["rotvec"]), np.array(c["pose"]["position"])
    mu0 = float(magpy.mu_0)
    flips = []
    vals = []
    for t in (1.0, s):
        q = rot.inv().apply(to_global(c, [p], t) - pos * t)[0]
        d = np.array(c["dim"], dtype=float)
        d[:3] *= t
        v = {"MU0": mu0}
        for j in range(3):
            v[f"0.{j}.observers@cylinder_segment"] = float(q[j])
            v[f"0.{j}.polarization@cylinder_segment"] = float(c["exc"][j])
        for j in range(5):
            v[f"0.{j}.dimension@cylinder_segment"] = float(d[j])
        vals.append((v, q, d))
    flips += translated_flips("cylinder_segment", vals[0][0], vals[1][0])
    # the 8 boundary combinations the core hands to determine_cases
    combos = []
    for (v, q, d) in vals:
        r, phi, z = math.hypot(q[0], q[1]), math.atan2(q[1], q[0]), q[2]
        lst = []
        for ri in (abs(d[0]), abs(d[1])):
            for pj in (d[3] / 180 * math.pi, d[4] / 180 * math.pi):
                for zk in (-abs(d[2]) / 2, abs(d[2]) / 2):
                    lst.append({"MU0": mu0, "0.r@cylinder_segment_cases": r, "0.phi@cylinder_segment_cases": phi,
                                "0.z@cylinder_segment_cases": z, "0.r1@cylinder_segment_cases": ri,
                                "0.phi1@cylinder_segment_cases": pj, "0.z1@cylinder_segment_cases": zk})
        combos.append(lst)
    for a, b in zip(*combos):
        flips += translated_flips("cylinder_segment_cases", a, b)
    return sorted(set(flips))


ACTIVE_IDS = None     # ids that fail the dimension check on the current tree (None: not known, assume all)


def active(prefix):
    return ACTIVE_IDS is None or any(i.startswith(prefix) for i in ACTIVE_IDS)


def diagnose(c, p, s, clause, region="generic"):
    """the trigger part of the signature: which tolerance of which function decides differently at scale s
    (evaluated on the failing input, in the local frame of the source); class:region when none explains it"""
    from magpylib._src.fields import field_BH_triangularmesh as tm
    cls = c["cls"]
    size = scale_class(s)
    try:
        if clause == "face-orientation":
            ext = float(np.ptp(np.array(c["verts"]), axis=0).max()) * s
            if (ext < 1e-3 or ext > 10) and (active("trimesh_facet_inwards>") or active("trimesh_inwards_mask>")):      # the 1e-5 offset of the check point is not small / not resolvable
                return clause, "is_facet_inwards:eps=1e-5"
            return clause, f"TriangularMesh:{c['kind']}:{size}"
        if cls in ("Triangle", "Tetrahedron", "TriangularMesh") and clause == "scale-law":
            V = np.array(c["verts"])
            faces = c.get("faces") or ([[0, 1, 2]] if cls == "Triangle" else TETRA_F)
            if active("triangle>") and any(triangle_ind_flips(V[list(f)], p, s) for f in faces):
                return clause, "triangle_Bfield:ind>1e-12"
        if cls == "TriangularMesh":
            V = np.array(c["verts"], dtype=float)
            F3 = build(c, 1.0, with_pose=False).mesh          # the (reoriented) facets the object uses
            F3s = build(c, s, with_pose=False).mesh
            # the local observer exactly as magpylib computes it (global -> local), at both scales
            rot, pos = R.from_rotvec(c["pose"]["rotvec"]), np.array(c["pose"]["position"])
            pt1 = rot.inv().apply(to_global(c, [p], 1.0) - pos)
            pts = rot.inv().apply(to_global(c, [p], s) - pos * s)
            if tm.mask_inside_enclosing_box(pt1, V)[0] != tm.mask_inside_enclosing_box(pts, V * s)[0]:
                return "inside-outside", "mask_inside_enclosing_box:eps=1e-12"
            start = np.min(V, axis=0) - np.array([12.0012345, 5.9923456, 6.9932109])
            ln1, lns = np.array([[start, pt1[0]]]), np.array([[start * s, pts[0]]])
            if tm.lines_end_in_trimesh(ln1, F3)[0] != tm.lines_end_in_trimesh(lns, F3s)[0]:
                return "inside-outside", "lines_end_in_trimesh:area-eps=1e-12"
            if tm.mask_inside_trimesh(pt1, F3)[0] != tm.mask_inside_trimesh(pts, F3s)[0]:
                return "inside-outside", "mask_inside_trimesh:fixed-ray-offset"
        if cls == "CylinderSegment":
            # blame the absolute tolerances of this class only if one of the EXCLUDED comparisons of the current
            # source really decides differently at the two scales on this input
            fl = [i for i in cylseg_flips(c, p, s) if ACTIVE_IDS is None or i in ACTIVE_IDS]
            margin = any("1e-14" in i for i in fl)
            closeb = any("close(" in i for i in fl)
            if clause == "inside-outside" and margin:
                return clause, "cylinder_segment:margin=1e-14"
            if closeb:
                return clause, "cylinder_segment:close-atol=1e-12"
            if margin:
                return clause, "cylinder_segment:margin=1e-14"
    except Exception as e:   # pylint: disable=broad-except
        return clause, f"{cls}:{region}:{size}:diagnosis-raised-{type(e).__name__}"
    return clause, f"{cls}:{region}:{size}"


def check_config(ctx, c, obs, scales, excitations, report=True):
    """returns the list of failures [(clause, trigger, detail dict)] of one configuration"""
    cls = c["cls"]
    k = LENGTH_DEGREE.get(cls, 0)
    regions = [r for r, _ in obs]
    loc = [p for _, p in obs]
    fails = []
    src1 = build(c)
    o1 = to_global(c, loc, 1.0)
    base = {f: np.atleast_2d(getattr(src1, "get" + f)(o1)) for f in ("B", "H")}
    is_magnet = cls not in ("Circle", "Polyline", "Dipole", "Triangle")
    if is_magnet:
        base["J"] = np.atleast_2d(src1.getJ(o1))
    faces1 = src1.faces.tolist() if cls == "TriangularMesh" else None
    ref = {f: max(1e-300, float(np.nanmax(np.abs(np.where(np.isfinite(v), v, 0.0))))) for f, v in base.items()}
    for s in scales:
        exact = math.log2(s) == round(math.log2(s))
        try:
            src = build(c, s=s)
            os_ = to_global(c, loc, s)
            if cls == "TriangularMesh" and src.faces.tolist() != faces1:
                fails.append(diagnose(c, None, s, "face-orientation") + (
                              {"scale": s, "faces_at_1": faces1, "faces": src.faces.tolist()},))
                continue        # field and inside/outside differences at this scale are consequences
            for f, b in base.items():
                got = np.atleast_2d(getattr(src, "get" + f)(os_))
                fac = 1.0 if f == "J" else s ** k
                ok = close_field(got, b * fac, ref[f] * fac)
                for i in np.unique(np.argwhere(~ok)[:, 0]) if not ok.all() else []:
                    if regions[i] != "generic" and not exact:
                        continue    # special points are compared under EXACT scaling only (2^k): an inexact
                        #             factor moves a point by an ulp, which may legitimately flip a decision
                    clause = "inside-outside" if f == "J" else "scale-law"
                    fails.append(diagnose(c, loc[i], s, clause, regions[i]) + (
                                  {"scale": s, "field": f, "observer_local": loc[i], "region": regions[i],
                                   "at_scale_1": b[i].tolist(),
                                   "expected": (b[i] * fac).tolist(), "got": got[i].tolist()},))
        except Exception as e:   # pylint: disable=broad-except
            fails.append(("scale-law", f"{cls}:raises:{type(e).__name__}:{scale_class(s)}", {"scale": s, "error": str(e)}))
        ctx.bump(f"{cls}@{decade(s)}")
    for e in excitations:
        try:
            src = build(c, e=e)
            for f, b in base.items():
                if f == "J":
                    continue
                got = np.atleast_2d(getattr(src, "get" + f)(o1))
                ok = close_field(got, b * e, ref[f] * e)
                if not ok.all():
                    i = int(np.argwhere(~ok)[0, 0])
                    fails.append(("excitation-law", f"{cls}:{regions[i]}",
                                  {"excitation": e, "field": f, "observer_local": loc[i], "expected": (b[i] * e).tolist(),
                                   "got": got[i].tolist()}))
        except Exception as ex:   # pylint: disable=broad-except
            fails.append(("excitation-law", f"{cls}:raises:{type(ex).__name__}", {"excitation": e, "error": str(ex)}))
        ctx.bump(f"{cls}@exc")
    return fails


# mesh validation decisions: open / disconnected / self-intersecting must not depend on the unit
def mesh_cases():
    V, Fc = np.array(TETRA_V, dtype=float), [list(f) for f in TETRA_F]
    V2 = np.concatenate([V, V + np.array([3.0, 0, 0])])
    F2 = Fc + [[i + 4 for i in f] for f in Fc]
    V3 = np.concatenate([V, V * 0.9 + np.array([0.25, 0.25, -0.3])])      # second tetrahedron pierces the first
    return {
        "closed": (V, Fc), "open": (V, Fc[:3]), "disconnected": (V2, F2), "selfintersecting": (V3, F2),
        "cube": (np.array(CUBE_V, dtype=float), [list(f) for f in CUBE_F]),
    }


def mesh_status(V, Fc, s):
    m = magpy.magnet.TriangularMesh(polarization=(0, 0, 1), vertices=V * s, faces=np.array(Fc),
                                    check_open="ignore", check_disconnected="ignore",
                                    check_selfintersecting="ignore", reorient_faces="skip")
    return {"open": bool(m.status_open), "disconnected": bool(m.status_disconnected),
            "selfintersecting": bool(m.status_selfintersecting)}


def check_mesh_status(ctx, scales):
    for name, (V, Fc) in mesh_cases().items():
        st1 = mesh_status(V, Fc, 1.0)
        for s in scales:
            try:
                st = mesh_status(V, Fc, s)
            except Exception as e:   # pylint: disable=broad-except
                st = {"raises": type(e).__name__}
            ctx.case(("mesh-status", name, s), True)
            ctx.bump("mesh-status:" + name)
            for kkey in st1:
                if st.get(kkey) != st1[kkey]:
                    trig = "segments_intersect_facets:eps=1e-6" if kkey == "selfintersecting" and s < 1 \
                        and (active("trimesh_selfintersect>") or active("trimesh_intersecting>")) \
                        else f"{kkey}:{name}:{scale_class(s)}"
                    ctx.impl_fail(f"mesh-status/{trig}",
                                  f"TriangularMesh status_{kkey} of the {name} mesh is {st1[kkey]} at scale 1 and "
                                  f"{st.get(kkey)} at scale {s:g}",
                                  {"kind": "mesh-status", "mesh": name, "scale": s})


CLASSES = ["Cuboid", "Cylinder", "CylinderSegment", "Sphere", "Tetrahedron", "Triangle", "TriangularMesh", "Circle",
           "Polyline", "Dipole"]


def shrink_failure(ctx, c, obs, clause, trig, det):
    """keep one observer and one scale (the one closest to 1 that still fails)"""
    cand = sorted(SCALES_EXACT + SCALES_TEN, key=lambda s: abs(math.log(s)))
    if "scale" in det:
        same_side = [s for s in cand if (s < 1) == (det["scale"] < 1)]
        ob = [o for o in obs if o[1] == det.get("observer_local")] or obs[:1]

        class Quiet:
            def bump(self, *_a):
                pass
        for s in same_side:
            fs = [f for f in check_config(Quiet(), c, ob, [s], []) if f[0] == clause]
            if fs:
                return ob, s, fs[0][2]
    return obs, det.get("scale"), det


def report(ctx, c, obs, fails):
    seen = set()
    for clause, trig, det in fails:
        sig = f"{clause}/{trig}"
        if sig in seen:
            continue
        seen.add(sig)
        ob, s, det2 = shrink_failure(ctx, c, obs, clause, trig, det)
        what = (f"{c['cls']}: {clause} fails for observer region {det2.get('region', '-')} "
                f"at length scale {s:g}" if s else f"{c['cls']}: {clause} fails") + \
            f" ({json.dumps({k: v for k, v in det2.items() if k in ('field', 'expected', 'got', 'excitation')})[:300]})"
        ctx.impl_fail(sig, what, {"kind": "config", "config": c, "observers": ob,
                                  "scales": [s] if s else [], "excitations": [det["excitation"]] if "excitation" in det else [],
                                  "detail": det2})


def search(ctx, n_cfg, n_obs, scales, excitations):
    for cls in CLASSES:
        for t in range(n_cfg):
            c = gen_config(ctx.rng, cls, aligned=(t % 3 == 0))
            obs = local_observers(ctx.rng, c, n_obs)
            fails = check_config(ctx, c, obs, scales, excitations)
            ctx.case(json.dumps(c, sort_keys=True), True,
                     sample={"config": c, "n_observers": len(obs), "scales": len(scales)} if t == 0 and cls in ("Cuboid", "TriangularMesh") else None)
            ctx.count("oracle_evaluations", len(obs) * (len(scales) + len(excitations)))
            if fails:
                report(ctx, c, obs, fails)


def regen_and_build(ctx):
    """regen + build, repeated when another process (a check against another VERIF_REPO) rewrote
    coq/Gen/GenTol.v in between: the proofs must have been checked against THIS tree's translation"""
    from translate import GENERATORS
    path = os.path.join(COQ, "Gen", "GenTol.v")
    for attempt in range(4):
        snap = (list(ctx.broken), ctx.obligations, ctx.discharged, list(ctx.theorems), dict(ctx.assumptions))
        ok = ctx.regen(["GenTol"])
        built = ctx.build_props(timeout=1200) and ok
        if not ok:
            return ok, built
        try:
            same = open(path).read() == GENERATORS["GenTol"](REPO)
        except Exception:   # pylint: disable=broad-except
            same = False
        if same:
            return ok, built
        ctx.log("Gen/GenTol.v was rewritten by another process during the build: repeating regen + build")
        ctx.broken[:], ctx.obligations, ctx.discharged = snap[0], snap[1], snap[2]
        ctx.theorems[:] = snap[3]
        ctx.assumptions = snap[4]
    ctx.add_broken("broken-translator", "GenTol", "Gen/GenTol.v kept being rewritten by other processes during the build")
    return False, False


def run(ctx):
    ctx.extra["rule"] = ("one configuration per class (random dimensions, pose, excitation; generic and special "
                         "observers: near faces/edges/edge extensions/axis/centre at relative offsets 0, 1e-7, 1e-4) "
                         "evaluated at scale 1 and at each length scale / excitation; distinct by canonical JSON")
    ctx.trusted += [
        "translator translate/gen_tol.py: fail-closed symbolic execution of the anchored functions on numpy object "
        "arrays (batch axes instantiated with 1-2 rows); its idioms (mask selection as per-row where, batch "
        "shortcuts, norm/inv/det formulas, log a - log b = log(a/b), x**1.5 = x*sqrt x) and the dimension table of "
        "the parameters (ENTRIES) are trusted; its output is validated numerically against the real functions",
        "opaque functions: cel_iter and the dimensionless cylinder cores are only required to receive "
        "dimensionless arguments (Dim.Fn0); arctan2 is assumed invariant under a common positive factor (Dim.FnH)",
        "Dim.v soundness is over the reals with partial semantics; binary64 rounding, underflow and overflow are "
        "searched, not proved",
    ]
    ok, built = regen_and_build(ctx)
    if ctx.tier == "thorough" and built:
        ctx.coqchk("MV.Props.C12")
    ctx.partial += ["C12_masks_scale_invariant_partial", "C12_core_degree_partial", "C12_call_arguments_partial"]
    ctx.refuted += ["C12_cylinder_segment_margin_refuted", "C12_cylinder_segment_close_refuted",
                    "C12_determine_cases_close_refuted"]

    table = exclusion_table()
    active = run_guarded(ctx, lambda: active_exclusions(ctx, built), "C12 active exclusions") if ok else None
    new_ids = []
    if active is not None:
        new_ids = [i for i in active if i not in table]
        stale = [i for i in table if i not in active]
        global ACTIVE_IDS
        ACTIVE_IDS = list(active)
        ctx.extra["active_exclusions"] = active
        ctx.extra["exclusion_findings"] = sorted({finding_of(i) or "?" for i in active})
        for i in stale:
            ctx.add_broken("broken-proof", "stale exclusion (DimProofs.exclusions_fail): " + i,
                           "the id no longer fails the dimension check (comparison became homogeneous, changed its "
                           "source text or disappeared): the exclusion table must be tight")
        ctx.obligations += len(active) + 0
        ctx.discharged += len([i for i in active if i in table])
        for i in new_ids:
            ctx.add_broken("broken-proof", "new non-homogeneous comparison / degree: " + i,
                           "not in DimProofs.exclusions: the decision or value depends on the length unit "
                           "(or on the excitation magnitude) in the real-number model")
    if ok:
        run_guarded(ctx, lambda: validate_translator(ctx, ctx.n(6, 60)), "C12 translator validation")

    big = bool(ctx.broken)
    n_cfg = ctx.n(3, 25) * (3 if big else 1)
    scales = SCALES_EXACT + SCALES_TEN if (big or ctx.tier == "thorough") else \
        [P2(-30), P2(-20), P2(-13), P2(-7), P2(7), P2(20), P2(30), 1e-9, 1e-5, 1e-3, 1e3, 1e9]
    exc = EXCITATIONS if (big or ctx.tier == "thorough") else [P2(-40), P2(40), 1e-12, 1e12]
    run_guarded(ctx, lambda: search(ctx, n_cfg, ctx.n(6, 20), scales, exc), "C12 search")
    run_guarded(ctx, lambda: check_mesh_status(ctx, SCALES_EXACT + SCALES_TEN), "C12 mesh status")
    from harness import c12_batteries
    bsc = scales if (big or ctx.tier == "thorough") else [P2(-30), P2(-17), P2(-7), P2(10), P2(30), 1e-6, 1e3]
    c12_batteries.run_all(ctx, bsc, [P2(-40), P2(40)])


def replay(ctx, obj):
    rp = obj.get("replay", obj)

    class Quiet:
        def bump(self, *_a):
            pass
    if rp.get("kind") == "config":
        obs = [tuple(o) for o in rp["observers"]]
        fails = check_config(Quiet(), rp["config"], obs, rp["scales"], rp["excitations"])
        for f in fails[:5]:
            print("FAILS:", f[0], f[1], json.dumps(f[2])[:400])
        print("replay:", "property holds on this configuration" if not fails else f"{len(fails)} failing comparisons")
        if fails:
            print(f"VIOLATION property=C12 replay={obj.get('how_to_rerun', '').split()[-1] or 'given'}")
        return 1 if fails else 0
    if rp.get("kind") == "battery":
        from harness import c12_batteries
        sig = obj.get("signature")

        class Rec(Quiet):
            def __init__(self):
                self.rng, self.sigs, self.tier = random.Random(ctx.seed), [], ctx.tier

            def impl_fail(self, sg, what, _r):
                self.sigs.append((sg, what))

            def case(self, *_a, **_k):
                pass

            def count(self, *_a, **_k):
                pass

            def add_broken(self, *_a):
                pass
        rec = Rec()
        c12_batteries.run_all(rec, [P2(-30), P2(-17), P2(-7), P2(10), P2(30), 1e-6, 1e3], [P2(-40), P2(40)])
        hit = [w for sg, w in rec.sigs if sg == sig]
        print("replay:", f"FAILS: {hit[0][:400]}" if hit else "the battery passes (signature not reproduced)")
        if hit:
            print(f"VIOLATION property=C12 replay={obj.get('how_to_rerun', '').split()[-1] or 'given'}")
        return 1 if hit else 0
    if rp.get("kind") == "mesh-status":
        V, Fc = mesh_cases()[rp["mesh"]]
        a, b = mesh_status(V, Fc, 1.0), mesh_status(V, Fc, rp["scale"])
        print("replay: status at scale 1", a, "at scale", rp["scale"], b)
        if a != b:
            print(f"VIOLATION property=C12 replay={obj.get('how_to_rerun', '').split()[-1] or 'given'}")
        return 0 if a == b else 1
    print(json.dumps(obj, indent=1)[:3000])
    return 0
