"""C17 -- malformed inputs are rejected at assignment, valid ones stored faithfully.

Stages: regen GenShape/GenTables (validators + per-setter literal configuration translated from /repo) ->
build Props/C17.v -> correspondence (the executable Coq model of every setter vs the real setter on a generated value
grammar; the documented-format predicate of this file vs the Coq doc table) -> search (the property's own oracle on
the implementation: exception class, object unchanged after rejection, read-back equality, independent float copy,
constructor == setter, then getB raises nothing but the library's own errors).
"""
import fractions
import json
import numbers

import numpy as np
from scipy.spatial.transform import Rotation as R

from harness.common import run_guarded
from harness.octa import clist, parse_z_list

import magpylib as magpy
from magpylib._src.exceptions import MagpylibBadUserInput, MagpylibMissingInput

LIB_ERRORS = (MagpylibBadUserInput, MagpylibMissingInput)
OBS = (0.7, -0.4, 2.3)


# ====================================================================== documented formats (by hand, from the
# class docstrings; the vector rows are cross-checked against the Coq doc_table on every run)
#   ("vec", n, value)        array_like, shape (n,), default None      value in any | pos | cylseg
#   ("vecpath", 3)           array_like, shape (3,) or (m,3)           (m >= 1: an object has at least one position)
#   ("mat", r, c)            shape (r,c), default None
#   ("rows", k, c, none_ok)  shape (n,c) with n >= k
#   ("grid", 3)              shape (3,) or (n1,n2,...,3), default None
#   ("scalar", nonneg)       float, default None
#   ("orientation",)         scipy Rotation or None
#   ("member", [..])         one of the strings
#   ("func",)                callable(field, observers) or None
POS, ORI = ("vecpath", 3), ("orientation",)
VEC3 = ("vec", 3, "any")
TETRA = [[0.0, 0.0, 0.0], [1.0, 0.0, 0.0], [0.0, 1.0, 0.0], [0.0, 0.0, 1.0]]
TRI_FACES = [[0, 2, 1], [0, 1, 3], [1, 2, 3], [0, 3, 2]]


def rot_about(axis, degs):
    """stack of rotations about one coordinate axis"""
    e = {"x": [1.0, 0, 0], "y": [0, 1.0, 0], "z": [0, 0, 1.0]}[axis]
    return R.from_rotvec(np.outer(np.deg2rad(np.array(degs, dtype=float)), e))


def good_func(field, observers):
    return np.zeros((len(observers), 3)) + (1.0 if field == "B" else 2.0)


def good_func2(field, observers, extra=1.0):
    return np.ones((len(observers), 3)) * extra


def func_bad_args(a, b):
    return np.zeros((len(b), 3))


def func_bad_shape(field, observers):
    return np.zeros((len(observers), 2))


def func_returns_list(field, observers):
    return [[0.0, 0.0, 0.0]] * len(observers)


def func_returns_none(field, observers):
    return None


def func_bad_h(field, observers):
    return np.zeros((len(observers), 3)) if field == "B" else np.zeros((len(observers), 2))


class ProbeError(Exception):
    """raised by the user's own field function: not the library's business"""


FIELD_BEHAVIOURS = ["none", "good", "scalar", "list", "shape3", "shapen2", "raises"]


def make_cross_func(bb, bh):
    """a field function whose behaviour is chosen separately for B and for H"""
    def one(kind, observers):
        n = len(observers)
        if kind == "none":
            return None
        if kind == "good":
            return np.full((n, 3), 0.25)
        if kind == "scalar":
            return 1.5
        if kind == "list":
            return [[0.0, 0.0, 0.0]] * n
        if kind == "shape3":
            return np.zeros(3)
        if kind == "shapen2":
            return np.zeros((n, 2))
        raise ProbeError(kind)

    def cross(field, observers):
        return one(bb if field == "B" else bh, observers)
    return cross


class _Funcs(dict):
    def __missing__(self, name):        # "x:<behaviour for B>:<behaviour for H>"
        _, bb, bh = name.split(":")
        self[name] = make_cross_func(bb, bh)
        return self[name]


FUNCS = _Funcs()
FUNCS.update({"badH": func_bad_h, "good": good_func, "good2": good_func2, "badargs": func_bad_args, "badshape": func_bad_shape,
         "list": func_returns_list, "none": func_returns_none})


def magnet_attrs(extra):
    d = {"position": POS, "orientation": ORI, "polarization": VEC3, "magnetization": VEC3}
    d.update(extra)
    return d


def make_collection(**kw):
    """a Collection with one magnet child and one sensor child (children follow the collection's pose setters)"""
    return magpy.Collection(magpy.magnet.Cuboid(dimension=(1, 1, 1), polarization=(0, 0, 1), position=(0.5, 0, 0)),
                            magpy.Sensor(position=(0, 0, 4)), **kw)


make_collection.__mro__ = magpy.Collection.__mro__     # owner_of() looks the defining class up here


def make_collection2(**kw):
    """nesting depth 2: grandchildren follow the pose setters of the outer collection"""
    inner = magpy.Collection(magpy.magnet.Cuboid(dimension=(1, 1, 1), polarization=(0, 0, 1), position=(0.5, 0, 0)),
                             magpy.Sensor(position=(0, 0, 4)), position=(0, 1, 0))
    return magpy.Collection(inner, magpy.current.Circle(diameter=1, current=1, position=(0, 0, -1)), **kw)


make_collection2.__mro__ = magpy.Collection.__mro__


def specs():
    M, C, X = magpy.magnet, magpy.current, magpy.misc
    pol = [0.5, 0.25, 1.0]
    return {
        "Collection": (make_collection, {}, {"position": POS, "orientation": ORI}),
        "Collection2": (make_collection2, {}, {"position": POS, "orientation": ORI}),
        "Cuboid": (M.Cuboid, {"dimension": [1.0, 2.0, 3.0], "polarization": pol},
                   magnet_attrs({"dimension": ("vec", 3, "pos")})),
        "Cylinder": (M.Cylinder, {"dimension": [1.0, 2.0], "polarization": pol},
                     magnet_attrs({"dimension": ("vec", 2, "pos")})),
        "CylinderSegment": (M.CylinderSegment, {"dimension": [1.0, 2.0, 1.0, 30.0, 120.0], "polarization": pol},
                            magnet_attrs({"dimension": ("vec", 5, "cylseg")})),
        "Sphere": (M.Sphere, {"diameter": 1.5, "polarization": pol}, magnet_attrs({"diameter": ("scalar", True)})),
        "Tetrahedron": (M.Tetrahedron, {"vertices": TETRA, "polarization": pol},
                        magnet_attrs({"vertices": ("mat", 4, 3)})),
        "Triangle": (X.Triangle, {"vertices": TETRA[:3], "polarization": pol},
                     magnet_attrs({"vertices": ("mat", 3, 3)})),
        "TriangularMesh": (M.TriangularMesh, {"vertices": TETRA, "faces": TRI_FACES, "polarization": pol},
                           magnet_attrs({"vertices": ("rows", 1, 3, False), "faces": ("rows", 1, 3, False)})),
        "Circle": (C.Circle, {"diameter": 2.0, "current": 1.5},
                   {"position": POS, "orientation": ORI, "diameter": ("scalar", True), "current": ("scalar", False)}),
        "Polyline": (C.Polyline, {"vertices": [[0.0, 0.0, 0.0], [1.0, 0.0, 0.5], [1.0, 1.0, 0.0]], "current": 1.5},
                     {"position": POS, "orientation": ORI, "vertices": ("rows", 2, 3, True),
                      "current": ("scalar", False)}),
        "Dipole": (X.Dipole, {"moment": [1.0, 2.0, 0.5]}, {"position": POS, "orientation": ORI, "moment": VEC3}),
        "CustomSource": (X.CustomSource, {"field_func": "@good"},
                         {"position": POS, "orientation": ORI, "field_func": ("func",)}),
        "Sensor": (magpy.Sensor, {"pixel": [[0.0, 0.0, 0.0], [0.0, 0.5, 0.0]], "handedness": "right"},
                   {"position": POS, "orientation": ORI, "pixel": ("grid", 3),
                    "handedness": ("member", ["right", "left"])}),
    }


SPECS = None
CTOR_ONLY = {("TriangularMesh", "vertices"), ("TriangularMesh", "faces")}
DATA_ATTRS = ["dimension", "diameter", "vertices", "faces", "polarization", "magnetization", "current", "moment",
              "pixel", "handedness", "field_func"]


def get_specs():
    global SPECS        # pylint: disable=global-statement
    if SPECS is None:
        SPECS = specs()
    return SPECS


def owner_of(cls, attr):
    for k in cls.__mro__:
        if attr in k.__dict__:
            return k.__name__
    return cls.__name__


# ====================================================================== value specs (JSON) -> python values
def build(v):
    """a fresh python value from its JSON spec"""
    k = v["k"]
    if k == "none":
        return None
    if k == "num":
        t = v.get("t", "py")
        x = v["v"]
        return {"py": lambda: x, "np64": lambda: np.float64(x), "np32": lambda: np.float32(x),
                "npint": lambda: np.int64(x), "frac": lambda: fractions.Fraction(x).limit_denominator(64)}[t]()
    if k == "bool":
        return bool(v["v"])
    if k == "complex":
        return complex(v["re"], v["im"])
    if k == "str":
        return v["v"]
    if k == "obj":
        return {"dict": lambda: {"a": 1}, "set": lambda: {1, 2, 3}, "object": object, "callable": lambda: len,
                "emptydict": dict, "bytes": lambda: b"abc", "range": lambda: range(3),
                "gen": lambda: (i for i in range(3))}[v["name"]]()
    if k == "rot" and v.get("kind"):
        return {"identity": lambda: R.from_quat([0, 0, 0, 1]),
                "q90z": lambda: R.from_euler("z", 90, degrees=True),
                "flip180x": lambda: R.from_euler("x", 180, degrees=True),
                "turns": lambda: rot_about("z", [0, 90, 180, 270, -90]),
                "mixed": lambda: R.from_euler("ZXZ", [[10, 20, 30], [180, 0, 0]], degrees=True)}[v["kind"]]()
    if k == "rot":
        n = v["n"]
        if n is None:
            return R.from_rotvec([0.1, 0.2, 0.3])
        if n == 0:
            return R.from_quat(np.zeros((0, 4)))       # an empty stack of rotations
        return R.from_rotvec([[0.1 * (i + 1), 0.2, -0.3] for i in range(n)])
    if k == "func":
        return FUNCS[v["name"]]
    if k == "seq":
        return _container(v["data"], v["c"], v.get("dtype"))
    if k == "zeros":          # arrays with a zero-length axis or many axes cannot be written as nested lists
        a = np.full(tuple(v["shape"]), float(v.get("fill", 1.0)))
        if v["c"] == "list":
            return a.tolist()
        return a
    if k == "raw":            # irregular content: ragged rows, strings / None / bools inside
        return _raw(v["data"], v["c"])
    raise ValueError(k)


def _container(data, c, dtype):
    if c == "strided":      # non-contiguous float64 view into a larger array of the caller
        a = np.array(data, dtype=float)
        return np.repeat(a[..., None], 2, axis=-1)[..., 0]
    if c == "forder":
        return np.asfortranarray(np.array(data, dtype=float))
    if c == "ndarray":
        return np.array(data, dtype={"int": int, "float": float, "f32": np.float32, None: float}[dtype])
    if c == "tuple":
        return _tup(data)
    return json.loads(json.dumps(data))


def _tup(d):
    return tuple(_tup(x) for x in d) if isinstance(d, list) else d


def _raw(d, c):
    def conv(x):
        if isinstance(x, list):
            return [conv(y) for y in x]
        if isinstance(x, dict):
            return build(x)
        return x
    out = conv(d)
    if c == "tuple":
        return tuple(out)
    if c == "objarray":
        return np.array(out, dtype=object)
    return out


def shape_of(v):
    """shape of the float array a numeric seq spec converts to, else None"""
    if v["k"] == "seq":
        return tuple(np.shape(np.array(v["data"], dtype=float)))
    if v["k"] == "zeros":
        return tuple(v["shape"])
    return None


def category(v):
    k = v["k"]
    if k == "none":
        return "none"
    if k in ("seq", "zeros"):
        return "num-array"
    if k == "num":
        return "ambiguous" if v.get("t") == "frac" else "scalar-real"
    if k == "bool":
        return "ambiguous"
    if k == "raw":
        return "ambiguous" if v.get("floatable") else "bad-type"
    if k == "rot":
        return "rotation"
    if k == "func":
        return "func"
    if k == "str":
        return "str"
    return "bad-type"      # complex, obj


# ====================================================================== the documented verdict
def cylseg_doc(vals):
    r1, r2, h, p1, p2 = vals
    if r1 < 0 or r2 < 0 or h < 0 or r1 > r2 or p1 > p2 or p2 - p1 > 360:
        return False          # negative size, inner above outer, reversed or > 360 deg
    if r1 == r2 or h == 0 or p1 == p2 or r2 == 0:
        return None           # degenerate boundary: the docstring says r1<r2, phi1<phi2; no demand either way
    return True


def doc_valid(doc, v):
    """True: documented-valid, must be accepted and stored; False: malformed, must raise the library's input error;
    None: the documentation does not decide (float-convertible oddities, degenerate boundaries): no demand on
    accept/reject, every other clause still applies"""
    kind, cat = doc[0], category(v)
    if kind == "orientation":
        if cat == "rotation" and v.get("n") == 0 and not v.get("kind"):
            return False           # documented: a Rotation "with length 1 or m"; an object path has >= 1 step
        return cat in ("none", "rotation")
    if kind == "member":
        return cat == "str" and v["v"] in doc[1]
    if kind == "func":
        if cat == "none":
            return True
        if cat == "func" and v["name"].startswith("x:"):
            _, bb, bh = v["name"].split(":")
            if "raises" in (bb, bh):
                return None       # the user's function raises during the probe: no demand on accept / reject
            return bb in ("none", "good") and bh in ("none", "good")
        if cat == "func":
            return v["name"] in ("good", "good2", "none")
        return False
    if kind == "scalar":
        if cat == "none":
            return True
        if cat == "scalar-real":
            if doc[1] and v["v"] < 0:
                return False
            if doc[1] and v["v"] == 0:
                return None
            return True
        if cat == "ambiguous":
            return None if v["k"] in ("bool", "num") else False
        return False
    # array-valued attributes
    if cat == "none":
        return {"vec": True, "vecpath": False, "mat": True, "grid": True}.get(kind, doc[3] if kind == "rows" else False)
    if cat == "ambiguous":
        return None
    if cat != "num-array":
        return False
    s = shape_of(v)
    if kind == "vec":
        if s != (doc[1],):
            return False
        vals = np.array(build(v), dtype=float).ravel().tolist()
        if doc[2] == "pos":
            if any(x < 0 for x in vals):
                return False
            return None if any(x == 0 for x in vals) else True
        if doc[2] == "cylseg":
            return cylseg_doc(vals)
        return True
    if kind == "vecpath":
        return s == (3,) or (len(s) == 2 and s[1] == 3 and s[0] >= 1)
    if kind == "mat":
        if s != (doc[1], doc[2]):
            return False
        if s == (4, 3):
            a = np.array(build(v), dtype=float)
            if np.linalg.matrix_rank(a[1:] - a[0]) < 3:
                return None   # zero-volume tetrahedron: not excluded by the docstring, rejecting it is fine; the
                              # `computable` clause still demands that an ACCEPTED one does not crash getB
        return True
    if kind == "rows":
        return len(s) == 2 and s[1] == doc[2] and s[0] >= doc[1]
    if kind == "grid":
        return 1 <= len(s) <= 19 and s[-1] == 3
    raise ValueError(kind)


def vkind(doc, v):
    """abstract description of a value for signatures: never raw numbers"""
    k = v["k"]
    if k == "none":
        return "None"
    if doc[0] == "member" and k != "str":
        try:
            hash(None if v.get("name") == "set" else build(v))
        except TypeError:
            return "unhashable"
        return "hashable-non-str"
    if k == "num":
        if doc[0] == "scalar":
            return "negative" if v["v"] < 0 else ("zero" if v["v"] == 0 else "number")
        return "scalar"
    if k in ("bool", "complex", "str"):
        if doc[0] == "member" and k == "str":
            return "str"
        return k
    if k == "obj":
        return v["name"]
    if k == "rot":
        return "empty-Rotation" if v.get("n") == 0 and not v.get("kind") else "Rotation"
    if k == "func" and v["name"].startswith("x:"):
        cl = [b if b in ("none", "good", "raises") else "malformed" for b in v["name"].split(":")[1:]]
        return f"callable-B:{cl[0]}-H:{cl[1]}"
    if k == "func":
        return "callable-" + v["name"]
    if k == "raw":
        return "raw-" + v["why"]
    s = shape_of(v)
    return shape_pattern(doc, s) + value_pattern(doc, v, s)


def shape_pattern(doc, s):
    kind = doc[0]
    if len(s) == 0:
        return "0-d"
    if kind in ("scalar", "orientation", "func", "member"):
        return "array"
    if kind == "vec":
        return (f"({doc[1]},)" if s[0] == doc[1] else "(k,)") if len(s) == 1 else f"rank{len(s)}"
    if kind == "grid":
        if len(s) >= 20:
            return "rank>=20"
        zero = "0," if 0 in s[:-1] else ""
        return f"({zero}...,3)" if s[-1] == 3 else "(...,k)"
    c = {"vecpath": 3, "mat": doc[2] if kind == "mat" else None, "rows": doc[2] if kind == "rows" else None}[kind]
    if len(s) == 1:
        return f"({c},)" if s[0] == c else "(k,)"
    if len(s) != 2:
        return f"rank{len(s)}"
    last = str(c) if s[1] == c else "k"
    if kind == "mat":
        first = str(doc[1]) if s[0] == doc[1] else "n"
    else:
        lo = 1 if kind == "vecpath" else doc[1]
        first = "n" if s[0] >= lo else str(s[0])
    return f"({first},{last})"


def value_pattern(doc, v, s):
    if doc[0] == "mat" and s == (4, 3) == (doc[1], doc[2]):
        a = np.array(build(v), dtype=float)
        return ":zero-volume" if np.linalg.matrix_rank(a[1:] - a[0]) < 3 else ""
    if doc[0] != "vec" or doc[2] == "any" or s != (doc[1],):
        return ""
    vals = np.array(build(v), dtype=float).ravel().tolist()
    if doc[2] == "pos":
        return ":negative" if any(x < 0 for x in vals) else (":zero" if any(x == 0 for x in vals) else "")
    r1, r2, h, p1, p2 = vals
    tags = []
    if r1 < 0 or r2 < 0 or h < 0:
        tags.append("negative")
    if r1 > r2:
        tags.append("r1>r2")
    if p1 > p2:
        tags.append("reversed")
    if p2 - p1 > 360:
        tags.append(">360")
    if not tags and (r1 == r2 or h == 0 or p1 == p2 or r2 == 0):
        tags.append("degenerate")
    return ":" + "+".join(tags) if tags else ""


# ====================================================================== the grammar
DY = [0.5, 1.0, 1.5, 2.0, 0.25, 3.0, 0.75, 2.5, 4.0, 1.25]


def fill(shape, off=0, neg=False):
    n = int(np.prod(shape)) if len(shape) else 1
    flat = [DY[(i + off) % len(DY)] * (-1 if neg and i % 3 == 1 else 1) for i in range(n)]
    return np.array(flat, dtype=float).reshape(shape).tolist()


def seq(shape, c="list", off=0, dtype=None, neg=False):
    if 0 in shape or len(shape) > 6:
        return {"k": "zeros", "shape": list(shape), "c": "ndarray"}
    d = fill(shape, off, neg)
    if dtype == "int":
        d = np.array(d).astype(int).tolist()
    out = {"k": "seq", "data": d, "c": c}
    if dtype:
        out["dtype"] = dtype
    return out


def battery_types():
    """scalars, None, strings, objects: every attribute sees all of them"""
    vs = [{"k": "none"}]
    for x in (0, 1, -1, 3, 0.0, 2.5, -0.5, 1e-3, 1e6):
        vs.append({"k": "num", "v": x})
    vs += [{"k": "num", "v": 1.5, "t": "np64"}, {"k": "num", "v": 0.5, "t": "np32"}, {"k": "num", "v": 2, "t": "npint"},
           {"k": "num", "v": -2.0, "t": "np64"}, {"k": "num", "v": 0.75, "t": "frac"},
           {"k": "bool", "v": True}, {"k": "bool", "v": False},
           {"k": "complex", "re": 1.0, "im": 2.0}, {"k": "complex", "re": 1.0, "im": 0.0}]
    for s in ("abc", "", "right", "left", "Right", "x", "123", "auto", "None"):
        vs.append({"k": "str", "v": s})
    for n in ("dict", "emptydict", "set", "object", "callable", "bytes", "range", "gen"):
        vs.append({"k": "obj", "name": n})
    vs += [{"k": "rot", "n": None}, {"k": "rot", "n": 1}, {"k": "rot", "n": 3}, {"k": "rot", "n": 2}, {"k": "rot", "n": 17},
           {"k": "rot", "n": 0}]
    vs += [{"k": "rot", "n": None, "kind": kd} for kd in ("identity", "q90z", "flip180x", "turns", "mixed")]
    for n in list(FUNCS):
        if not n.startswith("x:"):
            vs.append({"k": "func", "name": n})
    vs += [{"k": "func", "name": "x:none:shapen2"}, {"k": "func", "name": "x:good:raises"}]
    # irregular / non-float content
    vs += [
        {"k": "raw", "data": [[1.0, 2.0, 3.0], [1.0, 2.0]], "c": "list", "why": "ragged"},
        {"k": "raw", "data": [1.0, "x", 3.0], "c": "list", "why": "str-entry"},
        {"k": "raw", "data": [1.0, {"k": "none"}, 3.0], "c": "list", "why": "None-entry", "floatable": True},
        {"k": "raw", "data": [[1.0, 2.0, "a"]], "c": "tuple", "why": "str-entry"},
        {"k": "raw", "data": [{"k": "complex", "re": 1.0, "im": 1.0}, 2.0, 3.0], "c": "list", "why": "complex-entry"},
        {"k": "raw", "data": ["1", "2", "3"], "c": "list", "why": "numeric-strings", "floatable": True},
        {"k": "raw", "data": [True, False, True], "c": "list", "why": "bool-entries", "floatable": True},
        {"k": "raw", "data": [1.0, [2.0], 3.0], "c": "list", "why": "ragged"},
        {"k": "raw", "data": [1.0, 2.0, {"k": "obj", "name": "object"}], "c": "objarray", "why": "object-array"},
        {"k": "raw", "data": [], "c": "list", "why": "empty"},
        {"k": "raw", "data": [[]], "c": "list", "why": "empty"},
    ]
    return vs


def battery_shapes(rng, n_extra):
    """nested sequences / arrays of all ranks and lengths, NaN-free"""
    cs = ["list", "tuple", "ndarray"]
    vs = [{"k": "zeros", "shape": [], "c": "ndarray"}]       # 0-d array
    i = 0
    for a in range(0, 8):
        vs.append(seq((a,), cs[i % 3], off=i))
        i += 1
    for a in range(0, 7):
        for b in range(0, 7):
            vs.append(seq((a, b), cs[i % 3], off=i))
            i += 1
    for a, b, c in [(1, 1, 3), (2, 2, 3), (1, 3, 3), (3, 1, 3), (4, 1, 3), (2, 3, 2), (3, 3, 3), (1, 4, 3), (2, 1, 5),
                    (0, 2, 3), (2, 0, 3), (1, 1, 1), (2, 2, 2), (1, 5, 1), (4, 3, 1), (3, 4, 3), (1, 1, 2), (1, 2, 5)]:
        vs.append(seq((a, b, c), cs[i % 3], off=i))
        i += 1
    for s in [(1, 1, 1, 3), (2, 1, 2, 3), (1, 1, 4, 3), (2, 2, 2, 2), (1, 1, 1, 1, 3), (2, 1, 1, 2, 3), (1,) * 5 + (5,),
              (1,) * 18 + (3,), (1,) * 19 + (3,), (1,) * 20 + (3,), (1,) * 18 + (2, 3), (1,) * 18 + (4,)]:
        vs.append(seq(s, "ndarray", off=i))
        i += 1
    vs += [seq((3,), "ndarray", dtype="int"), seq((2, 3), "ndarray", dtype="int"), seq((4, 3), "ndarray", dtype="f32"),
           seq((3,), "list", neg=True), seq((2,), "list", neg=True), seq((5,), "tuple", neg=True),
           seq((3, 3), "list", neg=True), seq((4, 3), "ndarray", neg=True)]
    for _ in range(n_extra):
        rank = rng.choice([1, 1, 2, 2, 2, 3, 3, 4, 5])
        shape = tuple(rng.choice([1, 2, 3, 3, 3, 4, 5, 0, 6]) for _ in range(rank))
        vs.append(seq(shape, rng.choice(cs), off=rng.randrange(10), neg=rng.random() < 0.2))
    return vs


def mutated_valid(doc, valid, rng, n):
    """mutated copies of a valid value of this attribute"""
    kind = doc[0]
    out = []
    if kind in ("scalar",):
        for x in (valid, -valid, 0.0, valid * 2, -1e-9, 1e-12, 1e9):
            out.append({"k": "num", "v": x})
        out += [seq((1,), "list"), seq((1,), "ndarray"), {"k": "str", "v": str(valid)}]
        return out
    if kind in ("orientation", "member", "func"):
        return out
    a = np.array(valid, dtype=float)
    cs = ["list", "tuple", "ndarray"]

    def mk(arr, c=None):
        arr = np.array(arr, dtype=float)
        if 0 in arr.shape:
            return {"k": "zeros", "shape": list(arr.shape), "c": "ndarray"}
        return {"k": "seq", "data": arr.tolist(), "c": c or cs[len(out) % 3]}

    out.append(mk(a, "list"))
    out.append(mk(a, "tuple"))
    out.append(mk(a, "ndarray"))
    out.append({"k": "seq", "data": np.rint(a * 4).astype(int).tolist(), "c": "ndarray", "dtype": "int"})
    out.append(mk([a]))                         # wrapped once more
    out.append(mk([[a]]))
    out.append(mk(a.T if a.ndim == 2 else a[::-1]))
    out.append(mk(-a))
    out.append(mk(a * 0))
    out.append(mk(a * 1e-9))
    out.append(mk(a * 1e9))
    for sc in (1e-3, 1e-6, 1e3, 1e6):           # absolute length / field scale
        out.append(mk(a * sc))
    out.append(mk(a, "strided"))                # float64 views of a caller array
    out.append(mk(a, "forder"))
    if a.ndim == 2 and a.shape[1] == 3:
        out.append(mk(a + np.array([5.0, -4.0, 3.0])))      # body / path off its local origin
        out.append(mk(a + np.array([5.0, -4.0, 3.0]), "strided"))
        out.append(mk(a[::-1]))                             # other vertex order / chirality
        out.append(mk(np.roll(a, 1, axis=0)))
        out.append(mk(a[[1, 0] + list(range(2, len(a)))]))
        out.append(mk(np.concatenate([a] * 6)[:16 + len(a) % 2]))    # many rows
    if a.ndim == 1 and kind == "vec" and doc[2] == "any":
        for j in range(len(a)):                 # exactly along +-x, +-y, +-z
            e = np.zeros(len(a))
            e[j] = 1.0
            out.append(mk(e))
            out.append(mk(-e))
        out.append(mk(np.roll(a, 1)))
        out.append(mk(np.roll(a, 2)))
    if a.ndim == 1 and kind == "vec" and doc[2] == "pos":
        for j in range(len(a)):                 # every axis the long one / the thin one
            e = np.ones(len(a))
            e[j] = 10.0
            out.append(mk(e))
            e = np.ones(len(a))
            e[j] = 1e-6
            out.append(mk(e))
    out.append(mk(a[:-1]))                      # one entry / row dropped
    out.append(mk(a[1:]))
    out.append(mk(np.concatenate([a, a[:1]])))  # one entry / row added
    out.append(mk(np.concatenate([a, a])))
    if a.ndim == 2:
        out.append(mk(a[:, :-1]))               # one column dropped
        out.append(mk(np.concatenate([a, a[:, :1]], axis=1)))
        out.append(mk(a[:1]))
        out.append(mk(a[:2]))
        out.append(mk(a.ravel()))
    if a.ndim == 1:
        out.append(mk(a.reshape(-1, 1)))
        for j in range(len(a)):                 # one entry negated / zeroed at a time
            b = a.copy()
            b[j] = -b[j] if b[j] != 0 else -1.0
            out.append(mk(b))
            b = a.copy()
            b[j] = 0.0
            out.append(mk(b))
    if kind == "vec" and doc[2] == "cylseg":
        for b in ([2.0, 1.0, 1.0, 30.0, 120.0], [1.0, 2.0, 1.0, 120.0, 30.0], [1.0, 2.0, 1.0, 0.0, 360.0],
                  [1.0, 2.0, 1.0, 0.0, 360.5], [1.0, 2.0, 1.0, -200.0, 200.0], [0.0, 2.0, 1.0, -360.0, 0.0],
                  [1.0, 1.0, 1.0, 0.0, 90.0], [1.0, 2.0, 1.0, 45.0, 45.0], [0.0, 0.0, 1.0, 0.0, 90.0],
                  [-0.5, 2.0, 1.0, 0.0, 90.0], [1.0, 2.0, -1.0, 0.0, 90.0], [1.0, 2.0, 1.0, -400.0, -390.0],
                  [1.0, 2.0, 1.0, 700.0, 720.0], [0.0, 1.0, 1.0, 0.0, 360.0],
                  [1.0, 2.0, 1.0, -270.0, -200.0], [0.5, 1.0, 2.0, -540.0, -200.0], [1.0, 2.0, 1.0, -359.75, 0.0],
                  [1.0, 2.0, 1.0, 0.25, 360.0], [1.0, 1.000001, 1.0, 0.0, 90.0], [0.0, 2.0, 1.0, -180.0, 180.0],
                  [1.0, 2.0, 1.0, -180.0, 180.5], [1.0, 2.0, 1.0, -720.0, -360.5], [1.0, 2.0, 1.0, 0.0, 359.999],
                  [1.0, 2.0, 1.0, 0.0, 360.001], [1.0, 2.0, 1.0, -360.0, 0.5], [0.0, 1e-3, 1e-6, 0.0, 1.0],
                  [1e3, 2e3, 1e3, 10.0, 20.0], [1.0, 10.0, 0.01, 0.0, 45.0], [1.0, 1.1, 50.0, 0.0, 45.0]):
            out.append(mk(b))
    for _ in range(n):
        b = a.copy()
        idx = tuple(rng.randrange(d) for d in b.shape)
        b[idx] = rng.choice([-1.0, 0.0, 0.125, 8.0, -b[idx]])
        out.append(mk(b))
    return out


def values_for(ctx, cls_name, attr, rng, shared):
    _, base, attrs = get_specs()[cls_name]
    doc = attrs[attr]
    vs = list(shared)
    valid = base.get(attr)
    if isinstance(valid, str) and valid.startswith("@"):
        valid = None
    if attr == "position":
        valid = [[1.0, 2.0, 3.0], [0.5, -1.0, 2.0]]
    if attr == "magnetization":
        valid = [1e5, 2e5, 5e4]
    if valid is not None:
        vs += mutated_valid(doc, valid, rng, ctx.n(4, 120))
    if attr == "field_func":             # full cross product of per-field behaviours, B x H
        vs += [{"k": "func", "name": f"x:{bb}:{bh}"} for bb in FIELD_BEHAVIOURS for bh in FIELD_BEHAVIOURS]
    if attr == "faces":
        vs = [as_indices(v) for v in vs]
    return vs


def as_indices(v):
    """faces entries are vertex indices: keep the shape / container, make every entry one of 0..3"""
    if v["k"] != "seq":
        return v
    d = (np.abs(np.array(v["data"], dtype=float)).astype(int) % 4).astype(float if v.get("dtype") != "int" else int)
    out = dict(v)
    out["data"] = d.tolist()
    return out


# ====================================================================== running one assignment on the implementation
def make_obj(cls_name, override=None):
    make, base, _ = get_specs()[cls_name]
    kw = {}
    for k, val in base.items():
        kw[k] = FUNCS[val[1:]] if isinstance(val, str) and val.startswith("@") else json.loads(json.dumps(val))
    if cls_name == "TriangularMesh":
        kw.update(check_open="skip", check_disconnected="skip", check_selfintersecting="skip", reorient_faces="skip")
    if override:
        attr, val = override
        if attr == "magnetization":
            kw.pop("polarization", None)
        kw[attr] = val
        if cls_name == "TriangularMesh" and attr == "vertices":
            try:
                n = np.array(val, dtype=float).shape[0]
            except Exception:        # pylint: disable=broad-except
                n = 0
            if 1 <= n < 4:           # keep the (unchanged) faces argument consistent with n vertices
                kw["faces"] = [[0, min(1, n - 1), min(2, n - 1)]]
    return make(**kw)


def snap(obj):
    out = {"_position": np.array(obj._position, copy=True), "_orientation": obj._orientation.as_quat().copy()}
    def walk(o, tag):           # a rejected pose assignment must not move children / grandchildren
        for i, ch in enumerate(getattr(o, "children", [])):
            out[f"{tag}{i}_position"] = np.array(ch._position, copy=True)
            out[f"{tag}{i}_orientation"] = ch._orientation.as_quat().copy()
            walk(ch, f"{tag}{i}.")
    walk(obj, "child")
    for a in DATA_ATTRS:
        if hasattr(obj, a):
            x = getattr(obj, "_" + a, None)
            out[a] = np.array(x, copy=True) if isinstance(x, np.ndarray) else x
    return out


def same_snap(a, b):
    if a.keys() != b.keys():
        return False
    for k in a:
        x, y = a[k], b[k]
        if isinstance(x, np.ndarray) or isinstance(y, np.ndarray):
            if not (isinstance(x, np.ndarray) and isinstance(y, np.ndarray) and x.shape == y.shape
                    and x.dtype == y.dtype and np.array_equal(x, y)):
                return False
        elif x is not y and x != y:
            return False
    return True


def diff_keys(a, b):
    """which parts of the state differ between two snapshots"""
    out = []
    for k in sorted(set(a) | set(b)):
        if k not in a or k not in b or not same_snap({k: a[k]}, {k: b[k]}):
            name = "children" if k.startswith("child") else k.lstrip("_")
            if name not in out:
                out.append(name)
    return out


def classify(e):
    if isinstance(e, LIB_ERRORS):
        return "lib"
    if isinstance(e, IndexError) and "`faces` indices do not match" in str(e):
        # raised on purpose by TriangularMesh._input_check for faces that point outside the vertex array: a
        # consistency rule between two arguments, not a format error of one; counted as a rejection by the library
        return "lib"
    return "foreign:" + type(e).__name__


def assign(cls_name, attr, v, via, precall=True):
    """returns (outcome, obj, detail): outcome accepted | lib | foreign:<Exc>; for a rejected setter call detail tells
    whether the object was left unchanged"""
    val = build(v)
    if via == "ctor":
        try:
            obj = make_obj(cls_name, (attr, val))
        except Exception as e:      # pylint: disable=broad-except
            return classify(e), None, {"value": val, "msg": str(e)[:160]}
        return "accepted", obj, {"value": val}
    obj = make_obj(cls_name)
    if via == "setter" and precall:
        field_of(obj)               # a field call BEFORE the assignment: nothing computed here may survive it
    if via == "setter-path":        # the object already has a path of intermediate length
        obj.position = [[1.0, 2.0, 3.0], [2.0, 3.0, 4.0], [3.0, 4.0, 5.5]]
        obj.orientation = rot_about("y", [0, 90, 45])
    before = snap(obj)
    if via == "copy":               # obj.copy(attr=value): the keyword goes through the copy's setter
        try:
            new = obj.copy(**{attr: val})
        except Exception as e:      # pylint: disable=broad-except
            return classify(e), obj, {"value": val, "unchanged": same_snap(before, snap(obj)), "changed": diff_keys(before, snap(obj)),
                                     "msg": str(e)[:160]}
        return "accepted", new, {"value": val, "unchanged": same_snap(before, snap(obj)),
                                 "changed": diff_keys(before, snap(obj))}
    try:
        setattr(obj, attr, val)
    except Exception as e:          # pylint: disable=broad-except
        return classify(e), obj, {"value": val, "unchanged": same_snap(before, snap(obj)), "changed": diff_keys(before, snap(obj)),
                                     "msg": str(e)[:160]}
    return "accepted", obj, {"value": val}


def stored_raw(obj, attr):
    if attr == "orientation":
        return obj._orientation.as_quat()
    return getattr(obj, "_" + attr)


def expected_store(doc, val):
    """what an accepted value must read back as (public getter)"""
    kind = doc[0]
    if val is None:
        return None
    if kind == "scalar":
        return float(val)
    if kind in ("member", "func"):
        return val
    if kind == "orientation":
        return val
    a = np.array(val, dtype=float)
    if kind == "vecpath":
        a = np.squeeze(a)            # documented: a path of length 1 reads back as shape (3,)
    return a


def readback_problem(obj, attr, doc, val, v):
    kind = doc[0]
    got = getattr(obj, attr)
    if kind == "orientation":
        want = R.from_quat([0, 0, 0, 1]) if val is None else val
        q1 = np.reshape(want.as_quat(), (-1, 4))
        q2 = np.reshape(got.as_quat(), (-1, 4))
        if q1.shape != q2.shape or (len(q1) and (R.from_quat(q1) * R.from_quat(q2).inv()).magnitude().max() > 1e-12):
            return "orientation reads back different"
        return None
    want = expected_store(doc, val)
    if want is None:
        if got is None and attr in ("polarization", "magnetization"):
            if obj.polarization is not None or obj.magnetization is not None:
                return "polarization and magnetization are inconsistent after assigning None"
        return None if got is None else f"None reads back as {type(got).__name__}"
    if kind == "scalar":
        if not isinstance(got, float) or got != want:
            return f"scalar reads back as {got!r} ({type(got).__name__})"
        return None
    if kind == "member":
        return None if got == want else "value reads back different"
    if kind == "func":
        return None if got is want else "callable reads back different"
    if not isinstance(got, np.ndarray):
        return f"reads back as {type(got).__name__}"
    if attr == "faces":
        if got.dtype.kind != "i":
            return f"faces dtype {got.dtype}"
    elif got.dtype != np.float64:
        return f"stored dtype {got.dtype} is not float64"
    if got.shape != want.shape or not np.array_equal(np.asarray(got, dtype=float), want, equal_nan=True):
        return f"reads back with shape {got.shape} / different entries (given shape {want.shape})"
    if attr in ("polarization", "magnetization"):
        # J = mu0 M is one documented quantity with two names: the twin attribute follows the assignment
        pol, mag = obj.polarization, obj.magnetization
        if not np.allclose(pol, mag * (4 * np.pi * 1e-7), rtol=1e-9, atol=0, equal_nan=True):
            return "polarization and magnetization are inconsistent after the assignment"
    if isinstance(val, np.ndarray):
        raw = stored_raw(obj, attr)
        if np.shares_memory(raw, val):
            return "stored array shares memory with the caller's array"
        if val.size and val.dtype.kind in "fi":
            keep = np.array(raw, copy=True)
            val += 1                      # the caller goes on using its array
            if not np.array_equal(stored_raw(obj, attr), keep):
                return "stored value changes when the caller's array is modified"
    return None


_SRC = None


def compute_problem(obj):
    """getB after an accepted assignment: library errors (e.g. a parameter still None) are fine, anything else is an
    internal error"""
    global _SRC         # pylint: disable=global-statement
    if isinstance(obj, magpy.misc.CustomSource):
        for name in ("getB", "getH"):    # a custom field function serves B and H separately: ask for both, each on
            try:                         # its own (a library error for one field must not hide the other)
                out = getattr(obj, name)(OBS)
                if not isinstance(out, np.ndarray):
                    return f"{name} returned {type(out).__name__}"
            except LIB_ERRORS + (ProbeError,):
                pass
            except Exception as e:       # pylint: disable=broad-except
                return f"{name} raised {type(e).__name__}: {str(e)[:120]}"
        return None
    try:
        if isinstance(obj, magpy.Collection):
            out = magpy.getB(obj, OBS)
        elif isinstance(obj, magpy.Sensor):
            if _SRC is None:
                _SRC = magpy.magnet.Cuboid(dimension=(1, 1, 1), polarization=(0, 0, 1), position=(0.2, 0.1, 3))
            out = _SRC.getB(obj)
        else:
            out = obj.getB(OBS)
        if not isinstance(out, np.ndarray):
            return f"getB returned {type(out).__name__}"
    except LIB_ERRORS + (ProbeError,):
        return None
    except Exception as e:           # pylint: disable=broad-except
        return f"getB / getH raised {type(e).__name__}: {str(e)[:120]}"
    return None


def same_stored(a, b):
    if isinstance(a, np.ndarray) or isinstance(b, np.ndarray):
        return isinstance(a, np.ndarray) and isinstance(b, np.ndarray) and a.shape == b.shape \
            and a.dtype == b.dtype and np.array_equal(a, b, equal_nan=True)
    return a is b or a == b


def field_of(obj):
    """('B', array) | ('lib', None) | ('err', text)"""
    global _SRC         # pylint: disable=global-statement
    try:
        if isinstance(obj, magpy.Collection):
            return "B", np.asarray(magpy.getB(obj, OBS))
        if isinstance(obj, magpy.Sensor):
            if _SRC is None:
                _SRC = magpy.magnet.Cuboid(dimension=(1, 1, 1), polarization=(0, 0, 1), position=(0.2, 0.1, 3))
            return "B", np.asarray(_SRC.getB(obj))
        return "B", np.asarray(obj.getB(OBS))
    except LIB_ERRORS:
        return "lib", None
    except Exception as e:           # pylint: disable=broad-except
        return "err", f"{type(e).__name__}: {str(e)[:100]}"


def twin_field_problem(a, b):
    """same stored state reached two ways (call -> assign -> call vs. a fresh object) => the same field; tolerance
    relative to the field's own scale"""
    if isinstance(a, magpy.Collection):
        return None                  # children follow a pose SETTER but not the constructor argument (documented)
    (ka, fa), (kb, fb) = field_of(a), field_of(b)
    if ka == "err" or kb == "err":
        return None                  # reported by the `computable` clause
    if ka != kb:
        return f"field computation: {ka} on one object, {kb} on its twin with the same stored value"
    if ka == "B":
        if fa.shape != fb.shape:
            return f"field shapes differ between twins: {fa.shape} vs {fb.shape}"
        fin = np.isfinite(fa) & np.isfinite(fb)
        scale = max(float(np.max(np.abs(fa[fin]), initial=0.0)), float(np.max(np.abs(fb[fin]), initial=0.0)))
        if not np.array_equal(np.isfinite(fa), np.isfinite(fb)) or \
                (scale > 0 and float(np.max(np.abs(fa[fin] - fb[fin]), initial=0.0)) > 1e-9 * scale):
            return "field after call -> assignment -> call differs from a freshly constructed twin"
    return None


def check_case(cls_name, attr, v, vias=("setter", "ctor", "copy", "setter-path")):
    """the property's oracle on one (class, attribute, value); returns list of (clause, what)"""
    make, _, attrs = get_specs()[cls_name]
    doc = attrs[attr]
    dv = doc_valid(doc, v)
    fails = []
    res = {}
    for via in vias:
        if via != "ctor" and (cls_name, attr) in CTOR_ONLY:
            continue
        if via == "setter-path" and attr not in ("position", "orientation"):
            continue
        outcome, obj, det = assign(cls_name, attr, v, via, precall=dv is not False)
        res[via] = (outcome, obj, det)
        if outcome == "accepted":
            if dv is False:
                fails.append(("accepts-undocumented", f"{via}: malformed value accepted"))
            p = readback_problem(obj, attr, doc, det["value"], v)
            if p:
                fails.append(("read-back", f"{via}: {p}"))
            p = compute_problem(obj)
            if p:
                fails.append(("computable", f"{via}: accepted, then {p}"))
        else:
            if dv is True:
                fails.append(("rejects-documented", f"{via}: documented value raised {outcome}: {det['msg']}"))
            elif outcome != "lib" and outcome != "foreign:ProbeError":
                fails.append(("foreign-exception", f"{via}: raised {outcome[8:]} instead of the library's input "
                                                   f"error: {det['msg']}"))
            if via != "ctor" and not det["unchanged"]:
                fails.append(("rejected-unchanged", f"{via} raised {outcome} after changing the object's "
                                                    f"{'+'.join(det['changed'])}", "+".join(det["changed"])))
        if via == "copy" and outcome == "accepted" and not det["unchanged"]:
            fails.append(("rejected-unchanged", "copy(attr=value) changed the ORIGINAL object's "
                                                + "+".join(det["changed"]), "original:" + "+".join(det["changed"])))
    if "setter" in res and "copy" in res:
        (o1, ob1, _), (o3, ob3, _) = res["setter"], res["copy"]
        if o1 != o3 and not (o1.startswith("foreign") and o3.startswith("foreign")):
            fails.append(("ctor-setter", f"setter: {o1}, copy(attr=value): {o3}"))
        elif o1 == "accepted" and not same_stored(stored_raw(ob1, attr), stored_raw(ob3, attr)):
            fails.append(("ctor-setter", "copy(attr=value) and the setter store different values"))
    if "setter" in res and "ctor" in res:
        (o1, ob1, _), (o2, ob2, _) = res["setter"], res["ctor"]
        if (o1 == "accepted") != (o2 == "accepted") or (o1 != "accepted" and (o1 == "lib") != (o2 == "lib")):
            fails.append(("ctor-setter", f"setter: {o1}, constructor: {o2}"))
        elif o1 == "accepted":
            if not same_stored(stored_raw(ob1, attr), stored_raw(ob2, attr)):
                fails.append(("ctor-setter", "constructor and setter store different values"))
            else:
                p = twin_field_problem(ob1, ob2)
                if p:
                    fails.append(("ctor-setter", p))
    # later clauses are consequences of earlier ones (an undocumented value that was accepted also "differs between
    # constructor and setter", ...): report the first failing clause only, so that one defect has one signature
    fails.sort(key=lambda f: CLAUSES.index(f[0]))
    return fails[:1], res


def fail_sig(cls_name, attr, f, v):
    """signature of one failure: rejected-unchanged is identified by WHAT changed, the others by the kind of value"""
    if len(f) > 2:
        make = get_specs()[cls_name][0]
        return f"{f[0]}/{owner_of(make, attr)}.{attr}:changed-{f[2]}"
    return signature(cls_name, attr, f[0], v)


CLAUSES = ["rejects-documented", "accepts-undocumented", "foreign-exception", "rejected-unchanged", "read-back",
           "computable", "ctor-setter"]


def signature(cls_name, attr, clause, v):
    make, _, attrs = get_specs()[cls_name]
    return f"{clause}/{owner_of(make, attr)}.{attr}:{vkind(attrs[attr], v)}"


def simpler(v):
    """candidate simplifications of a value spec (same kind of value, plainer content)"""
    out = []
    s = shape_of(v)
    if v["k"] == "seq" and s is not None:
        ones = np.ones(s).tolist()
        if v["data"] != ones:
            out.append({"k": "seq", "data": ones, "c": "list"})
        if v["c"] != "list":
            out.append({"k": "seq", "data": v["data"], "c": "list"})
        for ax in range(len(s)):
            if s[ax] > 1:
                a = np.array(v["data"], dtype=float)
                out.append({"k": "seq", "data": np.take(a, range(s[ax] - 1), axis=ax).tolist(), "c": v["c"]})
    return out


def shrink_value(cls_name, attr, clause, v):
    sig = signature(cls_name, attr, clause, v)
    steps = 0
    progress = True
    while progress and steps < 12:
        progress = False
        for cand in simpler(v):
            steps += 1
            try:
                fails, _ = check_case(cls_name, attr, cand)
            except Exception:      # pylint: disable=broad-except
                continue
            if any(f[0] == clause for f in fails) and signature(cls_name, attr, clause, cand) == sig:
                v, progress = cand, True
                break
    return v


def sweep(ctx, big):
    """the search: the oracle over classes x attributes x grammar, both routes"""
    
    rng = ctx.rng
    shared = battery_types() + battery_shapes(rng, ctx.n(10, 600) * (3 if big else 1))
    found = {}
    for cls_name, (make, _, attrs) in get_specs().items():
        for attr, doc in attrs.items():
            for v in values_for(ctx, cls_name, attr, rng, shared):
                fails, res = check_case(cls_name, attr, v)
                ctx.case((cls_name, attr, json.dumps(v, sort_keys=True)), True)
                o = next(iter(res.values()))[0]
                ctx.bump("search:" + ("accepted" if o == "accepted" else "rejected-lib" if o == "lib" else "foreign"))
                ctx.bump("search-attr:" + attr)
                for f in fails:
                    clause, what = f[0], f[1]
                    sig = fail_sig(cls_name, attr, f, v)
                    if sig not in found or len(json.dumps(v)) < len(json.dumps(found[sig][2])):
                        found[sig] = (cls_name, attr, v, clause, what)
    for cls_name, (make, _, attrs) in get_specs().items():
        for attr, doc in attrs.items():
            if (cls_name, attr) not in CTOR_ONLY:
                r = history_case(cls_name, attr)
                ctx.case(("history", cls_name, attr), True)
                ctx.bump("search:history")
                if r is not None:
                    clause, what, v = r
                    sig = signature(cls_name, attr, clause, v) + ":history"
                    ctx.impl_fail(sig, f"{cls_name}.{attr}: {what}",
                                  {"kind": "history", "class": cls_name, "attr": attr, "clause": clause})
            r = own_array_case(cls_name, attr)
            ctx.case(("own-array", cls_name, attr), True)
            if r is not None:
                ctx.impl_fail(f"{r[0]}/{owner_of(make, attr)}.{attr}:own-array", f"{cls_name}.{attr}: {r[1]}",
                              {"kind": "own-array", "class": cls_name, "attr": attr, "clause": r[0]})
    none_contexts(ctx)
    for rep_i in range(ctx.n(3, 20)):
        r = batch_case(rng)
        ctx.case(("batch", rep_i), True)
        ctx.bump("search:batch")
        if r is not None:
            ctx.impl_fail(f"{r[0]}/batch:{r[2]}", r[1], {"kind": "batch", "clause": r[0]})
    for sig, (cls_name, attr, v, clause, what) in sorted(found.items()):
        v2 = shrink_value(cls_name, attr, clause, v)
        fails, _ = check_case(cls_name, attr, v2)
        what2 = next((f[1] for f in fails if f[0] == clause), what)
        ctx.impl_fail(sig, f"{cls_name}.{attr} = {describe(v2)}: {what2}",
                      {"kind": "assignment", "class": cls_name, "attr": attr, "value": v2, "clause": clause})


# ---------------------------------------------------------------------- histories, aliasing, batches
def second_valid(doc, valid):
    """another documented-valid value of the attribute (JSON spec)"""
    kind = doc[0]
    if kind == "scalar":
        return {"k": "num", "v": float(valid) * 2 + 0.25}
    if kind == "orientation":
        return {"k": "rot", "n": None, "kind": "q90z"}
    if kind == "member":
        return {"k": "str", "v": "left"}
    if kind == "func":
        return {"k": "func", "name": "good2"}
    a = np.array(valid, dtype=float)
    if kind == "vec" and doc[2] == "cylseg":
        return {"k": "seq", "data": [0.5, 1.5, 2.0, -30.0, 200.0], "c": "tuple"}
    if kind == "vec":
        return {"k": "seq", "data": (a * 2 + 0.25).tolist(), "c": "ndarray"}
    return {"k": "seq", "data": (a * 1.5 + np.arange(a.shape[-1]) * 0.25).tolist(), "c": "list"}


def bad_value(doc):
    kind = doc[0]
    if kind in ("scalar", "func"):
        return {"k": "str", "v": "abc"}
    if kind == "orientation":
        return seq((3,), "list")
    if kind == "member":
        return {"k": "str", "v": "up"}
    return seq((7,), "list")


def first_valid(cls_name, attr, doc):
    base = get_specs()[cls_name][1]
    if attr == "position":
        return seq((3, 3), "list", off=2)
    if attr == "orientation":
        return {"k": "rot", "n": 3}
    if attr == "magnetization":
        return {"k": "seq", "data": [1e5, 2e5, 5e4], "c": "list"}
    val = base[attr]
    if isinstance(val, str) and val.startswith("@"):
        return {"k": "func", "name": val[1:]}
    if doc[0] == "scalar":
        return {"k": "num", "v": val}
    if doc[0] == "member":
        return {"k": "str", "v": val}
    return {"k": "seq", "data": json.loads(json.dumps(val)), "c": "list"}


def history_case(cls_name, attr):
    """valid -> None -> None -> rejected -> valid' -> rejected -> valid -> valid' on ONE object, reads interleaved; after
    every step: accepted values read back, rejected ones change nothing, and the field equals that of a fresh twin
    constructed with the value.  Returns (clause, what, value spec) or None"""
    _, _, attrs = get_specs()[cls_name]
    doc = attrs[attr]
    v1, v2, bad = first_valid(cls_name, attr, doc), second_valid(doc, None if doc[0] in ("orientation", "member", "func")
                                                                 else build(first_valid(cls_name, attr, doc))), \
        bad_value(doc)
    none = {"k": "none"}
    steps = [v1]
    if doc_valid(doc, none) is True:
        steps += [none, none]
    steps += [bad, v2, bad, v1, v2]
    obj = make_obj(cls_name)
    field_of(obj)
    for i, v in enumerate(steps):
        dv = doc_valid(doc, v)
        before = snap(obj)
        val = build(v)
        try:
            setattr(obj, attr, val)
            outcome = "accepted"
        except Exception as e:      # pylint: disable=broad-except
            outcome = classify(e)
        getattr(obj, attr)          # a read between the writes
        if dv is False:
            if outcome == "accepted":
                return "accepts-undocumented", f"history step {i}: malformed value accepted", v
            if outcome != "lib":
                return "foreign-exception", f"history step {i}: raised {outcome[8:]}", v
            if not same_snap(before, snap(obj)):
                return "rejected-unchanged", f"history step {i}: rejected assignment changed the object", v
            continue
        if outcome != "accepted":
            return "rejects-documented", f"history step {i}: documented value raised {outcome}", v
        p = readback_problem(obj, attr, doc, val, v)
        if p:
            return "read-back", f"history step {i}: {p}", v
        twin = make_obj(cls_name, (attr, build(v)))
        p = twin_field_problem(obj, twin)
        if p:
            return "ctor-setter", f"history step {i}: {p}", v
    return None


def own_array_case(cls_name, attr):
    """an object's own array handed to another object (b.attr = a.attr, Cls(attr=a.attr)): still an independent copy"""
    _, _, attrs = get_specs()[cls_name]
    doc = attrs[attr]
    if doc[0] not in ("vec", "vecpath", "mat", "rows", "grid"):
        return None
    a = make_obj(cls_name)
    if attr == "position":
        a.position = [[1.0, 2.0, 3.0], [2.0, 3.0, 4.0]]
    if attr == "magnetization":
        a.magnetization = [1e5, 2e5, 5e4]
    src = getattr(a, attr)
    if not isinstance(src, np.ndarray):
        return None
    for via in ("setter", "ctor"):
        if via == "setter" and (cls_name, attr) in CTOR_ONLY:
            continue
        if via == "setter":
            b = make_obj(cls_name)
            setattr(b, attr, src)
        else:
            b = make_obj(cls_name, (attr, src))
        ra, rb = stored_raw(a, attr), stored_raw(b, attr)
        if np.shares_memory(ra, rb):
            return "read-back", f"{via}: the array of one object, assigned to another, is shared between them"
        keep = np.array(rb, copy=True)
        ra += 1
        same = np.array_equal(stored_raw(b, attr), keep)
        ra -= 1
        if not same:
            return "read-back", f"{via}: modifying one object's array changes the other object"
    return None


def batch_case(rng):
    """accepted objects in ONE field call: >= 16 sources of all classes interleaved, twins (same geometry, other
    excitation), duplicates, paths of length 1 / 3 / 5, field ratios up to 1e12, two sensors; no internal error and
    every row equals the object's own getB (relative to the row's own scale)"""
    names = [n for n in get_specs() if n not in ("Sensor", "Collection", "Collection2")]
    srcs = []
    for rnd in range(2):
        for i, n in enumerate(names):
            o = make_obj(n)
            if hasattr(o, "polarization") and rnd == 1:
                o.polarization = [1e-6 * (i + 1), -2e6, 0.0] if i % 2 else [0.0, 0.0, -1.0]      # twin, other excitation
            if hasattr(o, "current") and rnd == 1:
                o.current = -1e6 if i % 2 else 0.0
            if n == "Polyline" and rnd == 1:
                o.vertices = [[0, 0, 0], [1, 0, 0], [1, 1, 0], [0, 1, 0], [0, 0, 1.5]]
            m = [1, 3, 5][(i + rnd) % 3]
            if m > 1:
                o.position = [[0.1 * k, 0.2 * i, -0.3 * k] for k in range(m)]
                o.orientation = rot_about("z", [90.0 * k for k in range(m)])
            srcs.append(o)
    srcs.append(srcs[3])                         # duplicate
    rng.shuffle(srcs)
    sens = [magpy.Sensor(position=(0.7, -0.4, 2.3), pixel=[[0, 0, 0], [0.1, 0, 0.2]]),
            magpy.Sensor(position=[(1.5, 1.0, -2.0), (1.0, 1.0, -2.5)], pixel=[[0, 0.1, 0], [0, 0, 0.3]],
                         handedness="left")]
    try:
        big = magpy.getB(srcs, sens)
        singles = [o.getB(sens) for o in srcs]
    except Exception as e:          # pylint: disable=broad-except
        return "computable", f"batch of accepted objects: getB raised {type(e).__name__}: {str(e)[:120]}", "all"
    mmax = big.shape[1]
    for j, (o, one) in enumerate(zip(srcs, singles)):
        one = np.asarray(one)
        if one.ndim == 3:                        # static object: tiled along the path axis
            one = np.broadcast_to(one[None], (mmax,) + one.shape)
        elif one.shape[0] < mmax:                # shorter path: held at its last position
            one = np.concatenate([one, np.repeat(one[-1:], mmax - one.shape[0], axis=0)])
        row = big[j]
        scale = float(np.max(np.abs(one))) if one.size else 0.0
        if row.shape != one.shape or float(np.max(np.abs(row - one))) > 1e-9 * scale + 1e-300:
            return "computable", "batch of accepted objects: a row differs from the object's own getB", \
                type(o).__name__
    return None


# ---------------------------------------------------------------------- None in every calling context
def complete_source():
    return magpy.magnet.Sphere(diameter=1.0, polarization=(0.0, 0.0, 1.0), position=(7, 7, 7))


OBS2 = np.array([(2.5, 3.5, 4.5), (-3.0, 2.0, 5.0)])
NONE_CONTEXTS = {
    "obj.getB": lambda o: o.getB(OBS2),
    "obj.getH": lambda o: o.getH(OBS2),
    "getB([obj])": lambda o: magpy.getB([o], OBS2),
    "getB([complete,obj])": lambda o: magpy.getB([complete_source(), o], OBS2),
    "getH([obj,complete],sumup)": lambda o: magpy.getH([o, complete_source()], OBS2, sumup=True),
    "Sensor.getB(obj)": lambda o: magpy.Sensor(pixel=OBS2).getB(o),
    "Collection(obj).getB": lambda o: magpy.Collection(o).getB(OBS2),
    "Collection(complete,obj).getH": lambda o: magpy.Collection(complete_source(), o).getH(OBS2),
    "getH(Collection(complete,obj))": lambda o: magpy.getH(magpy.Collection(complete_source(), o), OBS2),
    "getB([Collection(obj),complete])": lambda o: magpy.getB([magpy.Collection(o), complete_source()], OBS2),
    "Sensor.getB(Collection(complete,Collection(obj)))":
        lambda o: magpy.Sensor(pixel=OBS2).getB(magpy.Collection(complete_source(), magpy.Collection(o))),
    "Collection(Collection(Collection(obj)),complete).getB":
        lambda o: magpy.Collection(magpy.Collection(magpy.Collection(o)), complete_source()).getB(OBS2),
    "getM(Collection(Collection(obj)))": lambda o: magpy.getM(magpy.Collection(magpy.Collection(o)), OBS2),
    "getB(Collection(obj,sensor),sensor)":
        lambda o: magpy.getB(magpy.Collection(o, magpy.Sensor(position=(0, 0, 3))), magpy.Sensor(pixel=OBS2)),
}


def none_object(cls_name, attr, via):
    """an accepted object that carries the documented None in attr"""
    if via == "ctor":
        return make_obj(cls_name, (attr, None))
    o = make_obj(cls_name)
    o.getB(OBS2)                    # the complete object computes
    setattr(o, attr, None)
    return o


def none_context_case(cls_name, attr, via, ctx_name):
    """returns None or a description of the internal error"""
    try:
        o = none_object(cls_name, attr, via)
    except Exception:               # pylint: disable=broad-except
        return None                 # a rejected None is the business of the assignment clauses
    try:
        out = np.asarray(NONE_CONTEXTS[ctx_name](o), dtype=float)
        if out.shape[-1:] != (3,):
            return f"returned shape {out.shape}"
    except LIB_ERRORS + (ProbeError,):
        return None
    except Exception as e:          # pylint: disable=broad-except
        return f"raised {type(e).__name__}: {str(e)[:100]}"
    return None


def none_contexts(ctx):
    """every source class x every attribute whose documented value may be None x {constructor, setter} x every way of
    handing the object to a field computation (alone, in lists, in collections of depth 1..3, from a Sensor): a
    result or the library's own error, never an internal one"""
    for cls_name, (make, _, attrs) in get_specs().items():
        if cls_name in ("Sensor", "Collection", "Collection2"):
            continue
        for attr, doc in attrs.items():
            if attr in ("position", "orientation") or doc_valid(doc, {"k": "none"}) is not True:
                continue
            for via in ("ctor", "setter"):
                if via == "setter" and (cls_name, attr) in CTOR_ONLY:
                    continue
                for cname in NONE_CONTEXTS:
                    p = none_context_case(cls_name, attr, via, cname)
                    ctx.case(("none-context", cls_name, attr, via, cname), True)
                    ctx.bump("search:none-context")
                    if p:
                        depth = cname.count("Collection(")
                        cat = "nested-collection" if depth >= 2 else "collection" if depth == 1 else \
                            "list" if "[" in cname else "direct"
                        ctx.impl_fail(f"computable/{owner_of(make, attr)}.{attr}:None@{cat}",
                                      f"{cls_name}.{attr} = None ({via}), then {cname}: {p}",
                                      {"kind": "none-context", "class": cls_name, "attr": attr, "via": via,
                                       "context": cname, "clause": "computable"})


def describe(v):
    s = shape_of(v)
    if s is not None:
        return f"{v.get('c', 'ndarray')} of shape {s}"
    return json.dumps(v)[:80]


# ====================================================================== correspondence with the Coq model
CASES_HEADER = """From Coq Require Import ZArith QArith List Bool String.
From MV Require Import Model.InputTypes Gen.GenShape Gen.GenTables Model.InputModel.
Import ListNotations. Open Scope string_scope. Open Scope Z_scope.
"""


def cq(x):
    num, den = float(x).as_integer_ratio()
    return f"({num} # {den})" if num >= 0 else f"(({num}) # {den})"


def cshape(s):
    return clist([str(int(d)) for d in s])


def c_vinput(val):
    if val is None:
        return "INone"
    if not isinstance(val, (list, tuple, np.ndarray)):
        return "INotArrayLike"
    try:
        a = np.array(val, dtype=float)
    except Exception:              # pylint: disable=broad-except
        return "INotFloatable"
    if not np.all(np.isfinite(a)):
        raise ValueError("grammar produced a non-finite array")
    return f"(IArray {cshape(a.shape)} {clist([cq(x) for x in a.ravel().tolist()])})"


def c_vout(outcome, raw):
    if outcome == "lib":
        return "Rejected"
    if outcome != "accepted":
        return "Crashed"
    if raw is None:
        return "(Stored None)"
    a = np.asarray(raw, dtype=float)
    return f"(Stored (Some ({cshape(a.shape)}, {clist([cq(x) for x in a.ravel().tolist()])})))"


def c_sinput(val):
    if val is None:
        return "SNone"
    if isinstance(val, numbers.Number):
        try:
            return f"(SReal {cq(float(val))})"
        except Exception:          # pylint: disable=broad-except
            return "SComplex"
    return "SNotNumber"


def c_sout(outcome, raw):
    if outcome == "lib":
        return "SRejected"
    if outcome != "accepted":
        return "SCrashed"
    return "(SStored None)" if raw is None else f"(SStored (Some {cq(raw)}))"


def c_minput(val):
    if isinstance(val, str):
        if not val.isalnum() and val != "":
            raise ValueError("string outside the modelled alphabet")
        return f'(MStr "{val}")'
    if isinstance(val, (set, frozenset)):
        return "MHashable"         # `x in {..}` retries an unhashable set as a frozenset: no TypeError
    try:
        hash(val)
    except TypeError:
        return "MUnhashable"
    return "MHashable"


def c_oinput(val):
    if val is None:
        return "ONone"
    if isinstance(val, R):
        return f"(ORot {'true' if val.single else 'false'} {1 if val.single else len(val)})"
    return "ONotRotation"


def c_oout(outcome, obj):
    if outcome == "lib":
        return "ORejected"
    if outcome != "accepted":
        return "OCrashed"
    return f"(OStored {len(np.reshape(obj._orientation.as_quat(), (-1, 4)))})"


def c_finput(val):
    """what validate_field_func can observe of the value (the probe is the translated one: 2 observers, B and H)"""
    import inspect         # pylint: disable=import-outside-toplevel
    if val is None:
        return "FNone"
    if not callable(val):
        return "FNotCallable"
    ok = inspect.getfullargspec(val).args[:2] == ["field", "observers"]
    outs = []
    if ok:
        for field in ("B", "H"):
            try:
                o = val(field, np.array([[1, 2, 3], [4, 5, 6]]))
            except Exception:      # pylint: disable=broad-except
                outs.append("FoRaises")
                continue
            outs.append("FoNone" if o is None else f"(FoArray {cshape(o.shape)})" if isinstance(o, np.ndarray)
                        else "FoNotArray")
    return f"(FCallable {'true' if ok else 'false'} {clist(outs)})"


def c_res(outcome):
    return "Ok" if outcome == "accepted" else ("Bad" if outcome == "lib" else "Crash")


def model_rows():
    """(class, attr, via) -> (Coq class, Coq attr) of the translated setter table"""
    rows = []
    for cls_name, (make, _, attrs) in get_specs().items():
        for attr, doc in attrs.items():
            own = owner_of(make, attr)
            if doc[0] == "func":
                rows.append((cls_name, attr, "setter", own, attr))
                continue
            if doc[0] == "orientation":
                rows.append((cls_name, attr, "setter", own, attr))
                rows.append((cls_name, attr, "ctor", own, "orientation@init"))
                continue
            if (cls_name, attr) in CTOR_ONLY:
                rows.append((cls_name, attr, "ctor", cls_name, attr + "@init"))
            else:
                rows.append((cls_name, attr, "setter", own, attr))
                if attr == "position":
                    rows.append((cls_name, attr, "ctor", own, "position@init"))
    return rows


def robust_eval(ctx, name, txt):
    """Gen/GenTables.v is shared with the checks of C07 and C20: when one of them regenerates and rebuilds it between
    our build and this evaluation, coqc reports `inconsistent assumptions`; regenerate + rebuild and try again"""
    from harness.common import COQ, Lock, sh     # pylint: disable=import-outside-toplevel
    for _ in range(3):
        ok, out = ctx.coq_eval(name, txt)
        if ok or "inconsistent assumptions" not in out:
            return ok, out
        ctx.bump("corr:rebuild-after-concurrent-regen")
        if not ctx.regen(["GenShape", "GenTables"]):
            return ok, out
        with Lock():
            sh("make -j8 Props/C17.vo", 900, cwd=COQ)
    return ok, out


def correspondence(ctx, built):
    rng = ctx.rng
    shared = battery_types() + battery_shapes(rng, ctx.n(10, 400))
    seen_rows = set()
    cases, meta = [], []
    for cls_name, attr, via, ccls, cattr in model_rows():
        # one concrete class per translated row is enough for inherited setters in the quick tier
        key = (ccls, cattr)
        if ctx.tier == "quick" and key in seen_rows and cls_name not in ("Cuboid", "Sensor", "Circle"):
            continue
        seen_rows.add(key)
        doc = get_specs()[cls_name][2][attr]
        for v in values_for(ctx, cls_name, attr, rng, shared):
            outcome, obj, det = assign(cls_name, attr, v, via)
            val = build(v)
            raw = stored_raw(obj, attr) if outcome == "accepted" else None
            if v.get("why") == "None-entry":
                # numpy converts a None entry to nan: not expressible in the rational model
                ctx.bump("corr:skipped-nan")
                continue
            if cls_name == "TriangularMesh" and (outcome.startswith("foreign") or "indices do not match" in
                                                 det.get("msg", "")):
                # consistency of faces with vertices / mesh checks happen after the validators: not modelled
                ctx.bump("corr:skipped-mesh-consistency")
                continue
            if doc[0] == "orientation":
                term = f'XOri "{ccls}" "{cattr}" {c_oinput(val)} {c_oout(outcome, obj)}'
            elif doc[0] == "func":
                term = f'XFun "{cls_name}" "{ccls}" "{cattr}" {c_finput(val)} {c_res(outcome)}'
            elif doc[0] == "scalar":
                term = f'XSca "{ccls}" "{cattr}" {c_sinput(val)} {c_sout(outcome, raw)}'
            elif doc[0] == "member":
                term = f'XMem "{ccls}" "{cattr}" {c_minput(val)} {c_res(outcome)}'
            else:
                if attr == "faces" and raw is not None:
                    raw = np.asarray(raw, dtype=float)
                term = f'XVec "{ccls}" "{cattr}" {c_vinput(val)} {c_vout(outcome, raw)}'
            cases.append("(" + term + ")")
            meta.append((cls_name, attr, via, v, outcome, doc))
            ctx.case(("corr", cls_name, attr, via, json.dumps(v, sort_keys=True)), True)
            ctx.bump("corr:" + ("accepted" if outcome == "accepted" else "rejected" if outcome == "lib" else "crashed"))
    if cases:
        mid = len(cases) // 2
        ctx.samples.append({"class": meta[mid][0], "attr": meta[mid][1], "via": meta[mid][2], "value": meta[mid][3],
                            "implementation": meta[mid][4], "coq_case": cases[mid][:300]})
    if not built:
        return
    chunk = 1500
    for ci in range(0, len(cases), chunk):
        part = cases[ci:ci + chunk]
        txt = (CASES_HEADER + "Definition cases : list xcase :=\n" + clist(part).replace("; (X", ";\n (X")
               + ".\nEval vm_compute in (failing cases).\nEval vm_compute in (map doc_verdict cases).\n")
        ok, out = robust_eval(ctx, f"c17_{ctx.tier}_{ci}", txt)
        blocks = out.split("     = ")
        bad = parse_z_list("= " + blocks[1]) if ok and len(blocks) >= 3 else None
        verd = parse_z_list("= " + blocks[2]) if ok and len(blocks) >= 3 else None
        if bad is None or verd is None or len(verd) != len(part):
            ctx.add_broken("broken-correspondence", f"c17_{ctx.tier}_{ci}", "model evaluation failed:\n" + out[-1500:])
            return
        ctx.count("traces_validated_against_impl", len(part) - len(bad))
        for bi in bad[:4]:
            m = meta[ci + bi]
            ctx.add_broken("broken-correspondence", "InputModel vs implementation",
                           json.dumps({"class": m[0], "attr": m[1], "via": m[2], "value": m[3],
                                       "implementation": m[4], "coq_case": part[bi][:400]}))
        # the documented-format predicate of this harness (used by the search) == the Coq doc table
        nd = 0
        for i, z in enumerate(verd):
            m = meta[ci + i]
            dv = doc_valid(m[5], m[3])
            if z == 2 or dv is None:
                continue
            # the Coq table's value constraints are the exact regions (boundaries decided); compare where both decide
            if (z == 1) != dv:
                nd += 1
                if nd <= 3:
                    ctx.add_broken("broken-correspondence", "documented-format table (harness vs Coq doc_table)",
                                   json.dumps({"class": m[0], "attr": m[1], "value": m[3], "coq": z, "harness": dv}))
            else:
                ctx.bump("doc-table-agree")


# ====================================================================== main
def run(ctx):
    ctx.extra["rule"] = ("one case = (class, attribute, value spec, route); values from a grammar of None, python/numpy "
                         "scalars, bool, complex, strings, dict/set/object/callable/Rotation, ragged and non-numeric "
                         "sequences, every shape of rank 0..2 with extents 0..6, sampled shapes of rank 3..21, "
                         "list/tuple/ndarray containers, int/float32 dtypes, and mutated copies of a valid value; "
                         "distinct by canonical JSON; all are non-trivial (each reaches a validator)")
    ctx.trusted += [
        "translators translate/gen_shape.py (check_array_shape, check_format_input_vector/_scalar/_vertices/"
        "_cylinder_segment -> Gallina, structure-matched, fail closed) and translate/gen_tables.py (literal validator "
        "keywords per setter)",
        "hand-written: the setter dispatch in coq/Model/InputModel.v (tied by the correspondence on real setters) and "
        "the documented-format table transcribed from the class docstrings (a reading of the documentation)",
        "numpy's np.array(.., dtype=float) conversion, np.reshape, Rotation and validate_field_func are not modelled: "
        "the abstraction of a python value into (array-like?, float-convertible?, shape, entries) uses numpy itself",
    ]
    ok = ctx.regen(["GenShape", "GenTables"])
    built = ctx.build_props() and ok
    if ctx.tier == "thorough" and built:
        ctx.coqchk("MV.Props.C17")
    ctx.refuted += [t for t in ctx.theorems if t.endswith("_refuted")]
    ctx.partial += [t for t in ctx.theorems if t.endswith("_partial")]
    run_guarded(ctx, lambda: correspondence(ctx, built), "C17 correspondence")
    big = bool(ctx.broken)
    run_guarded(ctx, lambda: sweep(ctx, big), "C17 oracle sweep")


def replay(ctx, obj):
    rp = obj.get("replay", obj)
    if rp.get("kind") == "none-context":
        p = none_context_case(rp["class"], rp["attr"], rp["via"], rp["context"])
        if p:
            print(f"replay: FAILS [computable] {rp['class']}.{rp['attr']} = None ({rp['via']}), {rp['context']}: {p}")
            print(f"VIOLATION property=C17 replay={obj.get('how_to_rerun', '').split()[-1] or 'given'}")
            return 1
        print("replay: property holds on this input")
        return 0
    if rp.get("kind") in ("history", "own-array", "batch"):
        import random      # pylint: disable=import-outside-toplevel
        r = history_case(rp["class"], rp["attr"]) if rp["kind"] == "history" else \
            own_array_case(rp["class"], rp["attr"]) if rp["kind"] == "own-array" else \
            next((x for x in (batch_case(random.Random(i)) for i in range(20)) if x), None)
        if r is not None:
            print(f"replay: FAILS [{r[0]}] {r[1]}")
            print(f"VIOLATION property=C17 replay={obj.get('how_to_rerun', '').split()[-1] or 'given'}")
            return 1
        print("replay: property holds on this input")
        return 0
    if rp.get("kind") != "assignment":
        print(json.dumps(obj, indent=1)[:3000])
        return 0
    fails, res = check_case(rp["class"], rp["attr"], rp["value"])
    for via, (o, _, det) in res.items():
        print(f"replay: {rp['class']}.{rp['attr']} via {via}: {o} {det.get('msg', '')}")
    hit = [f for f in fails if f[0] == rp.get("clause")] or fails
    if hit:
        for c, w in [(f[0], f[1]) for f in hit]:
            print(f"replay: FAILS [{c}] {w}")
        print(f"VIOLATION property=C17 replay={obj.get('how_to_rerun', '').split()[-1] or 'given'}")
        return 1
    print("replay: property holds on this input")
    return 0
