"""C11 -- the collection tree stays a consistent forest under any history (incl. calls that raise).

stage 2  Props/C11.v : C11_forest_invariant - the invariant holds after every prefix of every history
         (rejected calls included) for the semantics the code has now (`repaired` variant of the
         model), by induction; *_all views; `_refuted` theorems with vm_compute witnesses for the
         three older variants (record of the repaired defects).
stage 3  correspondence: random histories through the public API; after every operation the
         outcome and the full observable state (parent, children, sources, sensors, collections,
         *_all by creation index) are compared with the Coq model (vm_compute).  Which model
         variant (5.1.1 add / atomic add, stale / refreshed setters) describes the code is
         decided by two probes on the implementation and recorded in the evidence.
stage 4  search: the invariant itself evaluated on the real objects after every operation of
         every history (shrunk, signature = <clause>/<mechanism>:<exit>).
"""
import json

import magpylib as magpy
from magpylib._src.exceptions import MagpylibBadUserInput
from magpylib._src.obj_classes.class_BaseExcitations import BaseSource

from harness.common import run_guarded
from harness.shrink import shrink_list

UNKNOWN = 99999          # id reported for an object the registry does not know
JUNK_VALUES = [1, -3, 2.5]


# ------------------------------------------------------------------ the world of real objects
def make_source(i):
    k = i % 5
    if k == 0:
        return magpy.magnet.Sphere(diameter=1, polarization=(0, 0, 1))
    if k == 1:
        return magpy.magnet.Cuboid(dimension=(1, 1, 1), polarization=(0, 0, 1))
    if k == 2:
        return magpy.current.Circle(diameter=1, current=1)
    if k == 3:
        return magpy.misc.Dipole(moment=(0, 0, 1))
    return magpy.misc.CustomSource()


class Skip(Exception):
    """the operation refers to ids that do not exist (only while shrinking)"""


class World:
    def __init__(self):
        self.objs = []      # python value by id
        self.kinds = []     # "source" | "sensor" | "coll" | "junk"
        self.ids = {}       # id(obj) -> index

    def reg(self, obj, kind):
        self.objs.append(obj)
        self.kinds.append(kind)
        if kind != "junk":
            self.ids[id(obj)] = len(self.objs) - 1
        return len(self.objs) - 1

    def idx(self, obj):
        return None if obj is None else self.ids.get(id(obj), UNKNOWN)

    def get(self, i, kinds=None):
        if not (isinstance(i, int) and 0 <= i < len(self.objs)):
            raise Skip()
        if kinds is not None and self.kinds[i] not in kinds:
            raise Skip()
        return self.objs[i]

    def many(self, ids):
        return [self.get(i) for i in ids]

    def arg(self, op):
        """the multi-object argument in the form the operation asks for: 'varargs' (default) |
        'list' | 'tuple' | 'alias' (the LIVE child list / typed list of collection op['src'], whose
        members are op['objs'] at this point) | 'bare' (the single object itself, no container)"""
        form = op.get("form", "varargs")
        objs = self.many(op["objs"]) if op.get("objs") is not None else None
        if form == "alias":
            live = getattr(self.get(op["src"], ("coll",)), op.get("attr", "children"))
            if op.get("objs") is None:      # directed histories: whatever the list holds now
                op["objs"] = [self.idx(o) for o in live]
            if [self.idx(o) for o in live] != list(op["objs"]):
                raise Skip()            # only while shrinking: the aliased list changed
            return live
        if form == "bare":
            if len(objs) != 1:
                raise Skip()
            return objs[0]
        if form == "tuple":
            return tuple(objs)
        return objs

    # ---- one operation through the public API; returns "Ok" | "ErrBad" | "ErrOther"
    def apply(self, op):
        k = op["op"]
        try:
            if k == "new":
                kind = op["k"]
                n = len(self.objs)
                if kind == "source":
                    self.reg(make_source(n), kind)
                elif kind == "sensor":
                    self.reg(magpy.Sensor(), kind)
                elif kind == "coll":
                    self.reg(magpy.Collection(), kind)
                else:
                    self.reg(JUNK_VALUES[n % len(JUNK_VALUES)], "junk")
            elif k == "add":
                c = self.get(op["c"])
                if self.kinds[op["c"]] == "junk":
                    raise Skip()
                a = self.arg(op)
                if op.get("form", "varargs") == "varargs":
                    c.add(*a, override_parent=op["ov"])
                else:
                    c.add(a, override_parent=op["ov"])
            elif k == "remove":
                c = self.get(op["c"])
                if self.kinds[op["c"]] == "junk":
                    raise Skip()
                err = {"raise": "raise", "ignore": "ignore", "bad": "sometimes"}[op["err"]]
                a = self.arg(op)
                if op.get("form", "varargs") == "varargs":
                    c.remove(*a, recursive=op["rec"], errors=err)
                else:
                    c.remove(a, recursive=op["rec"], errors=err)
            elif k == "parent":
                x = self.get(op["x"], ("source", "sensor", "coll"))
                x.parent = None if op["p"] is None else self.get(op["p"])
            elif k == "children":
                c = self.get(op["c"], ("coll",))      # attribute assignment only on collections
                c.children = self.arg(op)
            elif k == "typed":
                c = self.get(op["c"], ("coll",))
                setattr(c, {"source": "sources", "sensor": "sensors", "coll": "collections"}[op["k"]],
                        self.arg(op))
            elif k == "ctor":
                # Collection(*objs) == __new__ + __init__ ; split so that the object is known to the
                # registry even when __init__ raises after having become somebody's parent
                c = magpy.Collection.__new__(magpy.Collection)
                self.reg(c, "coll")
                a = self.arg(op)
                if op.get("form", "varargs") == "varargs":
                    c.__init__(*a, override_parent=op["ov"])
                else:
                    c.__init__(a, override_parent=op["ov"])
            elif k == "plus":
                a, b = self.get(op["a"]), self.get(op["b"])
                if self.kinds[op["a"]] == "junk":
                    if self.kinds[op["b"]] == "junk":
                        raise Skip()
                    a + b          # TypeError, nothing is created
                else:
                    try:
                        self.reg(a + b, "coll")
                    except Exception:
                        # the half-built collection may already be somebody's parent
                        found = None
                        for o, kd in zip(list(self.objs), self.kinds):
                            if kd != "junk" and o.parent is not None and id(o.parent) not in self.ids:
                                found = o.parent
                        self.reg(found if found is not None else magpy.Collection(), "coll")
                        raise
            elif k == "copy":
                x = self.get(op["x"], ("source", "sensor", "coll"))
                new = x.copy()
                self.reg_copy(op["x"], new)
            elif k == "copyp":          # search only: copy(parent=coll) = copy, then parent assignment
                x = self.get(op["x"], ("source", "sensor", "coll"))
                try:
                    new = x.copy(parent=self.get(op["p"]))
                except Exception:
                    # the clone exists even when the parent assignment was rejected, but is unreachable
                    for _ in range(len(self.objs)):
                        self.reg(0, "junk")
                    raise
                self.reg_copy(op["x"], new)
            else:
                raise ValueError(k)
        except MagpylibBadUserInput:
            return "ErrBad"
        except Skip:
            raise
        except Exception:        # pylint: disable=broad-except
            return "ErrOther"
        return "Ok"

    def reg_copy(self, xi, new):
        """the clone of object o gets id n + o (n = number of objects before the copy); the other
        ids of the block are dead placeholders"""
        n = len(self.objs)
        pairs = {}

        def walk(o, c):
            if type(o) is not type(c):
                raise RuntimeError("copy has a different class than the original")
            pairs[self.idx(o)] = c
            if isinstance(o, magpy.Collection):
                if len(o.children) != len(c.children):
                    raise RuntimeError("copy has a different number of children")
                for oc, cc in zip(o.children, c.children):
                    walk(oc, cc)
        walk(self.objs[xi], new)
        for i in range(n):
            if i in pairs:
                self.reg(pairs[i], self.kinds[i])
            else:
                self.reg(0, "junk")

    # ---- everything the public API shows, by creation index
    def observe(self):
        out = []
        for o, kd in zip(self.objs, self.kinds):
            if kd == "junk":
                out.append([None] + [[] for _ in range(8)])
                continue
            row = [self.idx(o.parent)]
            if kd == "coll":
                for attr in ("children", "sources", "sensors", "collections",
                             "children_all", "sources_all", "sensors_all", "collections_all"):
                    try:
                        row.append([self.idx(x) for x in getattr(o, attr)])
                    except RecursionError:      # a cyclic tree: the flattening does not terminate
                        row.append([UNKNOWN])
            else:
                row += [[] for _ in range(8)]
            out.append(row)
        return out


# ------------------------------------------------------------------ the property itself, on real objects
def check_invariant(world):
    """None or (clause, culprit id, text).  Evaluated on the real objects only (no model)."""
    objs = [(i, o) for i, (o, kd) in enumerate(zip(world.objs, world.kinds)) if kd != "junk"]
    # objects that are reachable but unknown (e.g. a half-built collection) are included
    seen = {id(o) for _, o in objs}
    extra, todo = [], [o for _, o in objs]
    while todo:
        o = todo.pop()
        nxt = [o.parent] + (list(o.children) if isinstance(o, magpy.Collection) else [])
        for x in nxt:
            if x is not None and id(x) not in seen and hasattr(x, "parent"):
                seen.add(id(x))
                extra.append((UNKNOWN, x))
                todo.append(x)
    allo = objs + extra
    colls = [(i, o) for i, o in allo if isinstance(o, magpy.Collection)]
    # 1 at most one parent: listed by at most one collection, at most once
    for i, o in allo:
        n = sum(sum(1 for ch in c.children if ch is o) for _, c in colls)
        if n > 1:
            return "one_parent", i, f"object {i} is listed {n} times as a child"
    # 2 an object's parent lists it exactly once
    for i, o in allo:
        p = o.parent
        if p is not None:
            if not isinstance(p, magpy.Collection):
                return "parent_lists_child", i, f"parent of object {i} is not a Collection"
            n = sum(1 for ch in p.children if ch is o)
            if n != 1:
                return "parent_lists_child", i, (f"object {i} has parent {world.idx(p)} which lists it "
                                                 f"{n} times")
    # 3 and vice versa
    for ci, c in colls:
        for ch in c.children:
            if getattr(ch, "parent", None) is not c:
                return "child_points_back", world.idx(ch), (f"collection {ci} lists object {world.idx(ch)} "
                                                           f"whose parent is {world.idx(getattr(ch, 'parent', None))}")
    # 4 no collection contains itself
    for ci, c in colls:
        stack, visited = list(c.children), set()
        while stack:
            x = stack.pop()
            if x is c:
                return "acyclic", ci, f"collection {ci} contains itself"
            if id(x) in visited:
                continue
            visited.add(id(x))
            if isinstance(x, magpy.Collection):
                stack += list(x.children)
    # 5 derived views are the ordered typed partitions / flattenings of children
    def flatten(c):
        out = []
        for ch in c.children:
            out.append(ch)
            if isinstance(ch, magpy.Collection):
                out += flatten(ch)
        return out
    tests = {"sources": lambda x: isinstance(x, BaseSource), "sensors": lambda x: isinstance(x, magpy.Sensor),
             "collections": lambda x: isinstance(x, magpy.Collection)}
    for ci, c in colls:
        fl = flatten(c)
        for name, t in tests.items():
            if [id(x) for x in getattr(c, name)] != [id(x) for x in c.children if t(x)]:
                return "views", ci, f"collection {ci}: .{name} is not the typed filter of .children"
            if [id(x) for x in getattr(c, name + "_all")] != [id(x) for x in fl if t(x)]:
                return "views", ci, f"collection {ci}: .{name}_all is not the flattening of the subtree"
        if [id(x) for x in c.children_all] != [id(x) for x in fl]:
            return "views", ci, f"collection {ci}: .children_all is not the flattening of the subtree"
        if sorted(id(x) for x in c.children) != sorted(id(x) for n in tests for x in getattr(c, n)):
            return "views", ci, f"collection {ci}: typed lists do not partition .children"
        # the other read-only views of the tree: iteration, len, indexing, describe()
        if [id(x) for x in c] != [id(x) for x in c.children] or len(c) != len(c.children) or \
                any(c[k] is not ch for k, ch in enumerate(c.children)):
            return "views", ci, f"collection {ci}: iter/len/getitem disagree with .children"
        import re as _re
        txt = c.describe(format="id", max_elems=10 ** 6, return_string=True)
        ids = [int(m) for m in _re.findall(r"id=(\d+)", txt)]
        if ids != [id(c)] + [id(x) for x in fl]:
            return "views", ci, f"collection {ci}: describe() is not the pre-order listing of the subtree"
    return None


MECH = {"add": "add", "ctor": "add", "plus": "add", "children": "setter", "typed": "setter",
        "remove": "remove", "copy": "copy", "new": "new"}


def signature(op, outcome, clause, before, after):
    """<clause>/<mechanism>:<exit> from the last operation of the shrunk history.
    mechanism: the BaseCollection method whose effects are exposed (add also for the constructor,
    `+`, `parent = coll`, and for structural damage left by the add that a list setter ends with);
    exit: ok | rejects (raised, no object changed its parent) | rejects-after-first (raised after
    some object's parent had been changed) | rejects-after-detach (setter raised after the old
    children had been detached)"""
    mech = MECH.get(op["op"], op["op"])
    if op["op"] == "parent":
        mech = "remove" if op["p"] is None else "add"
    if outcome == "Ok":
        return f"{clause}/{mech}:ok"
    n = min(len(before), len(after))
    changed = any(before[i] != after[i] for i in range(n)) or \
        any(r[0] is not None or r[1] for r in after[n:])
    if mech == "setter":
        if clause == "views":
            return f"{clause}/setter:rejects-after-detach"
        mech = "add"          # structural damage comes from the add loop the setter ends with
        gained = any(after[i][0] is not None and
                     (before[i][0] != after[i][0] or i not in (after[after[i][0]][1] if after[i][0] < len(after) else []))
                     for i in range(n))
        return f"{clause}/{mech}:{'rejects-after-first' if gained else 'rejects'}"
    return f"{clause}/{mech}:{'rejects-after-first' if changed else 'rejects'}"


# ------------------------------------------------------------------ random histories
def pick(rng, pool, k, dup=0.08):
    if not pool:
        return []
    out = []
    for _ in range(k):
        x = rng.choice(pool)
        if x in out and rng.random() > dup:
            cand = [y for y in pool if y not in out]
            if not cand:
                break
            x = rng.choice(cand)
        out.append(x)
    return out


def gen_op(rng, w, profile, inv_ok, search=False):
    kinds = w.kinds
    n = len(kinds)
    live = [i for i in range(n) if kinds[i] != "junk"]
    colls = [i for i in range(n) if kinds[i] == "coll"]
    junk = [i for i in range(n) if kinds[i] == "junk"]
    noncoll = [i for i in live if kinds[i] != "coll"]
    mal = profile == "malformed"
    if not colls or not live:
        return {"op": "new", "k": rng.choice(["source", "sensor", "coll"])}

    def args(maxk=3):
        k = rng.choice([0, 1, 1, 2, 2, 3][:maxk + 3])
        pool = live
        x = rng.random()
        if x < 0.35:
            free = [i for i in live if w.objs[i].parent is None]
            pool = free or live
        out = pick(rng, pool, k, dup=0.3 if mal else 0.06)
        if junk and rng.random() < (0.35 if mal else 0.04):
            out.insert(rng.randint(0, len(out)), rng.choice(junk))
        return out

    def form(op, typed=False):
        """vary HOW the argument is passed (same model operation): list / tuple / the live list of
        another collection (aliasing) / the bare object"""
        y = rng.random()
        if y < 0.55:
            return op
        if y < 0.70:
            op["form"] = "list" if not typed else "tuple"
        elif y < 0.80:
            op["form"] = "tuple"
        elif y < 0.93:
            src = rng.choice(colls)
            attr = rng.choice(["children", "children", "sources", "sensors", "collections"])
            live = [w.idx(o) for o in getattr(w.objs[src], attr)]
            if UNKNOWN not in live and (live or op["op"] != "plus"):
                op.update(form="alias", src=src, attr=attr, objs=live)
        elif typed and len(op["objs"]) >= 1:
            op.update(form="bare", objs=op["objs"][:1])
        return op

    x = rng.random()
    if x < 0.27:
        big = profile == "big" and rng.random() < 0.5
        return form({"op": "add", "c": rng.choice(colls), "objs": pick(rng, live, rng.randint(8, 18)) if big else args(),
                     "ov": rng.random() < 0.45})
    if x < 0.40:
        c = rng.choice(colls)
        sub = [w.idx(o) for o in w.objs[c].children_all] if inv_ok else []
        sub = [i for i in sub if i != UNKNOWN]
        objs = pick(rng, sub, rng.choice([1, 1, 2])) if sub and rng.random() < 0.7 else args()
        return form({"op": "remove", "c": c, "objs": objs, "rec": rng.random() < 0.7,
                     "err": rng.choice(["raise", "raise", "ignore", "bad"] if mal else ["raise", "raise", "raise", "ignore"])})
    if x < 0.52:
        p = rng.random()
        tgt = None if p < 0.35 else rng.choice(colls) if p < 0.9 or not mal else rng.choice(live + junk)
        return {"op": "parent", "x": rng.choice(live), "p": tgt}
    if x < 0.60:
        op = form({"op": "children", "c": rng.choice(colls), "objs": args()}, typed=True)
        if op.get("form") == "bare":
            op.pop("form")          # `coll.children = <one object>` is a TypeError after detaching: not modelled
        return op
    if x < 0.71:
        return form({"op": "typed", "k": rng.choice(["source", "sensor", "coll"]), "c": rng.choice(colls), "objs": args()},
                    typed=True)
    if x < 0.78:
        a = rng.choice(live + (junk if mal else []))
        return {"op": "plus", "a": a, "b": rng.choice(live + (junk if mal and a in live else []))}
    if x < 0.86:
        return form({"op": "ctor", "objs": args(), "ov": rng.random() < 0.4})
    if x < 0.91 and inv_ok and n <= 12:
        if search and rng.random() < 0.4:
            return {"op": "copyp", "x": rng.choice(live), "p": rng.choice(colls + (junk if mal else []))}
        return {"op": "copy", "x": rng.choice(live)}
    if x < 0.95:
        return {"op": "new", "k": rng.choice(["source", "sensor", "coll", "junk"])}
    if mal and noncoll:
        # method of a collection called on something that is not one
        return {"op": rng.choice(["add", "remove"]), "c": rng.choice(noncoll), "objs": args(), "ov": False,
                "rec": True, "err": "raise"}
    return {"op": "add", "c": rng.choice(colls), "objs": args(), "ov": True}


def run_history(ops, tolerant=False):
    """execute a fixed history; returns (executed ops, trace, first violation or None)
    trace[i] = (outcome, observation after op i); violation = (op index, clause, culprit, text)"""
    w = World()
    done, trace, viol = [], [], None
    for op in ops:
        try:
            out = w.apply(op)
        except Skip:
            if tolerant:
                continue
            raise
        done.append(op)
        trace.append((out, w.observe()))
        if viol is None:
            v = check_invariant(w)
            if v is not None:
                viol = (len(done) - 1,) + v
                if tolerant:
                    break
    return done, trace, viol


def random_history(rng, profile, search=False):
    """profiles: valid | malformed | big (16-22 objects, argument lists of 8-18 objects) |
    deep (starts from a chain of 3-5 nested collections with leaves at every level)"""
    w = World()
    ops, trace, viol = [], [], None
    n0 = rng.randint(16, 22) if profile == "big" else rng.randint(3, 8)
    kinds0 = [rng.choice(["source", "sensor", "coll", "coll", "source", "sensor", "coll", "junk"]) for _ in range(n0)]
    if "coll" not in kinds0:
        kinds0[rng.randrange(n0)] = "coll"
    plan = [{"op": "new", "k": k} for k in kinds0]
    if profile == "deep":
        depth = rng.randint(3, 5)
        kinds0 = ["coll"] * depth + [rng.choice(["source", "sensor"]) for _ in range(depth)] + \
            [rng.choice(["source", "sensor", "coll"]) for _ in range(rng.randint(0, 3))]
        plan = [{"op": "new", "k": k} for k in kinds0]
        for d in range(depth):          # collection d holds leaf depth+d and collection d+1
            plan.append({"op": "add", "c": d, "objs": [depth + d] + ([d + 1] if d + 1 < depth else []),
                         "ov": False})
    n0 = len(plan)
    nops = rng.randint(3, 12)
    inv_ok = True
    for t in range(n0 + nops):
        op = plan[t] if t < n0 else gen_op(rng, w, profile, inv_ok, search)
        out = w.apply(op)
        ops.append(op)
        trace.append((out, w.observe()))
        if inv_ok:
            v = check_invariant(w)
            if v is not None:
                inv_ok = False
                viol = (len(ops) - 1,) + v
    return ops, trace, viol


def report_violation(ctx, ops, viol):
    """shrink the history, compute the signature from the shrunk one, report"""
    clause0 = viol[1]

    def fails(cand):
        try:
            _, _, v = run_history(cand, tolerant=True)
        except Exception:      # pylint: disable=broad-except
            return False
        return v is not None and v[1] == clause0
    small = shrink_list(ops[:viol[0] + 1], fails, max_steps=150)
    done, trace, v = run_history(small, tolerant=True)
    if v is None:             # should not happen; fall back to the unshrunk history
        done, trace, v = run_history(ops[:viol[0] + 1])
    k = v[0]
    before = trace[k - 1][1] if k > 0 else []
    sig = signature(done[k], trace[k][0], v[1], before, trace[k][1])
    ctx.impl_fail(sig, f"after {fmt_op(done[k])} -> {trace[k][0]}: {v[3]} (history of {k + 1} operations)",
                  {"kind": "history", "ops": done[:k + 1], "clause": v[1]})
    return sig


def fmt_op(op):
    o = dict(op)
    k = o.pop("op")
    return k + "(" + ", ".join(f"{a}={b}" for a, b in o.items()) + ")"


# ------------------------------------------------------------------ the model side (Coq text)
KIND = {"source": "KSource", "sensor": "KSensor", "coll": "KColl", "junk": "KJunk"}
ERR = {"raise": "ERaise", "ignore": "EIgnore", "bad": "EBadValue"}


def cl(ids):
    return "[" + "; ".join(str(int(i)) for i in ids) + "]"


def cb(b):
    return "true" if b else "false"


def co(x):
    return "None" if x is None else f"(Some {int(x)})"


def c_op(op):
    k = op["op"]
    if k == "new":
        return f"(NewObj {KIND[op['k']]})"
    if k == "add":
        return f"(Add {op['c']} {cl(op['objs'])} {cb(op['ov'])})"
    if k == "remove":
        return f"(Remove {op['c']} {cl(op['objs'])} {cb(op['rec'])} {ERR[op['err']]})"
    if k == "parent":
        return f"(SetParent {op['x']} {co(op['p'])})"
    if k == "children":
        return f"(SetChildren {op['c']} {cl(op['objs'])})"
    if k == "typed":
        return f"(SetTyped {KIND[op['k']]} {op['c']} {cl(op['objs'])})"
    if k == "plus":
        return f"(Plus {op['a']} {op['b']})"
    if k == "ctor":
        return f"(Ctor {cl(op['objs'])} {cb(op['ov'])})"
    if k == "copy":
        return f"(Copy {op['x']})"
    raise ValueError(k)


def c_obs(row):
    return "(mkObs " + co(row[0]) + " " + " ".join(cl(x) for x in row[1:]) + ")"


def c_case(variant, ops, trace):
    exp = "[" + ";\n   ".join(f"({out}, [" + "; ".join(c_obs(r) for r in obs) + "])" for out, obs in trace) + "]"
    return (f"(mkFCase (mkVariant {cb(variant[0])} {cb(variant[1])} {cb(variant[2])})\n  [" + "; ".join(c_op(o) for o in ops) +
            "]\n  " + exp + ")")


CASES_HEADER = """From Coq Require Import List Bool Arith.
From MV Require Import Model.ForestModel Model.ForestExec.
Import ListNotations.
"""


def parse_pairs(out):
    import re
    m = re.search(r"=\s*(\[.*?\])\s*:\s*list", out, flags=re.S)
    if not m:
        return None
    return [(int(a), int(b)) for a, b in re.findall(r"\((\d+),\s*(\d+)\)", m.group(1))]


def model_check(ctx, tag, variant, cases):
    """cases: list of (ops, trace). returns list of (case index, op index) where the model differs"""
    bad, chunk = [], 150
    for ci in range(0, len(cases), chunk):
        part = cases[ci:ci + chunk]
        txt = CASES_HEADER + "Definition cases : list fcase :=\n[" + \
            ";\n".join(c_case(variant, o, t) for o, t in part) + "].\nEval vm_compute in (failing cases).\n"
        ok, out = ctx.coq_eval(f"c11_{tag}_{ci}", txt)
        res = parse_pairs(out) if ok else None
        if res is None:
            ctx.add_broken("broken-correspondence", f"c11_{tag}_{ci}", "model evaluation failed:\n" + out[-1500:])
            return None
        bad += [(ci + i, k) for i, k in res]
    return bad


# ------------------------------------------------------------------ which code is this? (two probes)
PROBE_ADD = [{"op": "new", "k": "sensor"}, {"op": "new", "k": "sensor"}, {"op": "ctor", "objs": [1], "ov": False},
             {"op": "new", "k": "coll"}, {"op": "add", "c": 3, "objs": [0, 1], "ov": False}]
PROBE_SETTER = [{"op": "new", "k": "sensor"}, {"op": "new", "k": "source"}, {"op": "ctor", "objs": [0, 1], "ov": False},
                {"op": "new", "k": "junk"}, {"op": "children", "c": 2, "objs": [0, 3]}]


PROBE_REMOVE = [{"op": "new", "k": "coll"}, {"op": "new", "k": "coll"}, {"op": "new", "k": "sensor"},
                {"op": "add", "c": 1, "objs": [2], "ov": False}, {"op": "add", "c": 0, "objs": [1], "ov": False},
                {"op": "remove", "c": 0, "objs": [1, 2], "rec": True, "err": "raise"}]


def _n(*kinds):
    return [{"op": "new", "k": k} for k in kinds]


# directed histories: every flag / exit that random generation reaches only rarely; they go through the
# same correspondence and invariant pipeline as the random ones
DIRECTED = [
    # remove of a grandchild: recursive False (rejected / ignored / invalid errors value) and True
    _n("coll", "coll", "sensor", "source") + [
        {"op": "add", "c": 1, "objs": [2, 3], "ov": False}, {"op": "add", "c": 0, "objs": [1], "ov": False},
        {"op": "remove", "c": 0, "objs": [2], "rec": False, "err": "raise"},
        {"op": "remove", "c": 0, "objs": [2], "rec": False, "err": "ignore"},
        {"op": "remove", "c": 0, "objs": [2], "rec": False, "err": "bad"},
        {"op": "remove", "c": 0, "objs": [3, 2], "rec": True, "err": "raise"},
        {"op": "remove", "c": 0, "objs": [3], "rec": True, "err": "ignore"},
        {"op": "remove", "c": 0, "objs": [1, 2], "rec": True, "err": "raise"}],
    # deep hit of rec_obj_remover that is not propagated, siblings scanned afterwards
    _n("coll", "coll", "coll", "sensor", "coll", "source") + [
        {"op": "add", "c": 2, "objs": [3], "ov": False}, {"op": "add", "c": 1, "objs": [2], "ov": False},
        {"op": "add", "c": 4, "objs": [5], "ov": False}, {"op": "add", "c": 0, "objs": [1, 4], "ov": False},
        {"op": "remove", "c": 0, "objs": [3, 5], "rec": True, "err": "raise"}],
    # add: own child again with / without override, duplicates, self reference at depth 1, 2, 3
    _n("coll", "coll", "coll", "sensor") + [
        {"op": "add", "c": 0, "objs": [1], "ov": False}, {"op": "add", "c": 1, "objs": [2], "ov": False},
        {"op": "add", "c": 2, "objs": [3], "ov": False},
        {"op": "add", "c": 2, "objs": [3], "ov": False}, {"op": "add", "c": 2, "objs": [3], "ov": True},
        {"op": "add", "c": 0, "objs": [3, 3], "ov": True}, {"op": "add", "c": 0, "objs": [0], "ov": True},
        {"op": "add", "c": 1, "objs": [0], "ov": True}, {"op": "add", "c": 2, "objs": [0], "ov": True},
        {"op": "add", "c": 2, "objs": [3, 1], "ov": True}, {"op": "add", "c": 0, "objs": [3, 2], "ov": True},
        {"op": "parent", "x": 0, "p": 2}, {"op": "parent", "x": 2, "p": 0}, {"op": "parent", "x": 3, "p": None},
        {"op": "parent", "x": 3, "p": None}],
    # typed setters: flattening of collections, wrong kinds, foreign values, keeping the other kinds
    _n("coll", "coll", "sensor", "source", "sensor", "source", "junk", "coll") + [
        {"op": "add", "c": 1, "objs": [2, 3], "ov": False}, {"op": "add", "c": 0, "objs": [4, 5, 7], "ov": False},
        {"op": "typed", "k": "sensor", "c": 0, "objs": [1]}, {"op": "typed", "k": "source", "c": 0, "objs": [1, 2]},
        {"op": "typed", "k": "coll", "c": 0, "objs": [1, 2, 6]}, {"op": "typed", "k": "sensor", "c": 0, "objs": [4, 6]},
        {"op": "typed", "k": "source", "c": 1, "objs": []}, {"op": "children", "c": 0, "objs": [1, 0]},
        {"op": "children", "c": 0, "objs": [2, 3, 1]}, {"op": "children", "c": 1, "objs": [0]}],
    # aliasing: the collection's own live lists (and another collection's) passed back in; bare objects
    _n("coll", "coll", "sensor", "source", "sensor", "coll") + [
        {"op": "add", "c": 0, "objs": [2, 3, 5], "ov": False}, {"op": "add", "c": 1, "objs": [4], "ov": False},
        {"op": "children", "c": 0, "objs": None, "form": "alias", "src": 0, "attr": "children"},
        {"op": "add", "c": 0, "objs": None, "ov": True, "form": "alias", "src": 0, "attr": "children"},
        {"op": "add", "c": 0, "objs": None, "ov": False, "form": "alias", "src": 0, "attr": "children"},
        {"op": "typed", "k": "sensor", "c": 0, "objs": None, "form": "alias", "src": 0, "attr": "sensors"},
        {"op": "typed", "k": "sensor", "c": 1, "objs": None, "form": "alias", "src": 0, "attr": "sensors"},
        {"op": "add", "c": 1, "objs": None, "ov": True, "form": "alias", "src": 0, "attr": "children"},
        {"op": "typed", "k": "source", "c": 0, "objs": [1], "form": "bare"},
        {"op": "typed", "k": "coll", "c": 0, "objs": [1], "form": "bare"},
        {"op": "typed", "k": "sensor", "c": 5, "objs": [2], "form": "bare"},
        {"op": "remove", "c": 0, "objs": None, "rec": True, "err": "raise", "form": "alias", "src": 0, "attr": "children"},
        {"op": "ctor", "objs": None, "ov": True, "form": "alias", "src": 1, "attr": "children"},
        {"op": "remove", "c": 1, "objs": None, "rec": True, "err": "raise", "form": "alias", "src": 1, "attr": "children"},
        {"op": "ctor", "objs": [2, 3], "ov": True, "form": "tuple"}, {"op": "add", "c": 0, "objs": [2], "ov": True, "form": "list"}],
    # constructor / + with parented, duplicate and foreign arguments; copy inside a tree
    _n("sensor", "source", "coll", "junk") + [
        {"op": "ctor", "objs": [0, 1], "ov": False}, {"op": "ctor", "objs": [0], "ov": False},
        {"op": "ctor", "objs": [0], "ov": True}, {"op": "plus", "a": 0, "b": 1}, {"op": "plus", "a": 2, "b": 2},
        {"op": "plus", "a": 2, "b": 3}, {"op": "ctor", "objs": [2, 4], "ov": True}, {"op": "copy", "x": 4},
        {"op": "copy", "x": 1}],
]


def probe_variant(ctx):
    """the witnesses of the `_refuted` theorems, replayed on the implementation"""
    _, tr, v1 = run_history(PROBE_ADD)
    atomic = tr[-1][1][0][0] is None            # object 0 did not get a parent from the rejected add
    if v1 is not None:
        report_violation(ctx, PROBE_ADD, v1)
    _, tr, v2 = run_history(PROBE_SETTER)
    refreshed = tr[-1][1][2][2] == [] and tr[-1][1][2][3] == []   # typed lists follow the emptied children
    if v2 is not None:
        report_violation(ctx, PROBE_SETTER, v2)
    _, tr, v3 = run_history(PROBE_REMOVE)
    fresh = tr[-1][0] == "ErrBad"               # the grandchild is no longer below the collection
    if v3 is not None:
        report_violation(ctx, PROBE_REMOVE, v3)
    return (atomic, refreshed, fresh)


# ------------------------------------------------------------------ main
def run(ctx):
    ctx.extra["rule"] = (
        "random histories over 3-8 (profile big: 16-22; profile deep: a chain of 3-5 nested collections) initial objects "
        "(sources of 5 classes, sensors, collections, foreign values), multi-object arguments passed as varargs / list / "
        "tuple / the LIVE children or typed list of a collection (aliasing) / a bare object, "
        "through the public API: add/remove/parent=/children=/sources=/sensors=/collections=/+/Collection()/copy, "
        "override_parent, recursive, errors raise/ignore/other, duplicates, already-parented and self-referencing "
        "arguments; a 'valid' and a 'malformed' stream; after every operation outcome + full observable state "
        "are compared with the Coq model and the invariant is evaluated on the real objects; a case is distinct "
        "by its canonical JSON and non-trivial if at least one operation changed the tree or raised")
    ctx.trusted += [
        "hand model coq/Model/ForestModel.v of BaseCollection.add/remove/setters/_update_src_and_sens, "
        "BaseGeo.parent/__add__/copy, check_format_input_obj, format_obj_input, rec_obj_remover; tied by the "
        "history correspondence (outcome + full observable state after every operation)",
        "three probes on the implementation (the witnesses of the _refuted theorems) decide which model variant "
        "(atomic add / refreshed setters / per-child remove lookup) the code follows; the positive theorem "
        "C11_forest_invariant is about (True, True, True) and any other answer counts as a broken proof",
        "multi-object arguments are flat lists; foreign values are non-iterable (int/None/float); attribute "
        "assignment on non-collections is not issued; copy is tied only in states where the invariant holds "
        "(deepcopy of a damaged graph is not modelled); deepcopy itself is modelled as a subtree clone",
    ]
    ctx.regen(["GenForest"])     # AST fingerprints of the modelled methods (fail closed)
    built = ctx.build_props()
    if ctx.tier == "thorough" and built:
        ctx.coqchk("MV.Props.C11")
    src = open(__file__.replace("harness/props/C11.py", "coq/Props/C11.v")).read()
    import re
    ctx.refuted = re.findall(r"^Theorem\s+(\w*_refuted\w*)", src, flags=re.M)
    ctx.partial = re.findall(r"^Theorem\s+(\w*_partial\w*)", src, flags=re.M)

    variant = run_guarded(ctx, lambda: probe_variant(ctx), "C11 probes")
    if variant is None:
        variant = (False, False, False)
    ctx.extra["model_variant"] = {
        "v_atomic": variant[0], "v_refresh": variant[1], "v_fresh": variant[2],
        "meaning": ("add: " + ("validate-then-mutate (repaired)" if variant[0] else "magpylib 5.1.1 (parents assigned "
                    "before the children list is extended; forest_invariant_refuted applies)") + "; setters: " +
                    ("typed lists refreshed before the tail add (repaired)" if variant[1] else
                     "magpylib 5.1.1 (typed lists stale when the tail add raises; views_refuted applies)") +
                    "; remove: " + ("membership looked up per child (repaired)" if variant[2] else
                                    "magpylib 5.1.1 (self_objects computed once; remove_refuted applies)"))}
    ctx.log(f"model variant: atomic_add={variant[0]} refreshed_setters={variant[1]} fresh_remove={variant[2]}")
    if tuple(variant) != (True, True, True):
        # the positive theorem is about the `repaired` variant only; for the variant the code follows
        # now the model REFUTES the invariant (C11_add_refuted / C11_views_refuted / C11_remove_refuted)
        ctx.add_broken("broken-proof", "C11_forest_invariant",
                       f"the implementation follows model variant atomic_add={variant[0]} refreshed_setters="
                       f"{variant[1]} fresh_remove={variant[2]}; C11_forest_invariant is proved for "
                       "(True, True, True) only and the model refutes the invariant for this variant")

    viols = []

    def corr():
        cases = []
        nrand = ctx.n(500, 8000)
        for t in range(nrand):
            profile = ["valid", "valid", "deep", "malformed", "valid", "deep", "big" if t % 32 == 6 else "valid",
                       "malformed"][t % 8]
            ops, trace, viol = random_history(ctx.rng, profile)
            cases.append((ops, trace))
            nontrivial = any(out != "Ok" for out, _ in trace) or any(
                trace[i][1][:len(trace[i - 1][1])] != trace[i - 1][1] for i in range(1, len(trace)))
            ctx.case(json.dumps(ops, sort_keys=True), nontrivial)
            for op, (out, _) in zip(ops, trace):
                ctx.bump(f"op:{op['op']}:{out}")
                if op.get("form"):
                    ctx.bump("argument-form:" + op["form"])
            ctx.bump("history:" + profile)
            if viol is not None:
                viols.append((ops, viol, presig(ops, trace, viol)))
                ctx.bump("history-with-violation")
        import copy as _copy
        for ops in DIRECTED:
            done, trace, viol = run_history(_copy.deepcopy(ops))
            cases.append((done, trace))
            ctx.case(json.dumps(done, sort_keys=True), True)
            ctx.bump("history:directed")
            for op, (out, _) in zip(done, trace):
                ctx.bump(f"op:{op['op']}:{out}")
            if viol is not None:
                viols.append((done, viol, presig(done, trace, viol)))
                ctx.bump("history-with-violation")
        mid = cases[len(cases) // 2]
        ctx.samples.append({"history": mid[0], "outcomes": [o for o, _ in mid[1]],
                            "final_state_[parent,children,sources,sensors,collections,*_all]": mid[1][-1][1]})
        bad = model_check(ctx, ctx.tier, variant, cases) if built else None
        if bad is None:
            return
        ctx.count("traces_validated_against_impl", len(cases) - len(bad))
        for ci, k in bad[:4]:
            ops, _ = cases[ci]

            def fails(cand):
                try:
                    done, tr, _ = run_history(cand, tolerant=True)
                    r = model_check(ctx, "shrink", variant, [(done, tr)])
                except Exception:   # pylint: disable=broad-except
                    return False
                return bool(r)
            small = shrink_list(ops[:k + 1], fails, max_steps=25)
            done, tr, _ = run_history(small, tolerant=True)
            ctx.add_broken("broken-correspondence", "ForestModel vs implementation",
                           json.dumps({"variant": variant, "ops": done, "impl_outcomes": [o for o, _ in tr],
                                       "impl_final_state": tr[-1][1] if tr else None}))

    run_guarded(ctx, corr, "C11 correspondence")

    # search: the invariant on the real objects; a larger budget when anything above broke
    def search():
        big = bool(ctx.broken)
        n = ctx.n(300, 6000) * (8 if big else 1)
        for t in range(n):
            profile = ["valid", "malformed", "deep", "malformed", "valid", "big" if t % 24 == 5 else "deep"][t % 6]
            ops, trace, viol = random_history(ctx.rng, profile, search=True)
            ctx.case(json.dumps(ops, sort_keys=True), True)
            ctx.bump("search-history:" + profile)
            if viol is not None:
                viols.append((ops, viol, presig(ops, trace, viol)))
                ctx.bump("history-with-violation")
        seen = {}
        for ops, viol, key in viols:
            ctx.bump("violation-unshrunk:" + key)
            if seen.get(key, 0) >= 3:       # shrink at most three histories per unshrunk signature
                continue
            seen[key] = seen.get(key, 0) + 1
            report_violation(ctx, ops, viol)

    run_guarded(ctx, search, "C11 search")


def presig(ops, trace, viol):
    k = viol[0]
    return signature(ops[k], trace[k][0], viol[1], trace[k - 1][1] if k else [], trace[k][1])


def replay(ctx, obj):
    rp = obj.get("replay", obj)
    if rp.get("kind") == "history":
        done, trace, v = run_history(rp["ops"], tolerant=True)
        for op, (out, _) in zip(done, trace):
            print("  ", fmt_op(op), "->", out)
        if v is None:
            print("replay: the invariant holds after every operation of this history")
            return 0
        print(f"replay: FAILS after operation {v[0]}: [{v[1]}] {v[3]}")
        print(f"VIOLATION property=C11 replay={obj.get('how_to_rerun', '').split()[-1] or 'given'}")
        return 1
    print(json.dumps(obj, indent=1)[:3000])
    return 0
